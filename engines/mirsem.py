"""`mirsem`: mirflow with *semantic models*.  The MIR of one function is executed symbolically (z3) on operands whose
shape is concrete and whose scalars are solver variables; callees are either (a) inlined from the same MIR dump (closures,
small enum predicates), (b) given a contract model by the caller (a Python effect that returns a value and may add
constraints to the path condition), or (c) left uninterpreted (mirflow's default).  Compared with mirflow:

* aggregates with a known enum variant have a concrete discriminant and support `as Variant` projections;
* booleans are terms `b` with `DISC(switch_value(b))` in {0, 1}; `const true/false` are pinned by axioms;
* pointer casts and closure captures keep references (a `Box` is an aggregate around a reference to a pseudo-local);
* `switchInt` prunes arms that are infeasible under the path condition (one incremental z3 query per arm);
* `inline(P, fn, args)` executes a callee's MIR and merges its paths into one value by implications.

Everything is evaluated for one path at a time; the caller poses the final query (path condition AND NOT obligation)."""
import re

import z3

import mirflow as F
from mirflow import DISC, Flow, Path, Ref, Unsupported, V, const, fun
from mir2smt import split_top

TRUE = const("const_true")
FALSE = const("const_false")
SV = fun("switch_value", 1)
BASE_AXIOMS = [DISC(SV(TRUE)) == 1, DISC(SV(FALSE)) == 0]


def truth(flow, v):
    """z3 Bool: the MIR boolean value v is true"""
    if isinstance(v, tuple) and v and v[0] == "zbool":
        return v[1]
    return DISC(SV(flow.term(v))) != 0


class Counter:
    def __init__(self):
        self.n = 0

    def next(self):
        self.n += 1
        return self.n


class SemFlow(Flow):
    def __init__(self, fns, fn, models, variant_index, counter=None, max_steps=6000, prune=True):
        Flow.__init__(self, fn, effects=None, max_steps=max_steps)
        self.fns = fns                      # {name: MirFn} for inlining
        self.models = models                # [(regex, effect(flow, P, callee, args) -> value)]
        self.vidx = variant_index           # {"Predicate": [variants...], "Option": ["None", "Some"], ...}
        self.ctr = counter or Counter()
        self.prune = prune
        self.solver = z3.Solver()
        self.solver.set("timeout", 20000)
        self.solver.add(*BASE_AXIOMS)
        self.queries = 0
        self.inlined = set()
        self._opaque, self._keep = {}, []
        self.notes = set()
        self.named_consts = {}              # "path::CONST" -> value (associated constants the code loads with `const path::CONST`)

    # ---- helpers for models
    def fresh(self, prefix):
        return const("%s_%d" % (prefix, self.ctr.next()))

    def mkbool(self, P, expr):
        b = self.fresh("b")
        P.pc.append(DISC(SV(b)) == z3.If(expr, 1, 0))
        return b

    def deref_all(self, P, v):
        """follow references until a non-reference value"""
        n = 0
        while isinstance(v, Ref):
            v = self.read(P, v.local, list(v.path))
            n += 1
            if n > 8:
                raise Unsupported("reference chain")
        return v

    def new_place(self, P, prefix, value):
        name = "%s%d" % (prefix, self.ctr.next())
        P.locals[name] = value
        return Ref(name)

    def variant_of(self, agg_name):
        """(enum, variant index) of an aggregate name such as `predicate::Predicate::And` / `Option::Some`"""
        parts = agg_name.split("::")
        if len(parts) >= 2 and parts[-2] in self.vidx and parts[-1] in self.vidx[parts[-2]]:
            return parts[-2], self.vidx[parts[-2]].index(parts[-1])
        return None

    def feasible(self, pc):
        self.queries += 1
        self.solver.push()
        self.solver.add(*pc)
        r = self.solver.check()
        self.solver.pop()
        return r != z3.unsat

    # ---- overrides
    def term(self, v):
        if isinstance(v, tuple) and v and v[0] == "zbool":
            raise Unsupported("zbool as a term")
        if isinstance(v, tuple) and v and v[0] == "int":
            return const("int_%d" % v[1])
        if isinstance(v, tuple) and v and v[0] == "sint":
            return const("sint_%d" % (abs(hash(str(v[1]))) % (10 ** 12)))
        if isinstance(v, tuple) and v and v[0] == "slice":
            k = self._opaque.setdefault(id(v), len(self._opaque))
            self._keep.append(v)
            return const("opaque_slice_%d" % k)
        if isinstance(v, tuple) and v and v[0] == "fnitem":
            return const("fn_" + re.sub(r"\W+", "_", v[1])[:60])
        if isinstance(v, tuple) and v and v[0] in ("vec", "set", "iter", "names", "optflag"):
            # a container model handed to an unmodelled callee: an opaque value (its identity is the Python object's)
            k = self._opaque.setdefault(id(v), len(self._opaque))
            self._keep.append(v)
            return const("opaque_%s_%d" % (v[0], k))
        return Flow.term(self, v)

    @staticmethod
    def is_int(v):
        return isinstance(v, tuple) and len(v) == 2 and v[0] == "int"

    @staticmethod
    def is_num(v):
        return isinstance(v, tuple) and len(v) == 2 and v[0] in ("int", "sint")

    @staticmethod
    def num(v):
        return z3.IntVal(v[1]) if v[0] == "int" else v[1]

    STRUCTURED = ()      # value kinds a subclass wants kept apart when an inlined callee returns on several paths (the caller forks)

    WIDTHS = {"u8": 8, "u16": 16, "u32": 32, "u64": 64, "usize": 64, "i8": 8, "i16": 16, "i32": 32, "i64": 64, "isize": 64}

    def project(self, P, v, p):
        if isinstance(v, tuple) and v and v[0] == "agg" and p[0] == "variant":
            if v[1].split("::")[-1] == p[1]:
                return v
            raise Unsupported("variant projection %s of %s" % (p[1], v[1]))
        return Flow.project(self, P, v, p)

    @staticmethod
    def strip_generics(txt):
        """`Result::<(), E>::Ok(x)` -> `Result::Ok(x)`: drop `::<...>` groups (balanced, `->` is not a bracket)"""
        out, i, n = [], 0, len(txt)
        while i < n:
            if txt.startswith("::<", i):
                depth, j = 0, i + 2
                while j < n:
                    c = txt[j]
                    if c == "<":
                        depth += 1
                    elif c == ">" and txt[j - 1] != "-":
                        depth -= 1
                        if depth == 0:
                            break
                    j += 1
                i = j + 1
                continue
            out.append(txt[i])
            i += 1
        return "".join(out)

    def rvalue(self, P, txt):
        txt = txt.strip()
        if "::<" in txt and re.match(r"^[A-Za-z_][\w:]*::<", txt) and not txt.startswith("const "):
            txt = self.strip_generics(txt)
        m = re.match(r"^discriminant\((.*)\)$", txt)
        if m:
            l, p = self.parse_place(m.group(1))
            v = self.read(P, l, p)
            if isinstance(v, tuple) and v and v[0] == "agg":
                k = self.variant_of(v[1])
                if k is None:
                    raise Unsupported("discriminant of aggregate " + v[1])
                return ("disc_known", k[1])
            return ("disc", self.term(v))
        m = re.match(r"^((?:(?:no_retag )?(?:copy|move) )?_\d+|const .*?) as (.+?) \(PointerCoercion\(.*\)\)$", txt)
        if m:                                             # array -> slice and similar unsizing coercions keep the value
            return self.operand(P, m.group(1) if m.group(1).startswith(("copy", "move", "const", "no_retag")) else "copy " + m.group(1))
        m = re.match(r"^(.*) as (.+?) \((\w+)\)$", txt)
        if m and re.match(r"^(?:no_retag )?(copy|move) |^const ", m.group(1)):
            v = self.operand(P, m.group(1))
            if self.is_num(v) and m.group(3) == "IntToInt" and m.group(2).strip() in self.WIDTHS:
                w = self.WIDTHS[m.group(2).strip()]
                if v[0] == "int":
                    return ("int", v[1] % (1 << w))
                return ("sint", v[1] % (1 << w)) if w < 64 else v
            if isinstance(v, tuple) and v and v[0] == "slice":
                return v
            if isinstance(v, Ref) or (isinstance(v, tuple) and v and v[0] in ("refinto", "agg")):
                if m.group(3) in ("Transmute", "PtrToPtr", "PointerCoercion"):
                    return v
                raise Unsupported("cast of a structured value: " + txt[:80])
            return fun("cast_" + re.sub(r"\W+", "_", m.group(2)), 1)(self.term(v))
        m = re.match(r"^(Eq|Ne|Lt|Le|Gt|Ge|Add|Sub|Mul|AddWithOverflow|SubWithOverflow|MulWithOverflow)\((.*)\)$", txt)
        if m:
            parts = split_top(m.group(2))
            if len(parts) == 2:
                a, b = self.operand(P, parts[0]), self.operand(P, parts[1])
                if self.is_int(a) and self.is_int(b):      # sizes and indices of shape-concrete containers are concrete
                    op, x, y = m.group(1), a[1], b[1]
                    if op in ("Eq", "Ne", "Lt", "Le", "Gt", "Ge"):
                        r = {"Eq": x == y, "Ne": x != y, "Lt": x < y, "Le": x <= y, "Gt": x > y, "Ge": x >= y}[op]
                        return TRUE if r else FALSE
                    r = {"A": x + y, "S": x - y, "M": x * y}[op[0]]
                    if op.endswith("WithOverflow"):
                        return ("agg", "tuple2", [("int", r), TRUE if (r < 0 or r >= 1 << 64) else FALSE])
                    return ("int", r)
                if self.is_num(a) and self.is_num(b):      # symbolic machine integers (mathematical; overflow flags are assumed false and recorded)
                    op, x, y = m.group(1), self.num(a), self.num(b)
                    if op in ("Eq", "Ne", "Lt", "Le", "Gt", "Ge"):
                        e = {"Eq": x == y, "Ne": x != y, "Lt": x < y, "Le": x <= y, "Gt": x > y, "Ge": x >= y}[op]
                        return self.mkbool(P, e)
                    e = {"A": x + y, "S": x - y, "M": x * y}[op[0]]
                    if op.endswith("WithOverflow"):
                        self.notes.add("arithmetic on symbolic integers is mathematical: no overflow within the stated ranges")
                        return ("agg", "tuple2", [("sint", e), FALSE])
                    return ("sint", e)
        m = re.match(r"^&(?:mut |raw const |raw mut )?(?:\(fake\) )?\(\*(_\d+)\)(?:\[(\d+) of (\d+)\])?$", txt)
        if m:
            base = self.init_value(P, m.group(1))
            if isinstance(base, tuple) and base and base[0] == "slice":
                if m.group(2) is None:
                    return base                                   # a pointer to the slice stands for the slice
                i = int(m.group(2))
                if i >= len(base[1]):
                    raise Unsupported("constant index past the modelled slice")
                return base[1][i]
        m = re.match(r"^PtrMetadata\((?:copy|move) (_\d+)\)$", txt)
        if m:
            base = self.init_value(P, m.group(1))
            if isinstance(base, tuple) and base and base[0] == "slice":
                return ("int", len(base[1]))
        m = re.match(r"^Not\((?:copy|move) (_\d+)\)$", txt)
        if m and self.fn.types.get(m.group(1)) == "bool":
            return self.mkbool(P, z3.Not(truth(self, self.read(P, m.group(1), []))))
        m = re.match(r"^\{(closure|coroutine)@([^}]*)\}\s*(?:\{(.*)\})?$", txt)
        if m:
            fields = []
            for part in split_top(m.group(3) or ""):
                if not part.strip():
                    continue
                mm = re.match(r"^\s*\w+:\s*(.*)$", part.strip())
                fields.append(self.operand(P, mm.group(1) if mm else part))
            return ("agg", "closure@" + m.group(2).strip(), fields)
        return Flow.rvalue(self, P, txt)

    def operand(self, P, txt):
        t = txt.strip()
        if t == "const true":
            return TRUE
        if t == "const false":
            return FALSE
        mi = re.fullmatch(r"const (-?\d+)_[ui](?:8|16|32|64|128|size)", t)
        if mi:
            return ("int", int(mi.group(1)))
        if not t.startswith(("copy ", "move ", "const ", "no_retag ")) and re.fullmatch(r"[A-Za-z_<][\w:<>' ,&]*", t) and "::" in t:
            return ("fnitem", t)            # a function item passed by name (e.g. `.any(Self::is_impure)`)
        if t.startswith("const ") and t[6:].strip() in self.named_consts:
            return self.named_consts[t[6:].strip()]
        return Flow.operand(self, P, txt)

    def exec(self, P, st, work, steps):
        s = re.sub(r"\s*//.*$", "", st.rstrip(";").strip())
        m = re.match(r"^switchInt\((.*?)\) -> \[(.*)\]$", s)
        if m:
            v = self.operand(P, m.group(1))
            arms = []
            for part in split_top(m.group(2)):
                k, tgt = part.split(":")
                arms.append((k.strip(), tgt.strip()))
            vals = [int(k) for k, _ in arms if k != "otherwise"]
            if isinstance(v, tuple) and v and v[0] == "disc_known":
                for k, tgt in arms:
                    if k != "otherwise" and int(k) == v[1]:
                        return tgt
                for k, tgt in arms:
                    if k == "otherwise":
                        return tgt
                return "unreachable"
            if self.is_int(v):
                for k, tgt in arms:
                    if k != "otherwise" and int(k) == v[1]:
                        return tgt
                for k, tgt in arms:
                    if k == "otherwise":
                        return tgt
                return "unreachable"
            if isinstance(v, tuple) and v and v[0] == "sint":
                d = v[1]
            elif isinstance(v, tuple) and v and v[0] == "zbool":
                d = z3.If(v[1], 1, 0)
            elif isinstance(v, tuple) and v and v[0] == "disc":
                d = DISC(v[1])
            else:
                d = DISC(SV(self.term(v)))
            forks = []
            for k, tgt in arms:
                if k == "otherwise":
                    cond = z3.And([d != x for x in vals]) if vals else z3.BoolVal(True)
                    if self.fn.blocks.get(tgt) and self.fn.blocks[tgt][0].strip().rstrip(";") == "unreachable":
                        continue
                else:
                    cond = d == int(k)
                if self.prune and not self.feasible(P.pc + [cond]):
                    continue
                forks.append((cond, tgt))
            if len(forks) == 1:
                P.pc.append(forks[0][0])
                return forks[0][1]
            for cond, tgt in forks:
                Q = Path()
                Q.locals = dict(P.locals)
                Q.pc = P.pc + [cond]
                Q.calls = list(P.calls)
                work.append((Q, tgt, steps, False))
            return "forked"
        if re.match(r"^(.*?) = .*\) -> (unwind \w+|bb\d+)$", s) and "[return:" not in s:
            P.calls.append(("DIVERGES:" + s[:60], [], None))      # a call that never returns (panic_fmt, ...): the path ends
            return "unreachable"
        m = re.match(r"^assert\((!?)(?:move|copy) (.*?), \"", s)
        if m:
            try:
                l, p = self.parse_place(m.group(2))
                v = self.read(P, l, p)
            except Unsupported:
                v = None
            if v is TRUE or v is FALSE:
                holds = (v is TRUE) != (m.group(1) == "!")
                if not holds:
                    P.calls.append(("PANIC:assert", [], None))
                    return "unreachable"
        m = re.match(r"^(.*?) = (.*) -> \[return: (bb\d+).*\]$", s)
        if m and "(" in m.group(2):
            dest, call, ret = m.group(1), m.group(2), m.group(3)
            k = call.rfind(")")
            depth, start = 0, None
            for i in range(k, -1, -1):
                if call[i] == ")":
                    depth += 1
                elif call[i] == "(":
                    depth -= 1
                    if depth == 0:
                        start = i
                        break
            callee = call[:start].strip()
            for pat, eff in self.models:
                if re.search(pat, callee):
                    args = [self.operand(P, a) for a in split_top(call[start + 1:k]) if a.strip()]
                    res = eff(self, P, callee, args)
                    if isinstance(res, tuple) and res == ("stop",):       # the model ends the path here (everything of interest has been recorded)
                        P.calls.append(("STOP:" + callee, args, None))
                        return "return"
                    l, p = self.parse_place(dest)
                    if isinstance(res, tuple) and res and res[0] == "fork":
                        for newpc, rv, pseudo in res[1]:
                            if self.prune and newpc and not self.feasible(P.pc + list(newpc)):
                                continue
                            Q = Path()
                            Q.locals = dict(P.locals)
                            Q.locals.update(pseudo)
                            Q.pc = P.pc + list(newpc)
                            Q.calls = list(P.calls) + [(callee, args, rv)]
                            self.write(Q, l, p, rv)
                            work.append((Q, ret, steps, False))
                        return "forked"
                    P.calls.append((callee, args, res))
                    self.write(P, l, p, res)
                    return ret
            # integer helpers of std on concrete sizes / indices (shape-concrete containers make them concrete)
            mi = re.search(r"(?:num::<impl (?:usize|u8|u16|u32|u64|isize|i32|i64)>::|^<usize as Ord>::|^(?:core|std)::cmp::)(saturating_sub|saturating_add|wrapping_add|wrapping_sub|min|max|abs_diff)(?:::<.*>)?$", callee)
            if mi:
                iargs = [self.operand(P, a) for a in split_top(call[start + 1:k]) if a.strip()]
                if len(iargs) == 2 and all(self.is_int(a) for a in iargs):
                    x, y = iargs[0][1], iargs[1][1]
                    r = {"saturating_sub": max(x - y, 0), "saturating_add": x + y, "wrapping_add": x + y, "wrapping_sub": x - y,
                         "min": min(x, y), "max": max(x, y), "abs_diff": abs(x - y)}[mi.group(1)]
                    l, p = self.parse_place(dest)
                    self.write(P, l, p, ("int", r))
                    return ret
            if re.search(r"^<(?:usize|u8|u32|u64|isize|i32|i64) as From<bool>>::from$", callee):
                iargs = [self.operand(P, a) for a in split_top(call[start + 1:k]) if a.strip()]
                if len(iargs) == 1 and (iargs[0] is TRUE or iargs[0] is FALSE):
                    l, p = self.parse_place(dest)
                    self.write(P, l, p, ("int", 1 if iargs[0] is TRUE else 0))
                    return ret
            # default: an uninterpreted function of its arguments; a structured argument (an aggregate holding references) is an opaque handle of its place
            if any(re.search(pat, callee) for pat in self.stop_calls):
                P.calls.append(("STOP:" + callee, [], None))
                return "return"
            args = [self.operand(P, a) for a in split_top(call[start + 1:k]) if a.strip()]

            def handle(a):
                try:
                    if isinstance(a, Ref):
                        return fun("ref", 1)(self.term(self.read(P, a.local, list(a.path))))
                    if isinstance(a, tuple) and a and a[0] == "refinto":
                        return fun("ref", 1)(self.term(a[1]))
                    return self.term(a)
                except Unsupported:
                    if isinstance(a, Ref):
                        return const("handle_" + re.sub(r"\W+", "_", repr(a)))
                    k2 = self._opaque.setdefault(id(a), len(self._opaque))
                    self._keep.append(a)
                    return const("handle_val_%d" % k2)
            targs = [handle(a) for a in args]
            name = re.sub(r"<impl at [^>]*>", "impl", callee)
            name = re.sub(r"\W+", "_", name)[:80]
            res = fun("call_" + name, len(targs))(*targs) if targs else const("call_" + name)
            P.calls.append((callee, args, res))
            for a in args:
                if isinstance(a, Ref) and a.mut:
                    self.write(P, a.local, list(a.path), const("havoc_%s_%d" % (re.sub(r"\W+", "_", a.local), self.ctr.next())))
            l, p = self.parse_place(dest)
            self.write(P, l, p, res)
            return ret
        return Flow.exec(self, P, st, work, steps)

    # ---- inlining
    def find_fn(self, short, param0_contains=None, name_contains=None):
        c = [f for f in self.fns.values() if f.short == short
             and (param0_contains is None or (f.params and param0_contains in f.params[0][1]))
             and (name_contains is None or name_contains in f.name)]
        names = {f.name for f in c}
        return c[0] if len(names) == 1 else None

    def inline(self, P, fn, args):
        """execute `fn` on `args` from the current path; returns its result value (paths merged by implications)"""
        sub = type(self)(self.fns, fn, self.models, self.vidx, counter=self.ctr, max_steps=self.max_steps, prune=self.prune)     # props may subclass (extra operand forms)
        sub.inlined = self.inlined
        sub.named_consts = self.named_consts
        sub.notes = self.notes
        self.inlined.add(fn.name)
        pre = {k: v for k, v in P.locals.items() if not re.fullmatch(r"_\d+", k)}
        if len(fn.params) != len(args):
            raise Unsupported("arity of inlined " + fn.name)
        exported = {}

        def export(a, depth=0):
            """references to the caller's numbered locals (also inside aggregates, e.g. closure captures) get their own places: frames share no numbering"""
            if depth > 12:
                raise Unsupported("export depth")
            if isinstance(a, Ref) and re.fullmatch(r"_\d+", a.local):
                if a.local not in exported:
                    name = "pfr%d" % self.ctr.next()
                    exported[a.local] = name
                    v = P.locals.get(a.local)
                    if v is None:
                        v = self.init_value(P, a.local)
                    pre[name] = export(v, depth + 1)
                return Ref(exported[a.local], a.path, a.mut)
            if isinstance(a, tuple) and a and a[0] == "agg":
                return ("agg", a[1], [export(x, depth + 1) for x in a[2]])
            return a
        for k in list(pre):          # values parked in pseudo-places (closure environments) may hold such references too
            pre[k] = export(pre[k])
        for (pn, _), a in zip(fn.params, args):
            pre[pn] = export(a)
        outs = sub.run("bb0", stop_at=(), pre=pre, pc=P.pc)
        self.queries += sub.queries
        rets = [(Q.pc[len(P.pc):], Q.locals["_0"] if Q.locals.get("_0") is not None else const("unit"), Q) for Q, end in outs if end == "return"]
        if not rets:
            raise Unsupported("inlined function has no returning path: " + fn.name)
        if len(rets) == 1:
            newpc, rv, Q = rets[0]
            P.pc.extend(newpc)
            for k, v in Q.locals.items():
                if not re.fullmatch(r"_\d+", k):
                    P.locals[k] = v
            P.calls.extend(Q.calls)          # the callee's path starts with an empty call record
            if isinstance(rv, Ref) and re.fullmatch(r"_\d+", rv.local):
                raise Unsupported("inlined function returns a reference to its own local")
            return rv
        try:
            if any(isinstance(rv, tuple) and rv and rv[0] in self.STRUCTURED for _, rv, _ in rets):
                raise Unsupported("structured result")
            terms = [self.term(rv) for _, rv, _ in rets]
        except Unsupported:
            # structured results (aggregates holding references): the caller's path forks, one continuation per returning path
            alts = []
            for newpc, rv, Q in rets:
                if isinstance(rv, Ref) and re.fullmatch(r"_\d+", rv.local):
                    raise Unsupported("inlined function returns a reference to its own local")
                alts.append((newpc, rv, {k: v for k, v in Q.locals.items() if not re.fullmatch(r"_\d+", k)}))
            return ("fork", alts)
        common = [c for c in rets[0][2].calls if all(any(c[0] == d[0] and c[1] == d[1] for d in Q2.calls) for _, _, Q2 in rets[1:])]
        P.calls.extend(common)           # calls made on every returning path of the callee
        r = self.fresh("inl")
        conds = []
        for (newpc, rv, Q), t in zip(rets, terms):
            c = z3.And(newpc) if newpc else z3.BoolVal(True)
            conds.append(c)
            P.pc.append(z3.Implies(c, r == t))
        P.pc.append(z3.Or(conds))
        return r
