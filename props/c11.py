"""C11 — operator expressions parse by the documented precedence table (kernel-level: the table itself).

Engine: Kani/CBMC over the real erg_parser crate (overlay on token.rs).  Two TokenKind discriminants are solver
variables over the whole #[repr(u8)] enum (variant list re-read from the source on every run); the oracle is the
order of operator classes in the property statement, kept as data below."""
import json
import re

from common import (BROKEN, HELD, INCONCLUSIVE, VIOLATED, Obligation, Report, Scratch, extract_fn, log)
from kani import Harness, KaniRun, confirm_violations

# the property statement: member access > ** > prefix +/-/~ > * / // % > + - > shifts > && > ^^ > || > ranges >
# comparisons > and > or   (class 0 binds tightest)
CLASSES = [
    ("member-access", ["Dot"], "SpecialBinOp"),
    ("power", ["Pow"], "BinOp"),
    ("prefix", ["PrePlus", "PreMinus", "PreBitNot"], "UnaryOp"),
    ("multiplicative", ["Star", "Slash", "FloorDiv", "Mod"], "BinOp"),
    ("additive", ["Plus", "Minus"], "BinOp"),
    ("shift", ["Shl", "Shr"], "BinOp"),
    ("bit-and", ["BitAnd"], "BinOp"),
    ("bit-xor", ["BitXor"], "BinOp"),
    ("bit-or", ["BitOr"], "BinOp"),
    ("range", ["Closed", "RightOpen", "LeftOpen", "Open"], "BinOp"),
    ("comparison", ["Less", "Gre", "LessEq", "GreEq", "DblEq", "NotEq", "InOp", "NotInOp", "ContainsOp", "IsOp", "IsNotOp"], "BinOp"),
    ("and", ["AndOp"], "BinOp"),
    ("or", ["OrOp"], "BinOp"),
]
# kinds whose category() is BinOp but which the lexer never produces (listed, not failed)
EXEMPT_BINOP = ["SubOp"]
CATS = ["Symbol", "Literal", "StrInterpLeft", "StrInterpMid", "StrInterpRight", "BinOp", "UnaryOp", "PostfixOp",
        "SpecialBinOp", "DefOp", "LambdaOp"]


def variants(src):
    m = re.search(r"pub enum TokenKind \{(.*?)\n\}", src, re.S)
    body = re.sub(r"//[^\n]*", "", m.group(1))
    return re.findall(r"\b([A-Z][A-Za-z0-9]*)\b\s*,", body)


def run(tier, seed, only=None):
    rep = Report("C11", tier, seed, "other",
                 "Bounded model checking (Kani/CBMC) of TokenKind::precedence / is_right_associative / category over two symbolic "
                 "token kinds (all pairs of the whole enum) against the operator classes of the property statement: same class => same "
                 "precedence, tighter class => strictly larger precedence, every class member has a precedence and the right category, "
                 "no operator of the table is right-associative, and every BinOp-category kind is in the table (or exempt and listed). "
                 "The operator-stack reduction in parse.rs (which consumes these numbers with >=) builds ast::Expr values and is not encoded.",
                 partial=bool(only))
    s = Scratch("c11")
    try:
        src = s.read("crates/erg_parser/token.rs")
        vs = variants(src)
        for fn in ("category", "precedence", "is_right_associative"):
            rep.add_function("TokenKind::" + fn, "crates/erg_parser/token.rs", extract_fn(src, fn))
        cls = {}
        cat = {}
        for i, (_, names, c) in enumerate(CLASSES):
            for n in names:
                cls[n] = i
                cat[n] = c
        missing = [n for n in cls if n not in vs]
        if missing or "EOF" not in vs:
            rep.add(Obligation(key="table/variants", engine="source", verdict=BROKEN,
                               reason="operator kinds of the oracle are missing from enum TokenKind: %s" % missing))
            return rep.finish()
        n = len(vs)
        CLS = ",".join(str(cls.get(v, 255)) for v in vs)
        EX = ",".join("true" if v in EXEMPT_BINOP else "false" for v in vs)
        WANTBIN = ",".join({"BinOp": "1", "UnaryOp": "2", "SpecialBinOp": "3"}.get(cat.get(v, ""), "0") for v in vs)
        prelude = """
    pub const __N: usize = %d;
    pub const __CLS: [u8; %d] = [%s];
    pub const __EXEMPT: [bool; %d] = [%s];
    pub const __WANTCAT: [u8; %d] = [%s];
    pub fn __kind(i: u8) -> TokenKind { assert!((i as usize) < __N); unsafe { std::mem::transmute::<u8, TokenKind>(i) } }
""" % (n, n, CLS, n, EX, n, WANTBIN)
        body = """        assert!(TokenKind::EOF as u8 as usize == __N - 1, "enum: the variant list read from the source matches the compiled enum");
        let a: u8 = kani::any(); let b: u8 = kani::any();
        kani::assume((a as usize) < __N && (b as usize) < __N);
        let ka = __kind(a); let kb = __kind(b);
        let ca = __CLS[a as usize]; let cb = __CLS[b as usize];
        kani::cover!(ca != 255 && cb != 255 && ca < cb, "reach-ordered");
        kani::cover!(ca != 255 && cb != 255 && ca == cb && a != b, "reach-same");
        if ca != 255 {
            assert!(ka.precedence().is_some(), "has-prec: every operator of the table has a precedence");
            assert!(!ka.is_right_associative(), "left-assoc: no operator of the table is right-associative");
            let c = ka.category();
            let want = __WANTCAT[a as usize];
            assert!(!(want == 1) || c == TokenCategory::BinOp, "cat-bin: binary operators are classified BinOp");
            assert!(!(want == 2) || c == TokenCategory::UnaryOp, "cat-unary: prefix operators are classified UnaryOp");
            assert!(!(want == 3) || c == TokenCategory::SpecialBinOp, "cat-dot: member access is classified SpecialBinOp");
        }
        if ca != 255 && cb != 255 {
            let pa = ka.precedence(); let pb = kb.precedence();
            if ca == cb { assert!(pa == pb, "same-class: operators of one class share one precedence"); }
            if ca < cb { assert!(pa > pb, "order: a tighter class has a strictly larger precedence"); }
            // the comparison the operator stack uses: reduce the previous operator first iff it binds at least as tightly
            assert!((pa >= pb) == (ca <= cb), "reduce: `prev.precedence() >= op.precedence()` holds exactly when prev's class is not looser (left grouping)");
        }
        if ka.category() == TokenCategory::BinOp && !__EXEMPT[a as usize] {
            assert!(ca != 255, "complete: every kind classified BinOp belongs to a class of the table");
        }"""
        kr = KaniRun(s, "erg_parser", "crates/erg_parser", tier, workers=2, mem_gb=8, cap=600)
        h = Harness("prec_table", body, "precedence-table/all-pairs", unwind=4, fmt_stub=True,
                    asserts={"enum": "", "has-prec": "", "left-assoc": "", "cat-bin": "", "cat-unary": "", "cat-dot": "",
                             "same-class": "", "order": "", "reduce": "", "complete": ""},
                    covers=["reach-ordered", "reach-same"],
                    meta=dict(shape="two token kinds over the whole enum (%d variants, %d x %d pairs)" % (n, n, n),
                              symbolic=["a: TokenKind discriminant", "b: TokenKind discriminant"], bounds={}))
        kr.add("crates/erg_parser/token.rs", h, prelude)
        # per-class constants (one obligation per row, so that a changed row is named)
        for i, (cname, names, c) in enumerate(CLASSES):
            lines = ["        kani::cover!(true, \"reach\");"]
            asserts = {}
            for nm in names:
                lines.append("        assert!(TokenKind::%s.precedence() == TokenKind::%s.precedence(), \"row-%s: same precedence as the rest of its class\");" % (nm, names[0], nm))
                asserts["row-" + nm] = ""
            if i + 1 < len(CLASSES):
                nxt = CLASSES[i + 1][1][0]
                lines.append("        assert!(TokenKind::%s.precedence() > TokenKind::%s.precedence(), \"above-next: binds tighter than the next class (%s)\");" % (names[0], nxt, CLASSES[i + 1][0]))
                asserts["above-next"] = ""
            hh = Harness("row_%d_%s" % (i, cname.replace("-", "_")), "\n".join(lines), "precedence-table/row/%s" % cname, fmt_stub=True,
                         asserts=asserts, covers=["reach"],
                         meta=dict(shape="class %s = %s" % (cname, names), symbolic=[], bounds={}))
            kr.add("crates/erg_parser/token.rs", hh, prelude)
        if only:
            for f in kr.frags.values():
                f["harnesses"] = [x for x in f["harnesses"] if only in x.name]
        kr.run()
        for hh in kr.all_harnesses():
            for o in kr.obligations(hh, functions=["TokenKind::precedence", "TokenKind::is_right_associative", "TokenKind::category"]):
                if not hh.meta.get("symbolic"):
                    o["nontrivial"] = False
                rep.add(o)
        confirm_violations(rep, s, [kr])
        rep.trusted += ["Kani 0.68, CBMC 6.11, CaDiCaL", "the class order of the property statement (CLASSES in props/c11.py)"]
        rep.assumptions += [
            "kinds classified BinOp that the lexer never produces are exempt and listed: %s" % EXEMPT_BINOP,
            "outside the claim: Parser::try_reduce_expr / try_reduce_chunk (the operator stack that consumes the table; builds ast::Expr), "
            "Parser::try_reduce_unary (prefix operators take a whole expression as operand on the current tree: `-a + b` parses as `-(a + b)`; "
            "seen by reading, not decidable here), Lexer::op_fix (prefix/infix classification by spacing)",
        ]
        rep.extra["classes"] = [{"class": c, "kinds": n2} for c, n2, _ in CLASSES]
        rep.extra["enum_variants"] = n
        rep.extra["kani_build_s"] = kr.build_s
        return rep.finish()
    finally:
        s.cleanup()
