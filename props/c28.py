"""C28 — the language server's document copy matches the client's.

Engine: Kani/CBMC over the real `els` crate (source overlay on crates/els/util.rs).
Kernel: `util::pos_to_byte_index` — the only computation in `FileCache::incremental_update`'s edit step
(`start = p2b(code, range.start); end = p2b(code, range.end); code.replace_range(start..end, text)`).
The server copy is a function of (previous copy, change); if for every document and every position the
index equals the LSP reference and is a char boundary, `String::replace_range` (std, trusted) performs
the client's edit, and by induction the copies agree after any history.

Shape concrete, scalars symbolic: a shape is the UTF-8 width pattern of the document (A = any ASCII code
point *including* '\\n' and '\\r', 2/3/4 = any code point of that encoded width); every code point of the
class, `Position.line` and `Position.character` (any u32) are solver variables."""
import itertools
import random

from common import (BROKEN, HELD, INCONCLUSIVE, VIOLATED, Obligation, Report, Scratch, extract_fn, log)
from kani import Harness, KaniRun, confirm_violations

REF = r"""
    pub fn __w(b: u8) -> usize { if b < 0x80 { 1 } else if b < 0xE0 { 2 } else if b < 0xF0 { 3 } else { 4 } }
    /// LSP 3.17 reference: lines end at '\n'; `character` counts UTF-16 code units; a character offset past the
    /// end of the line means the end of the line; a line past the last line means the end of the text.
    /// Returns (byte index, exact) — exact is false when the position falls inside a surrogate pair (unspecified
    /// by the LSP; only the char-boundary requirement is asserted there).
    pub fn __ref_index(b: &[u8], line: u32, ch: u32) -> (usize, bool) {
        let mut i = 0usize; let mut l = 0u32;
        while l < line {
            while i < b.len() && b[i] != b'\n' { i += 1; }
            if i == b.len() { return (b.len(), true); }
            i += 1; l += 1;
        }
        let mut col = 0u32;
        while i < b.len() && b[i] != b'\n' && col < ch { let w = __w(b[i]); col += if w == 4 { 2 } else { 1 }; i += w; }
        (i, !(col > ch))
    }
"""

CLASS = {"A": 1, "2": 2, "3": 3, "4": 4}


def build_doc(shape, var="buf"):
    n = sum(CLASS[c] for c in shape)
    lines = ["        let mut %s = [0u8; %d];" % (var, max(n, 1))]
    off = 0
    for c in shape:
        w = CLASS[c]
        if w == 1:
            lines.append("        { let c: u8 = kani::any(); kani::assume(c < 0x80); %s[%d] = c; }" % (var, off))
        else:
            lo = {2: 0x80, 3: 0x800, 4: 0x10000}[w]
            hi = {2: 0x7ff, 3: 0xffff, 4: 0x10ffff}[w]
            lines.append("        { let c: u32 = kani::any(); kani::assume(c >= %d && c <= %d && !(c >= 0xD800 && c <= 0xDFFF)); "
                         "let ch = char::from_u32(c).unwrap(); ch.encode_utf8(&mut %s[%d..%d]); }" % (lo, hi, var, off, off + w))
        off += w
    lines.append("        let s: &str = std::str::from_utf8(&%s[..%d]).unwrap();" % (var, n))
    return lines, n


def h_index(shape):
    lines, n = build_doc(shape)
    lines += [
        "        let line: u32 = kani::any(); let chr: u32 = kani::any();",
        "        kani::cover!(true, \"reach\");",
        "        let got = pos_to_byte_index(s, Position::new(line, chr));",
        "        let (want, exact) = __ref_index(s.as_bytes(), line, chr);",
        "        kani::cover!(got == want && want > 0 && want < s.len(), \"reach-inner\");" if len(shape) >= 2 else "",
        "        assert!(got <= s.len(), \"inrange: index <= len\");",
        "        assert!(s.is_char_boundary(got), \"boundary: index is a char boundary (else String::replace_range panics)\");",
        "        assert!(!exact || got == want, \"lsp: index equals the LSP 3.17 reference (UTF-16 columns, clamping)\");",
    ]
    name = "p2b_" + (shape or "empty")
    return Harness(name, "\n".join(l for l in lines if l), "pos_to_byte_index/[%s]" % shape, unwind=n + 3, fmt_stub=True,
                   asserts={"inrange": "index <= len for every position",
                            "boundary": "index is a char boundary for every position",
                            "lsp": "index equals the LSP reference for every position not inside a surrogate pair"},
                   covers=["reach"] + (["reach-inner"] if len(shape) >= 2 else []),
                   meta=dict(shape="document width pattern [%s] (%d bytes)" % (shape, n),
                             symbolic=["every code point of each class (A: any ASCII incl. \\n, \\r; 2/3/4: any scalar value of that UTF-8 width)",
                                       "Position.line: u32", "Position.character: u32"],
                             bounds={"document_chars": len(shape)}, cost=n))


def h_mono(shape):
    """start <= end whenever range.start <= range.end (the other precondition of replace_range)."""
    lines, n = build_doc(shape)
    lines += [
        "        let l1: u32 = kani::any(); let c1: u32 = kani::any(); let l2: u32 = kani::any(); let c2: u32 = kani::any();",
        "        kani::assume(l1 < l2 || (l1 == l2 && c1 <= c2));",
        "        kani::cover!(true, \"reach\");",
        "        let a = pos_to_byte_index(s, Position::new(l1, c1));",
        "        let b = pos_to_byte_index(s, Position::new(l2, c2));",
        "        kani::cover!(a < b, \"reach-proper\");" if n >= 1 else "",
        "        assert!(a <= b, \"mono: start index <= end index for an ordered range\");",
    ]
    name = "mono_" + (shape or "empty")
    return Harness(name, "\n".join(l for l in lines if l), "edit-range/[%s]" % shape, unwind=n + 3, fmt_stub=True,
                   asserts={"mono": "ordered LSP range gives start <= end (replace_range precondition)"},
                   covers=["reach"] + (["reach-proper"] if n >= 1 else []),
                   meta=dict(shape="document width pattern [%s]" % shape,
                             symbolic=["every code point", "range.start, range.end: 4 x u32 with start <= end"],
                             bounds={"document_chars": len(shape)}, cost=2 * n))


def h_step(shape, ins):
    """The edit step itself on a real String: replace_range(start..end, text) equals the client's edit."""
    lines, n = build_doc(shape)
    lines += [
        "        let l1: u32 = kani::any(); let c1: u32 = kani::any(); let l2: u32 = kani::any(); let c2: u32 = kani::any();",
        "        kani::assume(l1 < l2 || (l1 == l2 && c1 <= c2));",
        "        let (rs, e1) = __ref_index(s.as_bytes(), l1, c1); let (re, e2) = __ref_index(s.as_bytes(), l2, c2);",
        "        kani::assume(e1 && e2);",
        "        let mut code = String::from(s);",
    ]
    if ins:
        lines += ["        let t: u8 = kani::any(); kani::assume(t < 0x80); let tb = [t]; let text: &str = std::str::from_utf8(&tb).unwrap();"]
    else:
        lines += ["        let text: &str = \"\";"]
    lines += [
        "        kani::cover!(true, \"reach\");",
        "        let start = pos_to_byte_index(&code, Position::new(l1, c1));",
        "        let end = pos_to_byte_index(&code, Position::new(l2, c2));",
        "        code.replace_range(start..end, text);",
        "        let got = code.as_bytes(); let src = s.as_bytes(); let tx = text.as_bytes();",
        "        assert!(got.len() == rs + tx.len() + (src.len() - re), \"len: edited length is the client's\");",
        "        let mut i = 0; let mut ok = true;",
        "        while i < got.len() {",
        "            let want = if i < rs { src[i] } else if i < rs + tx.len() { tx[i - rs] } else { src[re + (i - rs - tx.len())] };",
        "            if got[i] != want { ok = false; }",
        "            i += 1;",
        "        }",
        "        assert!(ok, \"bytes: edited text equals prefix + text + suffix of the client's copy\");",
        "        std::mem::forget(code);",
    ]
    name = "step_%s_%s" % (shape or "empty", "ins" if ins else "del")
    return Harness(name, "\n".join(lines), "edit-step/[%s]/%s" % (shape, "insert1" if ins else "delete"), unwind=n + 4, fmt_stub=True,
                   asserts={"len": "length after the edit", "bytes": "content after the edit"}, covers=["reach"],
                   meta=dict(shape="document [%s], replacement text of %d ASCII char" % (shape, 1 if ins else 0),
                             symbolic=["every code point", "range: 4 x u32, ordered, not inside a surrogate pair", "inserted char"],
                             bounds={"document_chars": len(shape), "text_chars": 1 if ins else 0}, cost=4 * n + 4))


QUICK_SHAPES = ["", "A", "2", "3", "4"] + ["".join(p) for p in itertools.product("A234", repeat=2)] + \
    ["AAA", "A4A", "4AA", "AA4", "A2A", "A3A", "2A3", "44A", "A42", "3A4", "AAAA", "A4AA", "AAAAA", "AA4A3"]
QUICK_MONO = ["AA", "A4", "4A", "AAA", "A4A", "A2A"]
QUICK_STEP = []     # the whole-step harnesses (String::replace_range on a real String) need > 300 s each: thorough tier only


def shapes_for(tier, seed):
    if tier == "quick":
        rnd = random.Random(seed)
        extra = []
        pool = ["".join(p) for p in itertools.product("A234", repeat=3)] + ["".join(p) for p in itertools.product("A4", repeat=4)]
        pool = [p for p in pool if p not in QUICK_SHAPES]
        rnd.shuffle(pool)
        extra = pool[:4]
        return QUICK_SHAPES + extra, QUICK_MONO, QUICK_STEP
    idx = [""] + ["".join(p) for k in (1, 2, 3, 4) for p in itertools.product("A234", repeat=k)] + \
          ["AAAAA", "AA4A3", "A2A4A", "4A4A4", "AAAAAA", "A4A2A3"]
    mono = ["".join(p) for k in (1, 2, 3) for p in itertools.product("A24", repeat=k)]
    step = [(s, i) for s in ("A", "AA", "A4", "4A", "A2A", "AAA") for i in (True, False)]
    return idx, mono, step


def run(tier, seed, only=None):
    rep = Report("C28", tier, seed, "other",
                 "Bounded model checking (Kani/CBMC, SAT) of els::util::pos_to_byte_index, the position calculus of "
                 "FileCache::incremental_update's edit step, against an LSP 3.17 reference written in the harness: for every "
                 "document of each listed UTF-8 width pattern (all code points of each class, newlines included) and every "
                 "u32 line/character the index equals the reference, is a char boundary, and ordered ranges give start <= end; "
                 "on small shapes the whole step (two conversions + String::replace_range) is compared byte for byte with the "
                 "client's edit.  One inductive step covers histories of any length.", partial=bool(only))
    s = Scratch("c28")
    try:
        kr = KaniRun(s, "els", "crates/els", tier, workers=10, mem_gb=8, cap=300 if tier == "quick" else 1500)
        kr.extra_args = ["--lib"]
        utxt = s.read("crates/els/util.rs")
        fctxt = s.read("crates/els/file_cache.rs")
        rep.add_function("els::util::pos_to_byte_index", "crates/els/util.rs", extract_fn(utxt, "pos_to_byte_index"))
        rep.add_function("els::file_cache::FileCache::incremental_update (read, not encoded: its edit step is p2b/p2b/replace_range)",
                         "crates/els/file_cache.rs", extract_fn(fctxt, "incremental_update"))
        idx, mono, step = shapes_for(tier, seed)
        for sh in idx:
            kr.add("crates/els/util.rs", h_index(sh), REF)
        for sh in mono:
            kr.add("crates/els/util.rs", h_mono(sh), REF)
        for sh, ins in step:
            kr.add("crates/els/util.rs", h_step(sh, ins), REF)
        if only:
            for f in kr.frags.values():
                f["harnesses"] = [h for h in f["harnesses"] if only in h.name]
        kr.run()
        for h in kr.all_harnesses():
            for o in kr.obligations(h, functions=["els::util::pos_to_byte_index"]):
                rep.add(o)
        confirm_violations(rep, s, [kr])
        rep.trusted += ["Kani 0.68, CBMC 6.11, CaDiCaL", "String::replace_range / str::char_indices as compiled from std by Kani",
                        "the LSP reference in props/c28.py (__ref_index)"]
        rep.assumptions += [
            "lines are terminated by '\\n' only ('\\r' is an ordinary character of the A class; '\\r\\n'-terminated documents clamp before the '\\n', not before the '\\r')",
            "positions inside a surrogate pair: only the char-boundary requirement is asserted (the LSP leaves them unspecified)",
            "the edit step of FileCache::incremental_update is p2b(start), p2b(end), String::replace_range (read from the source; the method itself — Shared<Dict>, VFS, Lexer — is not encoded)",
            "documents longer than the listed shapes are outside the claim; std::fmt::format stubbed (no message text involved)",
        ]
        rep.extra["shapes"] = {"index": idx, "mono": mono, "step": ["%s/%s" % (a, "ins" if b else "del") for a, b in step]}
        rep.extra["kani_build_s"] = kr.build_s
        return rep.finish()
    finally:
        s.cleanup()
