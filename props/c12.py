"""C12 — optimisation never changes observable behaviour (kernel: the purity test behind dead-definition elimination).

`HIROptimizer::eliminate_unused_def` replaces an unreferenced private definition by a no-op exactly when
`SideEffectChecker::is_pure(def)` holds, i.e. when `is_impure` answers false.  "Dropping unused definitions never removes a
side effect" therefore rests on `is_impure` being a sound over-approximation: it must answer true whenever evaluating the
expression evaluates a procedure call.

Engine: `mirsem` — the rustc MIR of `is_impure` is executed on HIR expression *shapes*: the node under test is built as
aggregates in the field order read from hir.rs (Call / Args / PosArg / KwArg, BinOp, UnaryOp, List, Tuple, Set, Dict,
Record / Def / DefBody / Block, TypeAscription, Attribute, Lambda ...), containers have concrete small sizes, and the
sub-expressions are opaque leaves `e` with two solver booleans: EFF(e) ("evaluating e performs an effect") and imp(e) (what the
recursive call answers), related by the induction hypothesis EFF(e) => imp(e).  What makes a call an effect is taken from the
effect checker itself (`check_expr`): the callee's type is a procedure type or the method name is procedural; both are solver
booleans attached to the places the code asks about.  z3 decides, per shape,

        path  AND  is_impure answers false  AND  (own effect OR EFF of an eagerly evaluated child)      is unsatisfiable

— one inductive step for trees of any depth.  A counterexample names the child (or the call itself) the purity test ignores; it
is instantiated as a program (`x = <shape with that child := p!()>`), lowered by the real front end and given to the real
`is_impure`; an unlisted violation is also compiled and run at -o 0 and -o 1 and the outputs compared.  The same programs with
every combination of pure / effectful children validate the encoding on every run."""
import itertools
import os
import re
import time

import z3

import mir2smt as M
import mirsem as S
from common import (BROKEN, HELD, INCONCLUSIVE, VIOLATED, Obligation, Report, Scratch, extract_fn, log, sh)
from mirflow import DISC, Ref, Unsupported, const, fun
from native import NativeRun

ENUMS = ["Expr", "List", "Tuple", "Set", "Dict", "Accessor", "Signature"]


# ---------------------------------------------------------------------------------------------
# shapes
#   ("leaf", name)                      an opaque sub-expression (hir::Expr)
#   ("expr", Variant, payload)          hir::Expr::Variant(payload)
#   ("enum", Enum, Variant, payload)    hir::Enum::Variant(payload)
#   ("struct", Name, {field: shape})    hir::Name { .. }   (unlisted fields are opaque)
#   ("box", x) ("vec", [x..]) ("some", x) ("none",) ("opaque", name)

def leaf(n):
    return ("leaf", n)


def expr(v, payload):
    return ("expr", v, payload)


def st(name, **fields):
    return ("struct", name, fields)


def args(pos=(), var=None, kw=()):
    return st("Args", pos_args=("vec", [st("PosArg", expr=x) for x in pos]),
              var_args=("some", ("box", st("PosArg", expr=var))) if var is not None else ("none",),
              kw_args=("vec", [st("KwArg", expr=x) for x in kw]), kw_var=("none",))


def call(obj, attr, a):
    return expr("Call", st("Call", obj=("box", obj), attr_name=("some", ("opaque", "attr")) if attr else ("none",), args=a))


def block(xs):
    return st("Block", **{"0": ("vec", list(xs))})


def vardef(body):
    return st("Def", sig=("opaque", "sig"), body=st("DefBody", block=block(body)))


class Tree:
    """builds a shape into mirsem values and records, per node, the place key the code will ask about"""

    def __init__(self, flow, structs, P):
        self.flow, self.structs, self.P = flow, structs, P
        self.leaves = {}        # name -> (EFF bool, imp bool, key)
        self.n = 0

    def key(self, place, path):
        return place + "".join("_%s" % "_".join(str(x) for x in p) for p in path)

    def build(self, sp, place, path):
        """returns the value stored at (place, path)"""
        P = self.P
        k = sp[0]
        if k == "leaf":
            t = const("e_" + sp[1])
            P.pc.append(z3.And(DISC(t) >= 0, DISC(t) < 64))
            eff, imp = z3.Bool("EFF_" + sp[1]), z3.Bool("imp_" + sp[1])
            P.pc.append(z3.Implies(eff, imp))
            self.leaves[sp[1]] = (eff, imp, self.key(place, path), t)
            return t
        if k == "opaque":
            self.n += 1
            return const("op_%s_%d" % (sp[1], self.n))
        if k == "expr":
            return ("agg", "hir::Expr::" + sp[1], [self.build(sp[2], place, path + [("variant", sp[1]), ("field", 0)])])
        if k == "enum":
            return ("agg", "hir::%s::%s" % (sp[1], sp[2]), [self.build(sp[3], place, path + [("variant", sp[2]), ("field", 0)])])
        if k == "struct":
            names = self.structs.get(sp[1])
            if names is None:
                raise Unsupported("struct %s not found in hir.rs" % sp[1])
            for f in sp[2]:
                if f not in names:
                    raise Unsupported("field %s.%s not found in hir.rs" % (sp[1], f))
            vals = []
            for i, f in enumerate(names):
                if f in sp[2]:
                    vals.append(self.build(sp[2][f], place, path + [("field", i)]))
                else:
                    self.n += 1
                    vals.append(const("fld_%s_%s_%d" % (sp[1], f, self.n)))
            return ("agg", "hir::" + sp[1], vals)
        if k == "box":
            self.n += 1
            pl = "pbx%d" % self.n
            P.locals[pl] = None
            P.locals[pl] = self.build(sp[1], pl, [])
            return ("agg", "Box", [("agg", "Unique", [Ref(pl)])])
        if k == "vec":
            refs = []
            for x in sp[1]:
                self.n += 1
                pl = "pel%d" % self.n
                P.locals[pl] = self.build(x, pl, [])
                refs.append(Ref(pl))
            return ("vec", refs)
        if k == "some":
            return ("agg", "Option::Some", [self.build(sp[1], place, path + [("variant", "Some"), ("field", 0)])])
        if k == "none":
            return ("agg", "Option::None", [])
        raise ValueError(sp)


def place_key(flow, P, ref):
    """key of the place a reference finally points to (same construction as Tree.key)"""
    cur = ref
    for _ in range(10):
        v = flow.read(P, cur.local, list(cur.path))
        if isinstance(v, Ref):
            cur = v
        elif isinstance(v, tuple) and v[0] == "agg" and v[1] == "Box":
            cur = v[2][0][2][0]
        else:
            break
    return cur.local + "".join("_%s" % "_".join(str(x) for x in p) for p in cur.path)


def models(W):
    used = W["used"]

    def m(name):
        def deco(f):
            def g(flow, P, callee, args):
                used.add(name)
                return f(flow, P, callee, args)
            return g
        return deco

    def opt(x):
        return ("agg", "Option::Some", [x]) if x is not None else ("agg", "Option::None", [])

    def vec_of(flow, P, a):
        v = flow.deref_all(P, a)
        if isinstance(v, tuple) and v[0] == "agg" and v[1] in ("hir::Block", "hir::RecordAttrs", "hir::Dummy"):
            v = v[2][0]
        if not (isinstance(v, tuple) and v[0] == "vec"):
            raise Unsupported("not a shape-concrete vector: %r" % (v,))
        return v

    @m("Vec / slice / hir::Block / hir::RecordAttrs: deref, iter over a vector of known length (std contract)")
    def v_deref(flow, P, callee, args):
        return args[0]

    def s_iter(flow, P, callee, args):
        return ("iter", list(vec_of(flow, P, args[0])[1]), 0)

    @m("Option::iter / as_ref / is_some_and over a shape-concrete option (std contract; closures inlined)")
    def o_iter(flow, P, callee, args):
        o = flow.deref_all(P, args[0])
        if not (isinstance(o, tuple) and o[0] == "agg" and o[1].startswith("Option::")):
            raise Unsupported("Option::iter on %r" % (o,))
        if o[1].endswith("Some"):
            return ("iter", [flow.new_place(P, "popt", o[2][0])], 0)
        return ("iter", [], 0)

    def o_as_ref(flow, P, callee, args):
        r = args[0]
        o = flow.deref_all(P, r)
        if not (isinstance(o, tuple) and o[0] == "agg" and o[1].startswith("Option::")):
            raise Unsupported("Option::as_ref on %r" % (o,))
        if o[1].endswith("Some"):
            base = r
            for _ in range(6):
                v = flow.read(P, base.local, list(base.path))
                if isinstance(v, Ref):
                    base = v
                else:
                    break
            return opt(Ref(base.local, list(base.path) + [("variant", "Some"), ("field", 0)]))
        return opt(None)

    def closure_of(flow, callee, clo):
        mm = re.search(r"\{closure@([^}]*)\}", callee)
        if not mm:
            raise Unsupported("closure type in " + callee)
        loc = mm.group(1).strip()
        c = [f for f in flow.fns.values() if "{closure#" in f.short and f.params and loc in f.params[0][1]]
        if len({f.name for f in c}) != 1:
            raise Unsupported("closure at %s not found uniquely" % loc)
        return c[0]

    def o_is_some_and(flow, P, callee, args):
        o = args[0]
        if not (isinstance(o, tuple) and o[0] == "agg" and o[1].startswith("Option::")):
            raise Unsupported("is_some_and on %r" % (o,))
        if o[1].endswith("None"):
            return S.FALSE
        fn = closure_of(flow, callee, args[1])
        return flow.inline(P, fn, [flow.new_place(P, "pclo", args[1]) if fn.params[0][1].startswith("&") else args[1], o[2][0]])

    def apply_pred(flow, P, callee, f, elem):
        if isinstance(f, tuple) and f[0] == "fnitem":
            if not f[1].endswith("is_impure"):
                raise Unsupported("function item " + f[1])
            return rec(flow, P, f[1], [elem])
        fn = closure_of(flow, callee, f)
        first = flow.new_place(P, "pclo", f) if fn.params[0][1].startswith("&") else f
        return flow.inline(P, fn, [first, elem])

    @m("Iterator::any / all over a list of known length (std contract; the closure or function item is applied per element)")
    def it_any(flow, P, callee, args):
        r = args[0]
        it = flow.read(P, r.local, list(r.path))
        if not (isinstance(it, tuple) and it[0] == "iter"):
            raise Unsupported("any on %r" % (it,))
        res = [S.truth(flow, apply_pred(flow, P, callee, args[1], e)) for e in it[1][it[2]:]]
        isany = "::any::" in callee
        return flow.mkbool(P, (z3.Or(res) if isany else z3.And(res)) if res else z3.BoolVal(not isany))

    @m("is_impure on a sub-expression: the induction hypothesis EFF(e) => imp(e) on an opaque leaf; inlined on a known node")
    def rec(flow, P, callee, args):
        v = flow.deref_all(P, args[0])
        if isinstance(v, tuple) and v[0] == "agg" and v[1] == "Box":
            v = flow.deref_all(P, v[2][0][2][0])
        if z3.is_expr(v):
            for name, (eff, imp, key, t) in W["tree"].leaves.items():
                if t.eq(v):
                    return flow.mkbool(P, imp)
            raise Unsupported("is_impure on an unknown term %s" % v)
        if W["depth"] > 6:
            raise Unsupported("recursion depth")
        W["depth"] += 1
        try:
            a = args[0]
            if isinstance(a, tuple) and a[0] == "agg":      # a value, not a reference: give it a place
                a = flow.new_place(P, "pval", a)
            return flow.inline(P, W["main"], [a])
        finally:
            W["depth"] -= 1

    @m("HasType::ref_t / t: the type of the node at this place (an opaque type per place)")
    def ref_t(flow, P, callee, args):
        return const("ty_" + place_key(flow, P, args[0]))

    @m("Type::is_procedure: a solver boolean per asked type")
    def is_proc(flow, P, callee, args):
        t = flow.deref_all(P, args[0])
        if not z3.is_expr(t):
            raise Unsupported("is_procedure of %r" % (t,))
        return flow.mkbool(P, z3.Bool("isproc_" + str(t)))

    @m("Signature::is_subr: a solver boolean per asked place (a subroutine definition does not evaluate its body)")
    def is_subr(flow, P, callee, args):
        return flow.mkbool(P, z3.Bool("subr_" + place_key(flow, P, args[0])))

    @m("Signature / Token / Identifier ::is_procedural: a solver boolean per asked place")
    def is_procedural(flow, P, callee, args):
        return flow.mkbool(P, z3.Bool("procname_" + place_key(flow, P, args[0])))

    return [
        (r"^<Vec<hir::\w+> as Deref>::deref$|^<hir::(Block|RecordAttrs) as Deref>::deref$", v_deref),
        (r"slice::<impl \[hir::\w+\]>::iter$|^hir::(Block|RecordAttrs)::iter$|^Vec::<hir::\w+>::iter$", s_iter),
        (r"^Option::<.*>::iter$", o_iter),
        (r"^Option::<.*>::as_ref$", o_as_ref),
        (r"^Option::<.*>::is_some_and::", o_is_some_and),
        (r"as Iterator>::(any|all)::", it_any),
        (r"SideEffectChecker::<'_>::is_impure$|SideEffectChecker::is_impure$", rec),
        (r"as (ty::)?HasType>::(ref_t|t)$", ref_t),
        (r"Type::is_procedure$", is_proc),
        (r"^(hir::)?Signature::is_subr$", is_subr),
        (r"^(hir::)?Signature::is_procedural$|Token::is_procedural$|Identifier::is_procedural$|^(hir::)?Lambda::is_procedural$", is_procedural),
    ]


# ---------------------------------------------------------------------------------------------
# the reference: which children are evaluated when the node is evaluated, and the node's own effect

def eff_ref(tree, sp, place, path):
    """z3 Bool: evaluating the node built from `sp` at (place, path) performs an effect (reference semantics)"""
    k = sp[0]
    if k == "leaf":
        return tree.leaves[sp[1]][0]
    if k != "expr":
        raise ValueError(sp)
    v, pl = sp[1], sp[2]
    ppath = path + [("variant", v), ("field", 0)]

    def fld(struct, name):
        return ("field", tree.structs[struct].index(name))

    def sub(shape, where_place, where_path):
        return eff_ref(tree, shape, where_place, where_path)

    out = []
    if v == "Call":
        f = pl[2]
        obj_shape = f["obj"][1]
        # the callee's type is asked at the place the box points to; we need its key: rebuild deterministically
        out.append(z3.Bool("isproc_ty_" + tree.obj_keys[id(pl)]))
        if f["attr_name"][0] == "some":
            out.append(z3.Bool("procname_" + tree.key(place, ppath + [fld("Call", "attr_name"), ("variant", "Some"), ("field", 0)])))
        out.append(sub_expr(tree, obj_shape))
        a = f["args"][2]
        for x in a["pos_args"][1]:
            out.append(sub_expr(tree, x[2]["expr"]))
        if a["var_args"][0] == "some":
            out.append(sub_expr(tree, a["var_args"][1][1][2]["expr"]))
        for x in a["kw_args"][1]:
            out.append(sub_expr(tree, x[2]["expr"]))
    elif v in ("BinOp",):
        out += [sub_expr(tree, pl[2]["lhs"][1]), sub_expr(tree, pl[2]["rhs"][1])]
    elif v == "UnaryOp":
        out.append(sub_expr(tree, pl[2]["expr"][1]))
    elif v in ("List", "Tuple", "Set"):
        inner = pl[3]
        if pl[2] == "Normal":
            for x in inner[2]["elems"][2]["pos_args"][1]:
                out.append(sub_expr(tree, x[2]["expr"]))
        elif pl[2] == "WithLength":
            out.append(sub_expr(tree, inner[2]["elem"][1]))
            ln = inner[2]["len"]
            if ln[0] == "box":
                out.append(sub_expr(tree, ln[1]))
            elif ln[0] == "some":
                out.append(sub_expr(tree, ln[1][1]))
    elif v == "Dict":
        for kv in pl[3][2]["kvs"][1]:
            out += [sub_expr(tree, kv[2]["key"]), sub_expr(tree, kv[2]["value"])]
    elif v == "Record":
        for d in pl[2]["attrs"][2]["0"][1]:
            for ch in d[2]["body"][2]["block"][2]["0"][1]:
                out.append(sub_expr(tree, ch))
    elif v == "TypeAsc":
        out.append(sub_expr(tree, pl[2]["expr"][1]))
    elif v == "Accessor":
        if pl[2] == "Attr":
            out.append(sub_expr(tree, pl[3][2]["obj"][1]))
    elif v == "Def":
        # a variable definition evaluates its body; a subroutine definition only creates the subroutine
        notsubr = z3.Not(z3.Bool("subr_" + tree.key(place, ppath + [fld("Def", "sig")])))
        for ch in pl[2]["body"][2]["block"][2]["0"][1]:
            out.append(z3.And(notsubr, sub_expr(tree, ch)))
        # the default-parameter values of a subroutine definition are evaluated when the definition is executed; the effect checker
        # admits an effectful default only for a procedure (a function with one is rejected), so: procedure and effectful default => impure
        sk = tree.key(place, ppath + [fld("Def", "sig")])
        out.append(z3.And(z3.Bool("subr_" + sk), z3.Bool("procname_" + sk), z3.Bool("EFF_default_value")))
    elif v in ("Code", "Compound"):
        for ch in pl[2]["0"][1]:
            out.append(sub_expr(tree, ch))
    elif v in ("Lambda", "Literal"):
        pass
    else:
        raise ValueError(v)
    return z3.Or(out) if out else z3.BoolVal(False)


def sub_expr(tree, sp):
    if sp[0] == "leaf":
        return tree.leaves[sp[1]][0]
    return eff_ref(tree, sp, tree.where[id(sp)][0], tree.where[id(sp)][1])


def index_tree(tree, sp, place, path, counter):
    """mirror of Tree.build's place allocation: records where every ("expr", ..) node lives and, per Call payload, the key of its callee"""
    k = sp[0]
    if k in ("leaf", "opaque", "none"):
        if k == "opaque":
            counter[0] += 1
        return
    if k == "expr":
        tree.where[id(sp)] = (place, list(path))
        index_tree(tree, sp[2], place, path + [("variant", sp[1]), ("field", 0)], counter)
        return
    if k == "enum":
        index_tree(tree, sp[3], place, path + [("variant", sp[2]), ("field", 0)], counter)
        return
    if k == "struct":
        names = tree.structs[sp[1]]
        for i, f in enumerate(names):
            if f in sp[2]:
                child = sp[2][f]
                if sp[1] == "Call" and f == "obj":
                    counter[0] += 1
                    pl = "pbx%d" % counter[0]
                    tree.obj_keys[id(sp)] = pl
                    index_tree(tree, child[1], pl, [], counter)
                else:
                    index_tree(tree, child, place, path + [("field", i)], counter)
            else:
                counter[0] += 1
        return
    if k == "box":
        counter[0] += 1
        index_tree(tree, sp[1], "pbx%d" % counter[0], [], counter)
        return
    if k == "vec":
        for x in sp[1]:
            counter[0] += 1
            index_tree(tree, x, "pel%d" % counter[0], [], counter)
        return
    if k == "some":
        index_tree(tree, sp[1], place, path + [("variant", "Some"), ("field", 0)], counter)
        return
    raise ValueError(sp)


# ---------------------------------------------------------------------------------------------
# shapes decided, with the program that realises each (holes «name»; None = no program form)

def shapes(tier):
    L = leaf
    out = [
        ("call/args", call(("expr", "Accessor", ("enum", "Accessor", "Ident", ("opaque", "id"))), False, args(pos=[L("a")], kw=[L("k")])), "x = f(«a», y:=«k»)", "x = pp!(«a», y:=«k»)"),
        ("call/var-args", call(("expr", "Accessor", ("enum", "Accessor", "Ident", ("opaque", "id"))), False, args(pos=[L("a")], var=L("v"))), "x = h(«a», *[«v», 1])", None),
        ("call/method", call(L("o"), True, args()), "x = «o».succ()", None),
        ("binop", expr("BinOp", st("BinOp", lhs=("box", L("l")), rhs=("box", L("r")))), "x = «l» + «r»", None),
        ("unaryop", expr("UnaryOp", st("UnaryOp", expr=("box", L("e")))), "x = -«e»", None),
        ("list", expr("List", ("enum", "List", "Normal", st("NormalList", elems=args(pos=[L("a"), L("b")])))), "x = [«a», «b»]", None),
        ("list-with-length", expr("List", ("enum", "List", "WithLength", st("ListWithLength", elem=("box", L("e")), len=("some", ("box", L("n")))))), None, None),
        ("tuple", expr("Tuple", ("enum", "Tuple", "Normal", st("NormalTuple", elems=args(pos=[L("a"), L("b")])))), "x = («a», «b»)", None),
        ("set", expr("Set", ("enum", "Set", "Normal", st("NormalSet", elems=args(pos=[L("a"), L("b")])))), "x = {«a», «b»}", None),
        ("set-with-length", expr("Set", ("enum", "Set", "WithLength", st("SetWithLength", elem=("box", L("e")), len=("box", L("n"))))), None, None),
        ("dict", expr("Dict", ("enum", "Dict", "Normal", st("NormalDict", kvs=("vec", [st("KeyValue", key=L("k"), value=L("v"))])))), "x = {«k»: «v»}", None),
        ("record", expr("Record", st("Record", attrs=st("RecordAttrs", **{"0": ("vec", [vardef([L("e")])])}))), "x = {a = «e»}", None),
        ("type-ascription", expr("TypeAsc", st("TypeAscription", expr=("box", L("e")))), None, None),
        ("attribute", expr("Accessor", ("enum", "Accessor", "Attr", st("Attribute", obj=("box", L("o"))))), "x = «o».real", None),
        ("def", expr("Def", vardef([L("a"), L("b")])), "x =\n    y = «a»\n    «b»", None),
        ("procedure-definition", expr("Def", vardef([L("a")])), "x!(y := «d») =\n    y", None, {"procname_": True, "subr_": True}),
        ("compound", expr("Compound", block([L("a"), L("b")])), None, None),
        ("code", expr("Code", block([L("a")])), None, None),
        ("lambda", expr("Lambda", st("Lambda", body=block([L("a")]))), None, None),
    ]
    if tier == "thorough":
        out += [
            ("list3", expr("List", ("enum", "List", "Normal", st("NormalList", elems=args(pos=[L("a"), L("b"), L("c")])))), "x = [«a», «b», «c»]", None),
            ("nested/record-in-list", expr("List", ("enum", "List", "Normal", st("NormalList", elems=args(pos=[
                expr("Record", st("Record", attrs=st("RecordAttrs", **{"0": ("vec", [vardef([L("e")])])}))), L("b")])))), "x = [{a = «e»}, «b»]", None),
            ("nested/method-on-binop", call(expr("BinOp", st("BinOp", lhs=("box", L("l")), rhs=("box", L("r")))), True, args()), "x = («l» + «r»).succ()", None),
        ]
    return out


PRELUDE = "p!() =\n    print! \"hello\"\n    1\npp!(z, y := 1) =\n    print! \"hello\"\n    z + y\nf(z, y := 1) = z + y\nh(*ys: Nat) = ys\n"


def program(template, assign):
    """assign: {hole: True (effectful) | False (pure)}"""
    t = template
    for k, v in assign.items():
        t = t.replace("«%s»" % k, "p!()" if v else "1")
    return PRELUDE + t + "\nprint! \"done\"\n"


def run(tier, seed, only=None):
    rep = Report("C12", tier, seed, "other",
                 "Kernel-level partial claim: SideEffectChecker::is_impure, the purity test by which HIROptimizer::eliminate_unused_def decides to drop an unreferenced "
                 "definition.  Its rustc MIR is executed symbolically (engine mirsem) on HIR node shapes built in the field order read from hir.rs, with opaque "
                 "sub-expressions under the induction hypothesis 'effectful implies reported impure'; z3 decides that the test answers true whenever the node itself "
                 "is a procedure call (callee of procedure type or procedural method name, as in check_expr) or an eagerly evaluated child is effectful - one "
                 "inductive step for trees of any depth.  Counterexamples are instantiated as programs, lowered by the real front end and given to the real is_impure, "
                 "and run at -o 0 / -o 1.  The reference index (which definitions are unreferenced), the other optimisation passes and code generation are not decided.",
                 partial=bool(only))
    rep.trusted += ["rustc nightly -Zunpretty=mir as the semantics of the source", "engines/mirsem.py + engines/mirflow.py", "z3 " + z3.get_version_string()]
    s = Scratch("c12")
    try:
        esrc = s.read("crates/erg_compiler/effectcheck.rs")
        hsrc = s.read("crates/erg_compiler/hir.rs")
        osrc = s.read("crates/erg_compiler/optimize.rs")
        rep.add_function("SideEffectChecker::is_impure", "crates/erg_compiler/effectcheck.rs", extract_fn(esrc, "is_impure"))
        rep.add_function("HIROptimizer::eliminate_unused_def (read: drops a definition iff unreferenced and is_pure)", "crates/erg_compiler/optimize.rs", extract_fn(osrc, "eliminate_unused_def"))
        elim = extract_fn(osrc, "eliminate_unused_def") or ""
        structs = {}
        for mm in re.finditer(r"pub struct (\w+)\s*\{(.*?)\n\}", hsrc, re.S):
            structs[mm.group(1)] = re.findall(r"^\s*(?:pub(?:\([^)]*\))?\s+)?(\w+)\s*:", mm.group(2), re.M)
        for mm in re.finditer(r"pub struct (\w+)\(([^;{]*)\);", hsrc):
            structs[mm.group(1)] = [str(i) for i in range(len([x for x in mm.group(2).split(",") if x.strip()]))]
        vidx = {e: M.rust_enum_variants(hsrc, e) for e in ENUMS}
        vidx["Option"] = ["None", "Some"]
        if None in vidx.values() or "Call" not in structs or not re.search(r"is_pure\(expr\)", elim):
            rep.add(Obligation(key="source/shape", verdict=BROKEN, reason="hir.rs enums/structs or the `is_pure(expr)` guard of eliminate_unused_def could not be read as expected"))
            return rep.finish()
        rep.add(Obligation(dict(engine="source scan", functions=["HIROptimizer::eliminate_unused_def"]), key="link/eliminate-iff-pure", verdict=HELD, nontrivial=False,
                           reason="eliminate_unused_def replaces a definition by a no-op only under `... && SideEffectChecker::is_pure(expr)` (read from the source; decided on the MIR by eliminate/only-unreferenced-and-pure)"))
        text, dt, err, rc = M.dump_mir(s, "erg_compiler", overflow_checks=True, extra_cargo=["--lib"])
        if rc != 0 or len(text) < 1000:
            log("MIR dump failed:\n" + err[-3000:])
            rep.add(Obligation(key="mir-dump", verdict=BROKEN, reason="cargo +nightly rustc -Zunpretty=mir failed"))
            return rep.finish()
        log("  MIR dump erg_compiler: %.0fs, %d MB" % (dt, len(text) >> 20))
        fns = M.parse_mir(text, want=["::is_impure"])
        import c12_elim
        eviol = c12_elim.stage(rep, s, text, only)
        del text
        mains = [f for f in fns.values() if f.short == "is_impure"]
        if len(mains) != 1:
            rep.add(Obligation(key="mir/functions", verdict=BROKEN, reason="is_impure not found uniquely in the MIR dump (%d)" % len(mains)))
            return rep.finish()
        solver = z3.Solver()
        solver.set("timeout", 60000)
        nq = [0]

        def check(conds):
            solver.push()
            solver.add(*conds)
            r = solver.check()
            mdl = solver.model() if r == z3.sat else None
            solver.pop()
            nq[0] += 1
            return str(r), mdl

        used = set()
        runs = {}
        to_replay = []

        def execute(sp):
            W = {"used": used, "main": mains[0], "depth": 0}
            flow = S.SemFlow(fns, mains[0], models(W), vidx)
            P0 = S.Path()
            P0.pc = list(S.BASE_AXIOMS)
            tree = Tree(flow, structs, P0)
            tree.where, tree.obj_keys = {}, {}
            W["tree"] = tree
            P0.locals["p_X"] = tree.build(sp, "p_X", [])
            index_tree(tree, sp, "p_X", [], [0])
            pre = dict(P0.locals)
            pre["_1"] = Ref("p_X")
            outs = flow.run("bb0", stop_at=(), pre=pre, pc=P0.pc)
            return flow, tree, P0, [(Q, Q.locals.get("_0")) for Q, end in outs if end == "return"]

        for shp in shapes(tier):
            key, sp, tmpl, tmpl_proc = shp[:4]
            flagpins = shp[4] if len(shp) > 4 else {}
            okey = "covers/" + key
            if only and not any(o in okey for o in only.split(",")):
                continue
            ob = Obligation(dict(engine="mirsem (MIR -> z3 %s)" % z3.get_version_string(), solver="z3", functions=["SideEffectChecker::is_impure"], shape=key,
                                 symbolic=["per opaque sub-expression: EFF (performs an effect) and imp (what is_impure answers), with EFF => imp",
                                           "procedure-ness of every type / name the code asks about"], bounds={"containers": "1-2 elements (thorough 3)"}), key=okey)
            t0 = time.time()
            try:
                flow, tree, P0, paths = execute(sp)
                ref = eff_ref(tree, sp, "p_X", [])
                npaths, verdict, reason, cex = 0, HELD, "", None
                for Q, rv in paths:
                    if rv is None:
                        raise Unsupported("path without a return value")
                    if check(Q.pc)[0] != "sat":
                        continue
                    npaths += 1
                    r1, mdl = check(Q.pc + [z3.Not(S.truth(flow, rv)), ref])
                    if r1 == "sat" and cex is None:
                        ev = lambda e: z3.is_true(mdl.eval(e, model_completion=True))
                        effs = {n: ev(e) for n, (e, i, k, t) in tree.leaves.items()}
                        own = [str(d) for d in z3.z3util.get_vars(ref) if str(d).startswith(("isproc_", "procname_")) and ev(d)]
                        cex = (effs, own)
                        verdict = VIOLATED
                    elif r1 not in ("sat", "unsat") and verdict == HELD:
                        verdict, reason = INCONCLUSIVE, "solver " + r1
                runs[key] = (flow, tree, paths, sp, tmpl, flagpins)
                ob["queries"] = flow.queries + 2 * npaths
                ob["detail"] = {"paths": npaths}
                if npaths == 0:
                    verdict, reason = BROKEN, "no feasible path (vacuous encoding)"
                if verdict == HELD:
                    reason = "on all %d paths: is_impure answers true whenever the node is itself a procedure call or one of its eagerly evaluated children is effectful" % npaths
                elif verdict == VIOLATED:
                    effs, own = cex
                    missed = sorted(n for n, v in effs.items() if v)
                    ob["model"] = {"effectful children": missed, "own effect": own}
                    what = ("the call itself (%s)" % ", ".join(own)) if own and not missed else "the child `%s`" % (missed[0] if missed else "?")
                    reason = "is_impure answers false for a %s node although %s is effectful: an unreferenced definition with this initialiser is dropped together with the effect" % (key, what)
                    to_replay.append((ob, key, effs, own, tmpl, tmpl_proc))
                ob.update(verdict=verdict, reason=reason, solver_s=round(time.time() - t0, 2))
            except Unsupported as e:
                ob.update(verdict=INCONCLUSIVE, reason="unsupported-construct: " + str(e)[:200], solver_s=round(time.time() - t0, 2))
            rep.add(ob)
        log("  symbolic stage: %d obligations, %d z3 queries" % (len(rep.obls), nq[0]))

        # ---- native stage: the same shapes as programs, every pure/effectful assignment of the holes
        helpers = r"""
    fn imp(src: &str) -> String {
        let src = src.to_string();
        erg_common::spawn::exec_new_thread(move || {
            let mut b = crate::HIRBuilder::new(ErgConfig::default());
            match b.build(src, "exec") {
                Ok(art) => {
                    for chunk in art.object.module.iter() {
                        if let Expr::Def(def) = chunk {
                            if &def.sig.ident().inspect()[..] == "x" || &def.sig.ident().inspect()[..] == "x!" {
                                return format!("{}", SideEffectChecker::is_impure(chunk));
                            }
                        }
                    }
                    "no-x".to_string()
                }
                Err(_) => "build-error".to_string(),
            }
        }, "imp")
    }
"""
        nr = NativeRun(s, "erg_compiler", "crates/erg_compiler/effectcheck.rs", helpers=helpers)
        rs = lambda p: '"%s"' % p.replace("\\", "\\\\").replace('"', '\\"').replace("\n", "\\n")
        tv = []
        for key, (flow, tree, paths, sp, tmpl, flagpins) in sorted(runs.items()):
            if not tmpl:
                continue
            holes = sorted(set(re.findall(r"«(\w+)»", tmpl)))
            for bits in itertools.product([False, True], repeat=len(holes)):
                tv.append((key, dict(zip(holes, bits)), tmpl))
        for i, (key, assign, tmpl) in enumerate(tv):
            nr.add("t.%d" % i, "imp(%s)" % rs(program(tmpl, assign)))
        nr.add("base.call", "imp(%s)" % rs(program("x = «e»", {"e": True})))
        nr.add("base.lit", "imp(%s)" % rs(program("x = «e»", {"e": False})))
        rp = []
        for i, (ob, key, effs, own, tmpl, tmpl_proc) in enumerate(to_replay):
            t = tmpl_proc if (own and not any(effs.values()) and tmpl_proc) else tmpl
            if t is None:
                rp.append(None)
                continue
            holes = sorted(set(re.findall(r"«(\w+)»", t)))
            assign = {h: bool(effs.get(h)) for h in holes}
            prog = program(t, assign)
            rp.append((prog, assign, t is tmpl_proc))
            nr.add("r.%d" % i, "imp(%s)" % rs(prog))
        res, dtn = nr.run()
        log("  native stage: %d cases, %.0fs" % (len(nr.cases), dtn))
        if res is None:
            rep.add(Obligation(key="translation/validated", verdict=BROKEN, reason="the native validation binary did not build or run"))
            return rep.finish()
        # translation validation.  The programs are `x = <shape>` with the holes filled by `p!()` (a procedure call) or `1`; what the real
        # is_impure answers on those two fillers is measured natively (`x = p!()`, `x = 1`) and pinned as imp(leaf); the shape's own
        # procedure-ness flags are false (the templates call the function `f` / the method `succ`).  The Def wrapper adds nothing
        # (sig not procedural), which is itself one of the decided shapes.
        imp_call, imp_lit = res.get("base.call"), res.get("base.lit")
        tbad, tn = [], 0
        if imp_call not in ("true", "false") or imp_lit not in ("true", "false"):
            tbad.append("the base programs did not build (x = p!(): %s, x = 1: %s)" % (imp_call, imp_lit))
        for i, (key, assign, tmpl) in enumerate(tv):
            got = res.get("t.%d" % i)
            if got not in ("true", "false") or tbad:
                continue
            flow, tree, paths, sp, _, flagpins = runs[key]
            pins = [imp == ((imp_call if assign[n] else imp_lit) == "true") for n, (eff, imp, k, t) in tree.leaves.items() if n in assign]
            outs = set()
            for Q, rv in paths:
                tr = S.truth(flow, rv)
                own_false = [d == next((v for pfx, v in flagpins.items() if str(d).startswith(pfx)), False)
                             for d in z3.z3util.get_vars(z3.And(Q.pc + [tr])) if str(d).startswith(("isproc_", "procname_", "subr_"))]
                if check(Q.pc + pins + own_false + [tr])[0] == "sat":
                    outs.add("true")
                if check(Q.pc + pins + own_false + [z3.Not(tr)])[0] == "sat":
                    outs.add("false")
            tn += 1
            rep.replayed += 1
            if got not in outs:
                tbad.append("%s %s: real %s, encoding %s" % (key, assign, got, sorted(outs)))
        rep.add(Obligation(dict(engine="mirsem vs native", functions=["SideEffectChecker::is_impure"]), key="translation/validated", nontrivial=False,
                           verdict=BROKEN if tbad else HELD,
                           reason=("the encoding disagrees with the real function: " + " | ".join(tbad[:4])) if tbad else
                           "the symbolic execution predicts the real is_impure on %d programs (each shape with every pure/effectful assignment of its children, lowered by the real front end)" % tn))
        for i, (ob, key, effs, own, tmpl, tmpl_proc) in enumerate(to_replay):
            if rp[i] is None:
                ob["verdict"] = INCONCLUSIVE
                ob["reason"] = "no program form for this shape: the counterexample could not be replayed (%s)" % ob["reason"]
                continue
            got = res.get("r.%d" % i)
            rep.replayed += 1
            ob["native_replay"] = {"program": rp[i][0], "is_impure(Def x)": got}
            if got != "false":
                ob["verdict"] = BROKEN
                ob["reason"] = "counterexample did not reproduce natively (%s): %s" % (got, ob["reason"])
        confirmed = [(t, rp[i]) for i, t in enumerate(to_replay) if t[0]["verdict"] == VIOLATED]
        if (confirmed or eviol) and (tier == "thorough" or eviol or any(not rep.known.lookup(rep.prop, t[0]["key"]) for t, _ in confirmed)):
            e2e(s, rep, confirmed, eviol)
        rep.assumptions += sorted(used) + [
            "what counts as an effect is taken from check_expr: a call whose callee has a procedure type or whose method name is procedural",
            "eagerly evaluated children: callee, receiver and arguments of a call; operands; elements, keys and values of literals; the initialisers of record fields; "
            "the ascribed expression; the receiver of an attribute access; the chunks of a variable definition's body and of a block; the bodies of lambdas and of subroutine definitions are not evaluated "
            "(default-parameter values of a subroutine definition, which are, are outside the decided shapes)",
            "ClassDef / PatchDef / ReDef / Import nodes are outside (not produced as initialisers of plain variable definitions in the decided fragment)",
        ]
        rep.extra["z3_queries"] = nq[0]
        return rep.finish()
    finally:
        s.cleanup()



def e2e(s, rep, confirmed, eviol=()):
    t0 = time.time()
    tdir = os.path.join(s.root, "native")
    rc, out, dt = sh(["cargo", "build", "--offline", "--bin", "erg"], cwd=s.src, env=s.env(CARGO_TARGET_DIR=tdir), timeout=2400)
    exe = os.path.join(tdir, "debug", "erg")
    if rc != 0 or not os.path.exists(exe):
        log("  e2e: building erg failed (rc=%s)" % rc)
        for ob in eviol:
            ob["verdict"] = INCONCLUSIVE
            ob["reason"] = "no end-to-end replay available (erg did not build): " + ob["reason"]
        return
    if eviol:
        import c12_elim
        c12_elim.e2e(s, exe, eviol)
    for n, ((ob, key, effs, own, tmpl, tmpl_proc), (prog, assign, _)) in enumerate(confirmed[:8]):
        f = os.path.join(s.root, "e2e_%d.er" % n)
        open(f, "w").write(prog)
        outs = []
        for lvl in ("0", "1"):
            rc1, o1, _ = sh([exe, "-o", lvl, "run", f], env=s.env(), timeout=120)
            outs.append([l for l in re.sub(r"\x1b\[[0-9;]*m", "", o1).split("\n") if l.strip() in ("hello", "done")])
        ob["end_to_end"] = {"program": prog, "stdout at -o 0": outs[0], "stdout at -o 1": outs[1], "differs": outs[0] != outs[1]}
        log("  e2e %s: -o 0 %s / -o 1 %s" % (ob["key"], outs[0], outs[1]))
    log("  e2e stage: %.0fs" % (time.time() - t0))
