#!/usr/bin/env python3
"""Regenerates /verif/MANIFEST.json from the table below and validates it against the schema."""
import json
import os
import sys

VERIF = os.path.dirname(os.path.dirname(os.path.abspath(__file__)))

KANI = "bounded model checking of the compiled Rust (Kani 0.68 -> CBMC 6.11 -> CaDiCaL SAT) through a cfg(kani) source overlay"
MIR = "symbolic execution of rustc MIR (regenerated per run) into SMT; z3 decides, cvc5 cross-checks"
PY = "symbolic execution of the Python runtime sources (ast -> z3)"

CLAIMED = {
    "C16": dict(
        engine="kani",
        technique="Kani/CBMC bounded model checking (SAT) of the opcode/magic tables and jump arithmetic, symbolic byte/u32/idx/arg, oracle generated from the installed CPython interpreters",
        category="other",
        text="For every byte (all 256), every u32 magic word and every (idx,arg) < 2^16 the SAT solver shows that the compiled "
             "tables agree with dis.opmap / hasjrel / hasjabs / MAGIC_NUMBER of the installed CPython 3.7-3.12; per-name opcode "
             "numbers are compile-time constants checked in the same harnesses. Bounded only by the stated idx/arg range.",
        note="Trusts the installed interpreters as the oracle, Kani/CBMC/CaDiCaL, and the table-per-version choice made in codegen.rs "
             "(308 for 3.7/3.8, 309, 310, 311). Names present only in erg's tables are listed, not failed.",
        design="3/C16"),
    "C04": dict(
        engine="mir2smt",
        technique="symbolic execution of the rustc MIR of ValueObj::try_* / Neg / eval_bin / eval_unary_val into SMT (bit-vectors + IEEE-754), "
                  "z3 decides panic freedom and agreement with Python per (operator, operand-variant pair); counterexamples are replayed "
                  "against the real build (cargo test) with CPython's own arithmetic as the oracle; the encoding is validated on concrete vectors",
        category="other",
        text="For every i32 / u64 / f64 bit pattern / bool payload of both operands, per operator and per pair of operand variants "
             "(Int, Nat, Float, Bool), z3 shows that the compiled constant-folding kernel reaches no panic and that every value it "
             "returns equals Python's result (exact integer semantics incl. floor division and modulo, bit-exact binary64, exact "
             "int/float comparison), and that eval_bin / try_binary dispatch to the operator they name; where the full-domain "
             "obligation is a listed known finding, restricted-domain obligations (Nat < 2^31, non-negative operands) are decided "
             "separately so the arm stays guarded. The link from a folded value to the type checker's use of it is not decided.",
        note="Trusts rustc's MIR dump (dev profile, overflow checks on) as the semantics of the source, engines/mir2smt.py (validated on "
             "each run against the native build on seeded concrete vectors), z3, and the Python reference written in props/c04.py. "
             "float // % ** have no exact reference (panic freedom only); int/int true division reference is bounded to |operands| <= 2^53; "
             "try_pow exponents 0..3 and -1; Str/List/Dict/Type operands are outside.",
        design="3/C04"),
}

CLAIMED.update({
    "C28": dict(
        engine="kani",
        technique="Kani/CBMC bounded model checking (SAT) of els::util::pos_to_byte_index per UTF-8 width pattern of the document: every code point "
                  "of each class (newlines included), every u32 line/character symbolic; LSP 3.17 reference written in the harness; one inductive step covers any edit history",
        category="other",
        text="For every document of each listed width pattern (quick: all patterns of up to 2 characters plus selected ones up to 5; thorough: all patterns "
             "of up to 4 characters) and every LSP position, the SAT solver shows that the byte index the server uses equals the LSP 3.17 reference (UTF-16 "
             "columns, past-the-end column = end of line, past-the-end line = end of text), is a char boundary, and that ordered ranges give start <= end - "
             "the preconditions under which String::replace_range performs exactly the client's edit; the whole step (two conversions + replace_range on a real "
             "String) is compared byte for byte with the client's edit on small shapes in the thorough tier. Because the server copy is a function of "
             "(previous copy, change), one step for every state covers histories of any length.",
        note="Trusts Kani/CBMC/CaDiCaL, std's str::char_indices and String::replace_range as compiled, and the LSP reference in props/c28.py. "
             "FileCache::incremental_update itself (Shared<Dict>, VFS, Lexer, version check, the loop over content_changes) is read, not encoded: a change "
             "to how it calls pos_to_byte_index/replace_range is outside the check. Lines end at '\\n' only.",
        design="3/C28"),
    "C25": dict(
        engine="kani",
        technique="Kani/CBMC bounded model checking of src/dummy.rs Message/MessageStream over a stream that splits reads and writes (symbolic chunk size per "
                  "call or concrete patterns), symbolic payload bytes per concrete payload length, symbolic payload length for the 16-bit size field; CrossHair (z3) on "
                  "MessageStream cut from src/scripts/repl_server.py over a socket returning arbitrary prefixes",
        category="other",
        text="Framing only: for the listed payload lengths (0..3 quick, ..7 thorough), every instruction byte, every payload byte and every split of the byte "
             "stream within the stated patterns, send_msg writes inst + 2-byte big-endian length + payload, recv_msg returns exactly the message sent and leaves "
             "the stream at the frame boundary (two and three frames back to back included), a truncated frame is an error; the header size field is compared with "
             "the payload length for every length up to 2^17 (the >65535 case is a listed known finding). The Python server side is decided by CrossHair per shape. "
             "DummyVM::eval end to end (processes, TCP, compilation, CodeObj::into_script) is not decided.",
        note="Trusts Kani/CBMC, std::io::{Read::read_exact, Write::write_all} as compiled, CrossHair+z3. Python harness: ASCII payloads, the first 4 (quick) / 6 "
             "(thorough) socket calls take a symbolic chunk size, later calls transfer everything. Payload bytes beyond the listed lengths only through the size-field obligation.",
        design="3/C25"),
    "C11": dict(
        engine="kani",
        technique="Kani/CBMC bounded model checking of TokenKind::precedence / is_right_associative / category over two symbolic token kinds (all pairs of the enum), "
                  "oracle = the operator classes of the property statement",
        category="other",
        text="Kernel-level partial claim: for every pair of token kinds the SAT solver shows that the precedence table orders the operator classes exactly as the "
             "property lists them, that operators of one class share one precedence, that `prev.precedence() >= op.precedence()` (the comparison the operator stack uses) "
             "holds exactly when prev's class is not looser (left grouping), that no operator of the table is right-associative, and that every BinOp-category kind is in "
             "the table. The operator-stack reduction (parse.rs), prefix-operator operands and the lexer's prefix/infix classification by spacing are not decided.",
        note="Trusts Kani/CBMC and the class list in props/c11.py (transcribed from the property statement). SubOp (never produced by the lexer) is exempt and listed.",
        design="3/C11"),
    "C26": dict(
        engine="py2smt",
        technique="symbolic execution of the real lib/core/_erg_{int,nat,float,bool}.py (ast -> z3, Python data-model dispatch) per operator and operand-class pair, "
                  "operand values symbolic (unbounded ints, all binary64); z3 decides value / class / Nat-invariant obligations; counterexamples replayed with the real modules; "
                  "the interpreter is validated against the real modules on concrete vectors on every run",
        category="other",
        text="For every operator (+ - * // / % ** comparisons, unary, abs) and every pair of operand classes among Nat, Int, Float, Bool, their mutable cells and plain "
             "Python values on the left, and for the listed methods (succ, pred, saturating_sub, inc, dec, update with an arbitrary callback result, copy), z3 shows for "
             "all operand values that the wrapper returns the value the builtin operation returns on the underlying values (an exception where the builtin returns a value "
             "counts as a disagreement), a result of the numeric kind its Erg declaration promises (non-negative where Nat is promised), and that no Nat or Nat! holds a "
             "negative value afterwards. Str, List, Dict, Set, Range wrappers are outside.",
        note="Trusts engines/py2smt.py (validated per run against python3.11 on concrete vectors: class, exception and value), z3, and the declared-result table in props/pyrt.py "
             "(derived from classes.rs; the lines it was read from are re-checked on every run). int->float conversion, int true division, float // % and float->int truncation "
             "are uninterpreted functions with sign/finiteness lemmas, shared by implementation and reference; int operands bounded to 2^53 where floats are involved; float ** and "
             "negative integer exponents are outside. 'Instance of the declared class' is read as: the declared wrapper class or the builtin it wraps (see DESIGN).",
        design="3/C26"),
    "C02": dict(
        engine="py2smt",
        technique="symbolic execution of the real lib/core wrappers (ast -> z3): for every operator and operand-class pair the type checker accepts, z3 decides that no "
                  "TypeError/AttributeError/NameError/ValueError/OverflowError can escape for any operand values; counterexamples replayed with the real modules",
        category="other",
        text="Kernel-level partial claim on the one anchored mechanism that is encodable, the runtime numeric wrappers: for every operator and every pair of numeric operand "
             "classes that type-checks (mutable cells and plain Python values included; `%` and `**` on a mutable cell excluded because the checker rejects them), for all "
             "operand values, an exception escapes only where the builtin operation on the same values raises the same one (ZeroDivisionError). The type checker, user "
             "functions, method calls on other classes, Str/List operations are not decided.",
        note="Same trusted base as C26 (shared engine run, different assertion). Which operand pairs type-check was established with the built compiler and is recorded in props/pyrt.py.",
        design="3/C02"),
})

CLAIMED.update({
    "C06": dict(
        engine="mir2smt+mirsem",
        technique="symbolic execution of the rustc MIR of Context::subtype_of / supertype_of / cheap_supertype_of (+ Type::eq, is_mono_value_class) into SMT; "
                  "the discriminants of two or three Type operands are solver variables over all fieldless variants; z3 decides the preorder/tower laws; the encoding "
                  "is validated against the real function on all concrete pairs and counterexamples are replayed natively",
        category="other",
        text="Kernel-level partial claim on the monomorphic fragment (the 21 fieldless variants of enum Type except the error placeholders): z3 shows for all pairs and "
             "triples that the public subtype_of/supertype_of are decided by the fast table alone, and that the judgement is reflexive, transitive, antisymmetric, has Never "
             "below and Obj above every type (strictly), and orders Bool <: Nat <: Int <: Ratio <: Float <: Complex with none of the converses and nothing else below a tower "
             "class. Stage 2 (engine mirsem on Context::structural_supertype_of): for unions and intersections of two (thorough: three) arbitrary member types z3 shows that every Or / And "
             "combination rule is sound given sound answers on the members (one inductive step for nested unions / intersections) and that (T or U) :> T, (T or U) :> U, T :> (T and U), "
             "U :> (T and U), commutativity and reflexivity of both are answered true when members are only assumed reflexive. Singleton/enum types below their class, refinements, Not, "
             "polymorphic and nominal judgement are not decided.",
        note="Trusts rustc's MIR dump as the semantics of the source, engines/mir2smt.py (validated per run: the encoded judgement equals the real cheap_supertype_of on all 441 "
             "concrete pairs, cargo test on the scratch copy), z3. Type::addr_eq is a free boolean that can be true only for equal discriminants; self: &Context is opaque.",
        design="3/C06"),
})

CLAIMED.update({
    "C01": dict(
        engine="mir2smt",
        technique="symbolic execution of the rustc MIR of the constant-pool slot-reuse predicate (read from emit_load_const / register_const) over two ValueObj operands "
                  "with symbolic scalar variant and payload; z3 decides that constants sharing a co_consts slot are the same Python constant; counterexamples replayed natively",
        category="other",
        text="Kernel-level partial claim on the one part of the statement that has a bounded kernel (\"every literal value ... including naturals of 2**31 and above and signed "
             "zeros\"): for every pair of scalar constants (Int, Nat, Float, Bool, None; every i32, u64, f64 bit pattern) the predicate by which the code generator reuses a "
             "constant-pool slot holds only for the same Python constant (0.0 vs -0.0, Int(-1) vs Nat(2**64-1), cross-kind pairs). The bytes written for each constant are decided "
             "under C15. Operator/call/control-flow emission, desugaring, linking and the prelude - i.e. almost all of 'the bytecode computes what the source means' - are not decided.",
        note="Trusts rustc's MIR dump, engines/mir2smt.py, z3; the two-line pool logic around the predicate is read from the source, not encoded.",
        design="3/C01"),
})

CLAIMED.update({
    "C15": dict(
        engine="kani",
        technique="Kani/CBMC bounded model checking of the marshal writer (ValueObj::into_bytes scalar arms over their whole machine domain; str_into_bytes per UTF-8 width "
                  "pattern; strs_into_bytes, raw_string_into_bytes) against a reference model of CPython's unmarshaller written in the harness, of the .pyc magic header, and of the "
                  "reader's primitives for totality on every buffer up to a stated length; plus a source-level link that every type code the writer emits has an arm in the reader",
        category="other",
        text="Writer: for every i32, u64 (2**31 and above as TYPE_LONG), f64 bit pattern (signed zero, infinities, NaN payloads), bool and None, and for every string of each "
             "listed UTF-8 width pattern, the SAT solver shows that the bytes are a well-formed marshal object that CPython's r_object (reference model in the harness) reads back "
             "as the same value, that ASCII-only type codes are used only for ASCII strings, and that length fields are byte lengths. Reader: deserialize_u32 and deserialize_bytes "
             "return Ok/Err without panicking for every buffer of up to 7 (quick) / 9 (thorough) bytes and consume exactly what they return; every 16-bit magic word is either a "
             "known 3.x version or reported unknown. Deserializer::deserialize_const, CodeObj::from_bytes/from_pyc as wholes, name tuples in the quick tier, nested code "
             "objects and whole-program files are not decided (Result<ValueObj, _> is out of CBMC's reach: > 400 s of symex for a 5-byte buffer).",
        note="Trusts Kani/CBMC, the marshal reference in props/c15.py (i l g T F N z Z u s), and three stubs: std::fmt::format, str::is_ascii (byte loop of the same meaning), the "
             "reader's error constructors (message text). The reader-accepts/<code> obligations are a source scan, not a solver verdict, and say so in the evidence.",
        design="3/C15"),
})

CLAIMED.update({
    "C14": dict(
        engine="mir2smt+mirsem",
        technique="symbolic execution of the rustc MIR of PyCodeGenerator::push_lnotab and the stack counters (stack_inc, stack_dec, stack_inc_n, stack_dec_n) with a heap-lite "
                  "model (lazy structs, Vec<u8> of concrete length with symbolic bytes) on an arbitrary current unit; z3 decides the decoded line table and the counter invariant for one "
                  "step from any valid state; counterexamples are replayed natively on a real PyCodeGenerator",
        category="other",
        text="Kernel-level partial claim: (1) line table - for every prev_lineno, prev_lasti <= lasti, statement line and every existing table of 0 or 2 (thorough: 4) bytes, with "
             "address delta <= 600 and line delta <= 400, the bytes push_lnotab appends decode under CPython's <= 3.9 rule (u8 address increments, signed line increments) to exactly "
             "(lasti - prev_lasti, line - prev_lineno), the table stays a sequence of pairs, earlier entries are untouched, prev_lineno/prev_lasti end at (line, lasti), nothing panics; "
             "(2) declared stack size - from any state with stacksize >= stack_len, after any of the four counter operations stack_len is exact, stacksize = max(old, stack_len) and "
             "never falls below stack_len, and an impossible decrement aborts instead of wrapping; one step from an arbitrary state covers emission histories of any length for these "
             "counters; (3) cell slots (engine mirsem) - for every code buffer of 1 or 2 (thorough 3) instruction pairs with arbitrary bytes and every pair of slots below 256, the pass that "
             "patches already emitted code when an inner function captures a local (rewrite_captured_fast, targets before 3.11) turns exactly the LOAD_FAST / STORE_FAST of that variable's "
             "co_varnames slot into LOAD_DEREF / STORE_DEREF of its co_cellvars slot and changes nothing else, and changes nothing when the variable is not captured. "
             "That each emit_* function calls the counters in a way that dominates the interpreter's stack effect, jump targets, constant/name/local index ranges, the "
             "3.10+/3.11 line tables, exception tables, EXTENDED_ARG slots and the other sites that edit co_lnotab (block exit) are not decided.",
        note="Trusts rustc's MIR dump, engines/mir2smt.py with its heap-lite models (PyCodeGenStack::last/last_mut return the current unit, Expr::ln_begin is an arbitrary Option<u32>, "
             "crash() aborts, diagnostics construction opaque), z3. Magnitudes: stacksize and n below 2^31.",
        design="3/C14"),
})

CLAIMED.update({
    "C31": dict(
        engine="mir2smt",
        technique="symbolic execution of the rustc MIR of erg_common::cheap_canonicalize_path over paths given as sequences of components with symbolic kinds; std::path is the "
                  "environment, modelled by its documented contract and validated natively on every explored path; oracle = lexical resolution; counterexamples replayed natively",
        category="other",
        text="For every path of up to 4 (thorough: 6) components - each component's kind (root, `.`, `..`, name) a solver variable, subject to what std::path::Components can yield - "
             "the function that NormalizedPathBuf::new rests on returns exactly the lexically resolved path: `.` and resolvable `..` are removed, `..` at the root stays at the root, "
             "and a `..` with nothing to cancel is kept. Since that normal form is a fixed point of the same function and distinct files have distinct normal forms, normalisation is "
             "idempotent, equal normal forms name the same file, and leading `..` components of relative paths are never discarded. normalize_path (verbatim-prefix stripping, "
             "case folding on case-insensitive platforms), symbolic links and longer paths are outside.",
        note="Trusts rustc's MIR dump, engines/mir2smt.py, z3 and the std::path contract model in props/c31.py; the model is checked on every run: every explored path is executed by the real "
             "function (cargo test on the scratch copy) and must give the string the model predicts. A first attempt to decide the compiled code with Kani did not finish (DESIGN 0b).",
        design="3/C31"),
})

NOT_APPLICABLE = {}


CLAIMED.update({
    "C03": dict(
        engine="mirsem",
        technique="symbolic execution of the rustc MIR of Context::is_super_pred_of (the predicate-implication judgement behind refinement subtyping) on operand shapes with "
                  "unbounded symbolic integer bounds and symbolic atom kinds; closures, TyParamOrdering predicates and recursive calls are inlined from the same MIR dump, or the "
                  "recursive calls are replaced by the induction hypothesis on opaque sub-predicates (one inductive step); z3 decides 'answer true implies set inclusion at an arbitrary "
                  "integer'; counterexamples are rebuilt as Predicate values and replayed on the real function (and through erg check / erg run); callee contracts and the encoding are validated natively",
        category="other",
        text="Kernel-level partial claim: for every pair of refinement predicates over one integer variable built from I == n, I >= n, I <= n, I != n (every integer n), True/False, "
             "and And/Or of those up to depth 2 (thorough: depth 3 and mixed nestings), z3 shows that whenever is_super_pred_of(Q, P) answers true every integer satisfying P satisfies Q; "
             "in mode `rule` the sub-predicates are arbitrary (opaque) predicates and the combination rules (And/And, Or/Or, x/And, x/Or, And/x, Or/x) are shown sound given soundness on "
             "the parts, i.e. one inductive step for trees of any depth. How structural_supertype_of reaches the judgement, bounds that are not integer literals (type variables: try_cmp "
             "answers Any), Float bounds, and the Call/Attr/General* arms are not decided; nothing is claimed about completeness (rejecting a valid inclusion is not a violation).",
        note="Trusts rustc's MIR dump, engines/mirsem.py + mirflow.py, z3, and contract models for Context::try_cmp / supertype_of_tp / TyParam equality / has_*_bound on integer literals, "
             "Context::reduce_preds (a subset with the same intersection/union; every subset explored), Predicate::ands/ors, erg_common Set::iter/get_by and std Option/Iterator adaptors; the "
             "scalar contracts are validated natively on 36 literal pairs per run and the whole encoding on ~300 concrete predicate pairs against the real function (cargo test on the scratch copy).",
        design="0b/C03 and C32"),
})


CLAIMED.update({
    "C32": dict(
        engine="mirsem",
        technique="symbolic execution of the rustc MIR of Predicate::and / or / invert and the derived constructors gt / lt / ge / le / eq / ne on operand shapes with unbounded symbolic "
                  "integer bounds, symbolic atom kinds and symbolic truth values; the predicate each path builds is read back structurally and z3 decides that it denotes the intersection / "
                  "union / complement of the operands' sets at an arbitrary integer; recursive uses are inlined from the same MIR dump or replaced by their specification on opaque "
                  "sub-predicates (one inductive step); counterexamples are replayed on the real functions and the encoding is validated natively on every run",
        category="other",
        text="For every pair (and / or) and every single operand (invert) of refinement predicates over one integer variable built from I == n, I >= n, I <= n, I != n (every integer n), "
             "True/False, And, Or and Not of those up to depth 2 (thorough: depth 3 and mixed nestings), z3 shows that the predicate the combinator returns is satisfied by exactly the "
             "integers in the intersection / union / complement of the operands' sets, on every path of the compiled function (simplification arms such as `True and p`, `(l and r) and l`, "
             "`I == n or I >= n`, set insertion and union included); gt / lt / ge / le / eq / ne denote the comparison they name. In mode `rule` the sub-predicates are arbitrary "
             "(opaque) and the recursive `*r & other` is replaced by its specification, i.e. one inductive step for trees of any depth. Predicates over non-literal bounds, Float bounds, "
             "Call / Attr / General* predicates and two different subject variables are outside.",
        note="Trusts rustc's MIR dump, engines/mirsem.py + mirflow.py, z3, the denotation written in props/c03.py (Value(Bool), the four comparison atoms, And, Or as the disjunction of "
             "its elements, Not), and contract models for Box::new / as_ref / drop, Clone, erg_common Set::{new, insert, union}, Str equality of subjects (always equal) and TyParam "
             "equality on integer literals; the whole encoding is validated per run against the real functions on ~250 concrete operand tuples over the integers -4..4.",
        design="0b/C03 and C32"),
})


CLAIMED.update({
    "C22": dict(
        engine="mirsem",
        technique="symbolic execution of the rustc MIR of SideEffectChecker::in_context_effects_allowed on block stacks of concrete length whose entries are solver variables over the block "
                  "kinds; Vec / slice / iterator accessors are contract models over the shape-concrete stack; z3 decides agreement with the reference walk (instant blocks inherit the "
                  "context of the innermost enclosing subroutine, constant definition or module); counterexamples are replayed on a real SideEffectChecker and as generated Erg "
                  "programs through the built compiler; the encoding is validated against the real function on concrete stacks",
        category="other",
        text="Kernel-level partial claim: for every nesting of blocks up to depth 5 (thorough 7) - Module at the bottom, then any sequence of functions, procedures, constant functions, "
             "constant definitions and instant blocks (variable definitions, records) - the predicate that decides whether check_expr reports a side effect answers 'forbidden' exactly "
             "when the innermost enclosing block that is not an instant block is a function or a constant context, and 'allowed' exactly when it is a procedure or the module. That is "
             "the part of 'a function cannot perform side effects, the same body in a procedure or at top level can' that does not depend on what counts as an effect. Which expressions "
             "check_expr treats as effects (mutable references, `is` comparisons), how it pushes and pops the stack while walking the HIR, and lambdas' own kinds are read, not decided. "
             "Stage 2 (visits/<shape>): on HIR node shapes (calls with positional / variadic / keyword arguments, method calls, operators, collection literals, type ascriptions, "
             "attribute accesses) check_expr passes every eagerly evaluated child to check_expr on every path, and a call with a procedural callee or method name pushes an effect error "
             "whenever the context predicate answers 'forbidden' - by induction the traversal reaches every procedure call of an expression tree of those node kinds. "
             "Stage 2b: a read of a variable is reported exactly when effects are forbidden, the variable is no parameter, has a mutable type, is not reached through a reference and "
             "was defined in a namespace other than full_path(). Stage 3 (block-kind/table): check_def pushes, for every combination of (procedural name, subroutine, constant), the block kind the property's reading gives "
             "(procedure -> Proc, function -> Func / ConstFunc, any non-subroutine definition -> an instant block, also when its name ends in `!`).",
        note="Trusts rustc's MIR dump, engines/mirsem.py + mirflow.py, z3, the std contract models listed in the evidence, and the invariant that only SideEffectChecker::check pushes Module "
             "(once, first). The encoding is validated per run against the real function on all stacks of depth <= 3 and a sample of deeper ones (cargo test on the scratch copy).",
        design="0b/C22"),
})


CLAIMED.update({
    "C23": dict(
        engine="mirsem",
        technique="symbolic execution of the rustc MIR of OwnershipChecker::check_if_dropped on scope chains of concrete depth; per scope, whether the name under test is alive or was moved "
                  "there is a solver variable; Range / Vec::len / Dict::get / Set::contains are contract models, nth_outer_scope(n) is the n-th scope of the chain (validated natively); z3 "
                  "decides agreement with the reference lookup; counterexamples are replayed on a real OwnershipChecker and as programs through the built compiler",
        category="other",
        text="Kernel-level partial claim: for every chain of enclosing scopes up to depth 3 (thorough 4) and every combination of 'the name is alive here / was moved here / is unknown here' "
             "per scope, the lookup that decides whether a use is reported as a use after move answers Err exactly when the innermost scope that knows the name has it moved: a moved "
             "variable is rejected from its own and from every inner scope, and a live variable that shadows a moved outer one is not rejected. Stage 2 (binding/<shape>): in the call "
             "arm of the ownership checker every positional argument of a function or method call (with self, variadic and default parameters) and every keyword argument is walked with "
             "the ownership of the parameter it binds to, so that an argument given for a parameter of mutable type is the one that is moved. Which types count as mutable "
             "(args_ownership), generic parameters, containers, the trailing expression of a block and the drop() side of the bookkeeping are read, not decided.",
        note="Trusts rustc's MIR dump, engines/mirsem.py + mirflow.py, z3, the std contract models listed in the evidence and the invariant that a name is not both alive and moved in one "
             "scope. The encoding (including the nth_outer_scope contract) is validated per run against the real function on all 3 + 9 + 27 (+ 81) scope chains (cargo test on the scratch copy).",
        design="0b/C23"),
})


CLAIMED.update({
    "C12": dict(
        engine="mirsem",
        technique="symbolic execution of the rustc MIR of SideEffectChecker::is_impure (the purity test that licenses HIROptimizer::eliminate_unused_def) on HIR node shapes built in the "
                  "field order read from hir.rs, with opaque sub-expressions under the induction hypothesis 'effectful implies reported impure'; procedure-ness of callee types and method "
                  "names are solver booleans; z3 decides that the test answers true whenever the node is itself a procedure call or an eagerly evaluated child is effectful; "
                  "counterexamples are instantiated as programs, lowered by the real front end, given to the real is_impure and run at -o 0 / -o 1; the same programs validate the encoding",
        category="other",
        text="Kernel-level partial claim on 'dropping unused definitions never removes a side effect': for every kind of initialiser node in the decided fragment (calls with positional, "
             "variadic and keyword arguments, method calls, binary and unary operators, list / tuple / set / dict literals incl. the with-length forms, records, type ascriptions, "
             "attribute accesses, nested variable definitions, blocks, lambdas) and arbitrary sub-expressions, the purity test reports the node impure whenever evaluating it evaluates "
             "a procedure call - the call itself (callee of procedure type or procedural method name, the criterion of check_expr) or any eagerly evaluated child; by induction this "
             "covers expression trees of any depth. Stage 2: on the MIR of eliminate_unused_def, every path that overwrites a definition with a no-op implies that it has no referrers, that the "
             "purity test called it pure, and that it is neither public, a glob nor `_`. The reference index itself (which uses count as referrers), the other "
             "passes (discarded variables), code generation at each level, and ClassDef / PatchDef / ReDef / Import initialisers are not decided.",
        note="Trusts rustc's MIR dump, engines/mirsem.py + mirflow.py, z3, the list of eagerly evaluated children per node kind written in props/c12.py (stated in the evidence), and std "
             "contract models for Vec / slice / Option / iterator adaptors. The encoding is validated per run: ~40 programs (each shape with every pure/effectful assignment of its "
             "children) are lowered by the real front end and the real is_impure must answer what the symbolic execution predicts (cargo test on the scratch copy).",
        design="0b/C12"),
})


CLAIMED.update({
    "C13": dict(
        engine="mirsem+mirflow",
        technique="symbolic execution of the rustc MIR of PyCodeGenerator::emit_binop_instr_307 / _309 / _311 with the operator token as a solver variable over enum TokenKind; the "
                  "(opcode, oparg) written on each path is compared with an oracle generated at check time from the installed CPython 3.7-3.11 interpreters (dis.opmap, dis.cmp_op, "
                  "dis._nb_ops); counterexamples and the encoding are replayed on a real PyCodeGenerator per target version",
        category="other",
        text="Kernel-level partial claim: for each supported target version 3.7 - 3.11 and each binary operator the generator compiles to an instruction (+ - * / // ** % and or ^, the "
             "six comparisons, is / is not), the instruction written for that target is the opcode whose name denotes the operator in that version's interpreter, with the oparg that "
             "interpreter assigns to the operator (index in dis.cmp_op; for 3.11 index in dis._nb_ops; IS_OP 0 / 1 from 3.9 on); the dispatch of emit_binop_instr by target minor "
             "version is read from the source. Stage 2 (engine mirflow, dataflow by congruence): CodeObj::exec hands cfg.py_command to python_util::exec_pyc_code, which forwards it "
             "as exec_pyc's py_command, i.e. `erg run` starts the interpreter selected by --py-command. All other version-specific emission (calls, closures, with-blocks, jumps, "
             "exception tables, line tables), that the bytecode loads, and the behaviour of whole programs under each interpreter are not decided.",
        note="Trusts rustc's MIR dump, engines/mirsem.py + mirflow.py, z3, the installed interpreters as the oracle, and the opcode / BinOpCode numbers read from erg_common's "
             "sources as named constants (that those numbers are the interpreters' is C16). Validated per run: for all 100 (version, operator) pairs the bytes a real "
             "PyCodeGenerator appends are the ones the encoding predicts. `in` / `notin` never reach these tables (desugared to Erg's contains operator).",
        design="0b/C13"),
})


CLAIMED.update({
    "C18": dict(
        engine="mirsem+kani",
        technique="symbolic execution of the rustc MIR of JsonGenerator::transpile_expr (which writer receives a literal's value / a bound value / a folded constant), of the writer's "
                  "Str arm, and of the string kernel it calls: the input string is k arbitrary Unicode scalar values (z3 integers), String building and str::chars are modelled, each "
                  "path's output is a sequence of code-point terms that a reference RFC 8259 decoder parses with z3 entailment queries; Kani/CBMC on the writer for None / Bool; "
                  "counterexamples replayed on the real function (cargo test) and with `erg transpile --target json` + python json",
        category="other",
        text="Kernel-level partial claim on the JSON target: (1) the text written for a literal, for a name bound to a constant and for a folded constant expression is the value-to-JSON "
             "writer applied to that value (not the token's source text, not ValueObj's Display); (2) the writer writes None as null and booleans as true / false (all values, Kani); "
             "(3) for a Str value it calls one string kernel, and for every string of k characters (k <= 2 quick, <= 4 thorough; every Unicode scalar value for each character) the "
             "kernel's text is exactly one RFC 8259 string literal that decodes to the same string; (4) the list / tuple / record / dict arms of transpile_expr, transpile_def and "
             "transpile, on containers of n <= 2 (thorough 3) opaque elements whose texts are JSON values by the induction hypothesis, write the JSON array / object of those texts in "
             "order, each name or key with its own value (every binding public); (5) the writer itself does the same for list / tuple / dict / record *values* (names bound to "
             "containers; string-keyed dicts), helper functions introduced by refactorings being executed, not assumed; (6) Int / Nat / finite Float values are written by std's rendering "
             "of the machine number, not by ValueObj's Display (contract sampled natively: the text reads back as the same number). Escaping of record keys (identifiers), longer "
             "strings, non-finite floats and the front end are not decided.",
        note="Trusts rustc's MIR dump, engines/mirsem.py + mirflow.py, z3, Kani/CBMC, the RFC 8259 decoder in props/c18_str.py and structure parser in props/c18_struct.py, that std's Display / Debug of a finite machine number is a JSON number denoting it (sampled per run), and the models of String::push / push_str / "
             "with_capacity, str::chars / len, Chars::next, Vec::into_iter / enumerate / next, slice::iter, Dict::iter, Iterator::map / collect / any, [String]::join, str::bytes, String += / pop and format! with `{}` placeholders (template bytes read from the MIR constant) (the UTF-8 encoding inside std is not modelled: strings are sequences of code points). Validated per run: on 20 fixed "
             "strings the real kernel's output equals the encoding's output byte for byte. The kernel handles one character at a time and keeps no state but the output buffer, which "
             "is why k <= 3 is taken as representative; longer strings are outside the claim.",
        design="0b/C18"),
})


CLAIMED.update({
    "C17": dict(
        engine="mirsem",
        technique="symbolic execution of the rustc MIR of PyScriptGenerator::transpile_lit (which function writes a string literal, applied to what) and of that string kernel: "
                  "the input string is k arbitrary Unicode scalar values (z3 integers), String building, str::chars and str::replace are modelled, each path's output is a sequence of "
                  "code-point terms that a reference decoder of Python's string-literal syntax parses with z3 entailment queries; counterexamples are replayed on the real kernel "
                  "(cargo test, read back with python's ast.literal_eval) and as programs (`erg run` vs `erg transpile` + python3)",
        category="other",
        text="Kernel-level partial claim on 'transpiled Python behaves like the compiled bytecode': the text written for a string literal of the program is <class>(K(x)) for one "
             "function K applied to the literal's value (or the token's content), and for every string of k characters (k <= 2 quick, <= 4 thorough; every Unicode scalar value for "
             "each character) K's text is exactly one double-quoted Python string literal that denotes the same string (quotes, backslashes, newlines, NUL, the octal-escape "
             "digit-swallowing rule, \\x / \\u escapes); a natural-number literal is written as <class>(std's rendering of its value), not its source spelling (`007`). Everything else of the transpiler - statements, names and mangling, calls, classes, records, the runtime prelude - and whole-"
             "program behaviour under the interpreter are not decided.",
        note="Trusts rustc's MIR dump, engines/mirsem.py + mirflow.py, z3, the reference decoder of Python's literal syntax in props/c17.py (every counterexample is confirmed by "
             "CPython's own ast.literal_eval before it is reported), and the models of String::push / push_str / with_capacity / len, str::chars, Chars::next, str::replace::<char> "
             "(a symbolic character forks the path) and format! placeholders. Validated per run: on 22 fixed strings the real kernel's output equals the encoding's byte for byte. "
             "Multi-line literals, string interpolation (desugared before this point) and strings longer than k are outside.",
        design="0b/C17"),
})


CLAIMED.update({
    "C08": dict(
        engine="mirsem",
        technique="symbolic execution of the rustc MIR of Lexer::lex_single_str with consume / peek_cur_ch / emit_singleline_token(_spanning) / is_bidi inlined from the same dump, on a "
                  "concrete-shaped Lexer whose source is a quote + k arbitrary Unicode scalar values (z3 integers) + end of input; panics are `unwrap` on None / Err; on Ok paths the "
                  "column bookkeeping is compared with the number of source characters consumed; counterexamples are replayed on the real lexer (cargo test, catch_unwind)",
        category="other",
        text="Kernel-level partial claim on 'the lexer is total and reports faithful token positions': for single-line string literals (the scanner entered after the opening quote; "
             "k <= 3 characters quick, <= 5 thorough, every Unicode scalar value for each, then the end of the input) (a) no path panics - in particular not when the input ends "
             "inside an escape sequence - and (b) whenever a token is returned it starts at the opening quote's column and the lexer's column afterwards has advanced by exactly the "
             "number of source characters consumed, whatever escape sequences the literal contains; (c) multi-line literals (entered after the three opening quotes) and the continuation of an interpolated literal (lex_interpolation_mid, inside a single-line or a "
             "multi-line literal) do not panic either. All other token kinds, the columns and lines of multi-line and interpolated literals, indentation, comments and the token iterator are not decided.",
        note="Trusts rustc's MIR dump, engines/mirsem.py + mirflow.py, z3 and the std contract models listed in the evidence (Vec / slice / Option / Result / Range / String, "
             "is_ascii_hexdigit, from_str_radix on two checked hex digits, CacheSet::get returning the same text, Token::new as a record of its arguments). Error constructors are "
             "uninterpreted. The literal is on the first line at column 0 with SingleLine on the interpolation stack.",
        design="0b/C08"),
})


def load_na():
    p = os.path.join(VERIF, "data", "not_applicable.json")
    return json.load(open(p))


def main():
    na = load_na()
    checks = []
    for pid in sorted(CLAIMED):
        c = CLAIMED[pid]
        checks.append({
            "property_id": pid,
            "quick_cmd": "./check %s --tier quick" % pid,
            "thorough_cmd": "./check %s --tier thorough" % pid,
            "evidence_file": "evidence/%s.json" % pid,
            "replay_cmd_template": "./check %s --replay {path}" % pid,
            "engine": c["engine"],
            "technique": c["technique"],
            "level_claimed": {"category": c["category"], "text": c["text"], "design_ref": "DESIGN.md §" + c["design"]},
            "level_note": c["note"],
        })
    props = [json.loads(l)["id"] for l in open(os.path.join(VERIF, "properties.jsonl")) if l.strip()]
    nalist = []
    for pid in props:
        if pid in CLAIMED:
            continue
        if pid not in na:
            print("missing not_applicable reason for", pid)
            sys.exit(1)
        nalist.append({"property_id": pid, "reason": na[pid]})
    m = {
        "version": 1,
        "setup_cmd": "./setup.sh",
        "hooks": {
            "guard": "cfg(kani)",
            "enable": "no hook commits: checks copy /repo's working tree to a scratch directory and append `#[cfg(kani)] mod __verif { use super::*; .. }` "
                      "to the copied source files (cargo-kani is the only thing that sets cfg(kani)); MIR is dumped from the same copy with the nightly toolchain",
            "baseline_off_cmd": "cd /repo && cargo nextest run --workspace --no-fail-fast --test-threads 8 --offline || cargo test --workspace --no-fail-fast --offline",
            "source_commits": [],
            "add_only": True,
        },
        "engines": [
            {"name": "kani", "path": "engines/kani.py", "serves_properties": sorted(p for p, c in CLAIMED.items() if "kani" in c["engine"]),
             "kind_free_text": KANI},
            {"name": "mir2smt", "path": "engines/mir2smt.py", "serves_properties": sorted(p for p, c in CLAIMED.items() if "mir2smt" in c["engine"]),
             "kind_free_text": MIR},
            {"name": "py2smt", "path": "engines/py2smt.py", "serves_properties": sorted(p for p, c in CLAIMED.items() if "py2smt" in c["engine"]),
             "kind_free_text": PY},
            {"name": "mirsem", "path": "engines/mirsem.py", "serves_properties": sorted(p for p, c in CLAIMED.items() if "mirsem" in c["engine"]),
             "kind_free_text": "symbolic execution of one rustc-MIR function with z3 over shape-concrete operands (engines/mirflow.py underneath): unmodelled calls are uninterpreted "
                               "functions decided by congruence, closures and small callees are inlined from the same MIR dump, other callees get contract models stated in the evidence; "
                               "switchInt arms are pruned by incremental feasibility queries; counterexamples are replayed natively before they are reported"},
            {"name": "native", "path": "engines/native.py", "serves_properties": sorted(p for p, c in CLAIMED.items() if "mir2smt" in c["engine"] or "mirsem" in c["engine"]),
             "kind_free_text": "replay of solver counterexamples and translation-validation vectors against the real crate (cargo test on the scratch copy)"},
        ],
        "checks": checks,
        "not_applicable": nalist,
        "notes": "All checks rebuild from /repo's working tree in a scratch copy under $VERIF_SCRATCH (default /var/tmp), removed afterwards. "
                 "Exit 0 held / 1 VIOLATION / 2 machinery error. Known findings: known_findings.jsonl (role-keyed).",
    }
    out = os.path.join(VERIF, "MANIFEST.json")
    with open(out, "w") as f:
        json.dump(m, f, indent=1)
    try:
        import jsonschema
        jsonschema.validate(m, json.load(open("/root/.vp/MANIFEST.schema.json")))
        print("MANIFEST.json valid;", len(checks), "checks,", len(nalist), "not applicable")
    except ImportError:
        print("written (jsonschema unavailable)")


if __name__ == "__main__":
    main()
