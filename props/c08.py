"""C08 — the lexer is total and reports faithful token positions: the string-literal kernel (kernel-level partial claim).

`Lexer::lex_single_str` (the scanner of a single-line string literal, entered after the opening quote) is executed on its
rustc MIR (engine mirsem with the String model of props/c18_str.py); `consume`, `peek_cur_ch`, `emit_singleline_token` and
`is_bidi` are *executed* too (inlined from the same MIR dump).  The lexer state is a concrete-shaped `Lexer` value: the source is
a quote followed by k characters, each an arbitrary Unicode scalar value (a z3 integer), and then the end of the input;
`cursor`, `col_token_starts` are concrete integers, the interpolation stack holds `SingleLine`.

 * `lex_single_str/total/k`: no feasible path reaches a panic (`Option::unwrap` on `None`, `Result::unwrap` on `Err`).
 * `lex_single_str/position/k`: on every feasible path that returns `Ok(token)`, the token starts at the column of the
   opening quote and the lexer's column afterwards has advanced by exactly the number of source characters consumed
   (`cursor` difference, plus the opening quote) — whatever escape sequences the literal contains.

Counterexamples are concrete sources; they are replayed on the real lexer (`Lexer::from_str(..).lex()` under catch_unwind in a
cargo test): a panic, or a following token whose reported column is not its index in the line, confirms."""
import json
import re
import time

import z3

import mir2smt as M
import mirsem as S
from common import (BROKEN, HELD, INCONCLUSIVE, VIOLATED, Obligation, Report, Scratch, extract_fn, log)
from mirflow import Ref, Unsupported, const
from native import NativeRun
from c18_str import HEXV, StrFlow, fmt_models, rust_str_lit

COL0 = 3          # the opening quote stands at column 3 (after `a =`) of the first line


def models(vidx_interp):
    def wr(flow, P, r, val):
        if not isinstance(r, Ref):
            raise Unsupported("receiver is not a local reference")
        flow.write(P, r.local, list(r.path), val)

    def items_of(flow, P, x):
        v = flow.deref_all(P, x)
        if isinstance(v, tuple) and v and v[0] == "strlit":
            return [z3.IntVal(ord(c)) for c in v[1]]
        if isinstance(v, tuple) and v and v[0] == "strbuf":
            return list(v[1])
        if flow.is_num(v):
            return [flow.num(v)]
        raise Unsupported("not a string value: %r" % (v,))

    def to_string(flow, P, callee, args):
        return ("strbuf", items_of(flow, P, args[0]))

    def s_new(flow, P, callee, args):
        return ("strbuf", [])

    def s_push(flow, P, callee, args):
        buf = flow.deref_all(P, args[0])
        if not (isinstance(buf, tuple) and buf[0] == "strbuf") or not flow.is_num(args[1]):
            raise Unsupported("String::push on %r" % (buf,))
        wr(flow, P, args[0], ("strbuf", buf[1] + [flow.num(args[1])]))
        return const("unit")

    def s_push_str(flow, P, callee, args):
        buf = flow.deref_all(P, args[0])
        if not (isinstance(buf, tuple) and buf[0] == "strbuf"):
            raise Unsupported("String::push_str on %r" % (buf,))
        wr(flow, P, args[0], ("strbuf", buf[1] + items_of(flow, P, args[1])))
        return const("unit")

    def deref(flow, P, callee, args):
        return flow.deref_all(P, args[0])

    def helper(flow, P, callee, args):
        short = re.sub(r"::<.*$", "", callee).rsplit("::", 1)[-1]
        owner = "Quote" if callee.startswith("Quote::") else "Lexer"
        c = [f for f in flow.fns.values() if f.short == short and len(f.params) == len(args) and owner in (f.params[0][1] if f.params else "") or (f.short == short and short == "is_bidi")]
        if len({f.name for f in c}) != 1:
            raise Unsupported("Lexer::%s not found uniquely in the MIR dump" % short)
        return flow.inline(P, c[0], args)

    def slice_get(flow, P, callee, args):
        v = flow.deref_all(P, args[0])
        if not (isinstance(v, tuple) and v and v[0] == "vec") or not flow.is_int(args[1]):
            raise Unsupported("slice::get(%r, %r)" % (v, args[1]))
        i = args[1][1]
        if 0 <= i < len(v[1]):
            return ("agg", "Option::Some", [v[1][i]])
        return ("agg", "Option::None", [])

    def slice_last(flow, P, callee, args):
        v = flow.deref_all(P, args[0])
        if not (isinstance(v, tuple) and v and v[0] == "vec"):
            raise Unsupported("slice::last(%r)" % (v,))
        return ("agg", "Option::Some", [v[1][-1]]) if v[1] else ("agg", "Option::None", [])

    def copied(flow, P, callee, args):
        return args[0]

    def unwrap(flow, P, callee, args):
        v = flow.deref_all(P, args[0])
        if isinstance(v, tuple) and v and v[0] == "agg":
            last = v[1].split("::")[-1]
            if last in ("Some", "Ok"):
                return v[2][0]
            if last in ("None", "Err"):
                P.calls.append(("PANIC:" + callee, [], None))
                return ("stop",)
        raise Unsupported("unwrap of %r" % (v,))

    def v_len(flow, P, callee, args):
        v = flow.deref_all(P, args[0])
        if isinstance(v, tuple) and v and v[0] == "vec":
            return ("int", len(v[1]))
        raise Unsupported("Vec::len(%r)" % (v,))

    def v_push(flow, P, callee, args):
        v = flow.deref_all(P, args[0])
        if not (isinstance(v, tuple) and v and v[0] == "vec"):
            raise Unsupported("Vec::push(%r)" % (v,))
        wr(flow, P, args[0], ("vec", list(v[1]) + [args[1]]))
        return const("unit")

    def v_pop(flow, P, callee, args):
        v = flow.deref_all(P, args[0])
        if not (isinstance(v, tuple) and v and v[0] == "vec"):
            raise Unsupported("Vec::pop(%r)" % (v,))
        if not v[1]:
            return ("agg", "Option::None", [])
        wr(flow, P, args[0], ("vec", list(v[1][:-1])))
        return ("agg", "Option::Some", [v[1][-1]])

    def is_hex(flow, P, callee, args):
        c = flow.deref_all(P, args[0])
        if not flow.is_num(c):
            raise Unsupported("is_ascii_hexdigit(%r)" % (c,))
        return flow.mkbool(P, HEXV(flow.num(c)) >= 0)

    def from_str_radix(flow, P, callee, args):
        it = items_of(flow, P, args[0])
        if not flow.is_int(args[1]) or args[1][1] != 16 or not it:
            return ("agg", "Result::Err", [const("parse_int_error")])
        v = z3.IntVal(0)
        for x in it:
            v = 16 * v + HEXV(x)
        # every digit was checked with is_ascii_hexdigit on this path; if not, the path condition allows HEXV = -1 and the value is meaningless - guard
        P.pc.append(z3.And([HEXV(x) >= 0 for x in it]))
        return ("agg", "Result::Ok", [("sint", z3.simplify(v))])

    def from_u32(flow, P, callee, args):
        if not flow.is_num(args[0]):
            raise Unsupported("char::from_u32(%r)" % (args[0],))
        x = flow.num(args[0])
        P.pc.append(z3.And(x >= 0, x <= 0xFF))         # two hex digits
        return ("agg", "Option::Some", [args[0]])

    def range_next(flow, P, callee, args):
        r = flow.deref_all(P, args[0])
        if not (isinstance(r, tuple) and r and r[0] == "agg" and len(r[2]) == 2 and flow.is_int(r[2][0]) and flow.is_int(r[2][1])):
            raise Unsupported("Range::next(%r)" % (r,))
        a, b = r[2][0][1], r[2][1][1]
        if a >= b:
            return ("agg", "Option::None", [])
        wr(flow, P, args[0], ("agg", r[1], [("int", a + 1), ("int", b)]))
        return ("agg", "Option::Some", [("int", a)])

    def ident(flow, P, callee, args):
        return args[0]

    def cache_get(flow, P, callee, args):
        return ("strbuf", items_of(flow, P, args[-1]))

    def chars_count(flow, P, callee, args):
        v = flow.deref_all(P, args[0])
        if isinstance(v, tuple) and v and v[0] == "strbuf":
            return ("int", len(v[1]))
        raise Unsupported("chars().count() of %r" % (v,))

    def closure_of(flow, callee):
        mm = re.search(r"\{closure@([^}]*)\}", callee)
        if not mm:
            raise Unsupported("closure type in " + callee)
        loc = mm.group(1).strip()
        cf = [f for f in flow.fns.values() if "{closure#" in f.short and f.params and loc in f.params[0][1]]
        if len({f.name for f in cf}) != 1:
            raise Unsupported("closure at %s not found uniquely" % loc)
        return cf[0]

    def index_range(flow, P, callee, args):
        v = flow.deref_all(P, args[0])
        r = flow.deref_all(P, args[1])
        if not (isinstance(v, tuple) and v and v[0] == "vec") or not (isinstance(r, tuple) and r and r[0] == "agg" and len(r[2]) == 2 and all(flow.is_int(x) for x in r[2])):
            raise Unsupported("index(%r, %r)" % (v, r))
        a, b = r[2][0][1], r[2][1][1]
        if a > b or b > len(v[1]):
            P.calls.append(("PANIC:" + callee + " (range end out of bounds)", [], None))
            return ("stop",)
        return ("vec", list(v[1][a:b]))

    def slice_iter(flow, P, callee, args):
        v = flow.deref_all(P, args[0])
        if not (isinstance(v, tuple) and v and v[0] == "vec"):
            raise Unsupported("slice::iter(%r)" % (v,))
        return ("sliceiter", list(v[1]))

    def it_position(flow, P, callee, args):
        it = flow.deref_all(P, args[0])
        if not (isinstance(it, tuple) and it and it[0] == "sliceiter"):
            raise Unsupported("position on %r" % (it,))
        cf = closure_of(flow, callee)
        ts = []
        for x in it[1]:
            r = flow.inline(P, cf, [args[1], x])
            if isinstance(r, tuple) and r and r[0] == "fork":
                raise Unsupported("closure with structured result")
            ts.append(S.truth(flow, r))
        alts = []
        for i in range(len(ts)):
            alts.append(([z3.Not(t) for t in ts[:i]] + [ts[i]], ("agg", "Option::Some", [("int", i)]), {}))
        alts.append(([z3.Not(t) for t in ts], ("agg", "Option::None", []), {}))
        return ("fork", alts)

    def it_fold(flow, P, callee, args):
        it = flow.deref_all(P, args[0])
        if not (isinstance(it, tuple) and it and it[0] == "sliceiter"):
            raise Unsupported("fold on %r" % (it,))
        cf = closure_of(flow, callee)
        acc = args[1]
        for x in it[1]:
            acc = flow.inline(P, cf, [args[2], acc, x])
            if isinstance(acc, tuple) and acc and acc[0] == "fork":
                raise Unsupported("fold closure returns on several paths")
        return acc

    def to_digit(flow, P, callee, args):
        c = flow.deref_all(P, args[0])
        if not flow.is_num(c) or not flow.is_int(args[1]) or args[1][1] != 16:
            raise Unsupported("char::to_digit(%r, %r)" % (c, args[1]))
        h = HEXV(flow.num(c))
        can_some, can_none = flow.feasible(P.pc + [h >= 0]), flow.feasible(P.pc + [h < 0])
        if can_some and not can_none:
            return ("agg", "Option::Some", [("sint", h)])
        if can_none and not can_some:
            return ("agg", "Option::None", [])
        return ("fork", [([h >= 0], ("agg", "Option::Some", [("sint", h)]), {}), ([h < 0], ("agg", "Option::None", []), {})])

    def opt_is(flow, P, callee, args):
        o = flow.deref_all(P, args[0])
        if not (isinstance(o, tuple) and o and o[0] == "agg"):
            raise Unsupported("is_none / is_some of %r" % (o,))
        none = o[1].endswith("None")
        return S.TRUE if none == callee.endswith("is_none") else S.FALSE

    def lines_count(flow, P, callee, args):
        n = z3.Int("nlines_%d" % flow.ctr.next())
        P.pc.append(n >= 0)
        return ("sint", n)

    def token_new(flow, P, callee, args):
        return ("agg", "Token", [flow.deref_all(P, a) if isinstance(a, Ref) else a for a in args])

    return [(r"<str as ToString>::to_string$", to_string), (r"^String::new$", s_new), (r"^String::push$", s_push), (r"^String::push_str$", s_push_str),
            (r"<String as Deref>::deref$|<Vec<.*> as Deref>::deref$|<erg_common::Str as Deref>::deref$|<Str as Deref>::deref$", deref),
            (r"^Lexer::(?!\w*_error$|invalid_unicode_character$|lex_)\w+$|^Quote::\w+$", helper),      # every other method of the lexer is executed, not assumed
            (r"slice::<impl \[.*\]>::get::<usize>$", slice_get), (r"slice::<impl \[.*\]>::last$", slice_last),
            (r"^Option::<&.*>::copied$|^Option::<&.*>::cloned$", copied), (r"^Option::<.*>::unwrap$|^Result::<.*>::unwrap$", unwrap),
            (r"^Vec::<.*>::len$", v_len), (r"^Vec::<.*>::push$", v_push), (r"^Vec::<.*>::pop$", v_pop),
            (r"<impl char>::is_ascii_hexdigit$", is_hex), (r"<impl u32>::from_str_radix$", from_str_radix), (r"<impl char>::from_u32$", from_u32),
            (r"<std::ops::Range<i32> as IntoIterator>::into_iter$", ident), (r"<std::ops::Range<i32> as Iterator>::next$", range_next),
            (r"<Vec<.*> as Index<std::ops::Range<usize>>>::index$", index_range), (r"slice::<impl \[.*\]>::iter$", slice_iter),
            (r"<std::slice::Iter<'_, .*> as Iterator>::position::<", it_position), (r"<std::slice::Iter<'_, .*> as Iterator>::fold::<", it_fold),
            (r"<impl char>::to_digit$", to_digit),
            (r"^Option::<.*>::is_none$|^Option::<.*>::is_some$", opt_is), (r"str::<impl str>::lines$", deref), (r"<Lines<'_> as Iterator>::count$", lines_count),
            (r"CacheSet::<str>::get", cache_get), (r"str::<impl str>::chars$", deref), (r"<Chars<'_> as Iterator>::count$", chars_count),
            (r"^Token::new(?:_fake)?(?:::<.*>)?$", token_new), (r"<Token as Clone>::clone$", ident)] + fmt_models(items_of)


def run(tier, seed, only=None):
    rep = Report("C08", tier, seed, "other",
                 "Kernel-level partial claim on the lexer: Lexer::lex_single_str (single-line string literals), with consume / peek_cur_ch / emit_singleline_token / "
                 "is_bidi executed as well, on sources `\"` + k arbitrary characters + end of input: (a) no path panics, (b) on every path that returns a token, the token "
                 "starts at the opening quote's line and column and the lexer's column afterwards has advanced by the number of source characters consumed; (c) "
                 "Lexer::lex_multi_line_str (after three quotes) and Lexer::lex_interpolation_mid (after the closing brace of an interpolation inside a single-line or a "
                 "multi-line literal) + k characters + end of input do not panic either.  All other token kinds, the positions of multi-line and interpolated strings, "
                 "indentation, comments and the token iterator around these functions are not decided.", partial=bool(only))
    rep.trusted += ["rustc nightly -Zunpretty=mir as the semantics of the source", "engines/mirsem.py + engines/mirflow.py", "z3 " + z3.get_version_string()]
    s = Scratch("c08")
    try:
        t0 = time.time()
        lsrc = s.read("crates/erg_parser/lex.rs")
        for fn in ("lex_single_str", "consume", "peek_cur_ch", "emit_singleline_token", "is_bidi"):
            rep.add_function("Lexer::" + fn, "crates/erg_parser/lex.rs", extract_fn(lsrc, fn))
        st = re.search(r"pub struct Lexer\s[^{]*\{(.*?)\n\}", lsrc, re.S)
        fields = re.findall(r"^\s*(?:pub(?:\([^)]*\))?\s+)?(\w+)\s*:", st.group(1), re.M) if st else []
        interp = M.rust_enum_variants(lsrc, "Interpolation")
        kmax = 3 if tier == "quick" else 5
        base = dict(engine="mirsem (MIR -> z3 %s)" % z3.get_version_string(), solver="z3", functions=["Lexer::lex_single_str", "Lexer::consume", "Lexer::emit_singleline_token"])
        obs = {}
        for k in range(kmax + 1):
            for what in ("total", "position"):
                obs[(what, k)] = Obligation(dict(base, shape="`\"` + %d character(s) + end of input" % k, symbolic=["each character: any Unicode scalar value"], bounds={"chars": k}),
                                            key="lex_single_str/%s/k=%d" % (what, k))
                rep.add(obs[(what, k)])
        need = ["chars", "cursor", "col_token_starts", "interpol_stack", "lineno_token_starts"]
        if any(f not in fields for f in need) or not interp or "SingleLine" not in interp:
            for ob in obs.values():
                ob.update(verdict=BROKEN, reason="struct Lexer / enum Interpolation could not be read as expected")
            return rep.finish()
        text, dt, err, rc = M.dump_mir(s, "erg_parser", overflow_checks=True, extra_cargo=["--lib"])
        if rc != 0 or len(text) < 1000:
            log("MIR dump failed:\n" + err[-3000:])
            for ob in obs.values():
                ob.update(verdict=BROKEN, reason="cargo +nightly rustc -Zunpretty=mir failed")
            return rep.finish()
        log("  MIR dump erg_parser: %.0fs, %d MB" % (dt, len(text) >> 20))
        fns = M.parse_mir(text, want=["<impl at crates/erg_parser/lex.rs"])
        del text
        mains = [f for f in fns.values() if f.short == "lex_single_str"]
        if len(mains) != 1:
            for ob in obs.values():
                ob.update(verdict=BROKEN, reason="lex_single_str not found uniquely in the MIR dump (%d)" % len(mains))
            return rep.finish()
        vidx = {"Option": ["None", "Some"], "Result": ["Ok", "Err"], "Interpolation": interp}
        panics, drifts = [], []
        for k in range(kmax + 1):
            obt, obp = obs[("total", k)], obs[("position", k)]
            if only and not any(o in obt["key"] or o in obp["key"] for o in only.split(",")):
                obt.update(verdict=INCONCLUSIVE, reason="filtered out")
                obp.update(verdict=INCONCLUSIVE, reason="filtered out")
                continue
            chars = [z3.Int("c%d" % i) for i in range(k)]
            dom = [z3.And(c >= 0, c <= 0x10FFFF, z3.Or(c < 0xD800, c > 0xDFFF)) for c in chars]
            try:
                flow = StrFlow(fns, mains[0], models(interp), vidx, max_steps=40000)
                lex = []
                for f in fields:
                    lex.append({"chars": ("vec", [("int", 34)] + [("sint", c) for c in chars]), "cursor": ("int", 1), "col_token_starts": ("int", COL0),
                                "lineno_token_starts": ("int", 0), "interpol_stack": ("vec", [("agg", "Interpolation::SingleLine", [])])}.get(f, const("lexer_" + f)))
                pre = {"p_L": ("agg", "Lexer", lex), "_1": Ref("p_L", (), True)}
                outs = flow.run("bb0", stop_at=(), pre=pre, pc=list(S.BASE_AXIOMS) + dom)
                sol = z3.Solver()
                npaths, npanic, nok, bad_pos, panic_m = 0, 0, 0, None, None
                ci, li = fields.index("cursor"), fields.index("col_token_starts")
                for Q, end in outs:
                    if end != "return":
                        continue
                    sol.push()
                    sol.add(*Q.pc)
                    if sol.check() != z3.sat:
                        sol.pop()
                        continue
                    mdl = sol.model()
                    sol.pop()
                    npaths += 1
                    if any(c[0].startswith("PANIC:") for c in Q.calls):
                        npanic += 1
                        panic_m = panic_m or ([mdl.eval(c, model_completion=True).as_long() for c in chars], [c[0] for c in Q.calls if c[0].startswith("PANIC:")][0])
                        continue
                    r = Q.locals.get("_0")
                    if not (isinstance(r, tuple) and r and r[0] == "agg" and r[1].endswith("Ok")):
                        continue
                    nok += 1
                    L = Q.locals.get("p_L")
                    tok = r[2][0]
                    if not (isinstance(L, tuple) and L[0] == "agg" and flow.is_int(L[2][ci]) and flow.is_int(L[2][li])):
                        raise Unsupported("the lexer state after the call is not concrete: %r" % (L if not isinstance(L, tuple) else (L[2][ci], L[2][li]),))
                    consumed = L[2][ci][1] - 1 + 1            # characters after the opening quote, plus the quote itself
                    col_after = L[2][li][1]
                    is_tok = isinstance(tok, tuple) and tok[0] == "agg" and tok[1] == "Token" and len(tok[2]) >= 4
                    tline, tcol = (tok[2][2], tok[2][3]) if is_tok else (None, None)
                    line_after = L[2][fields.index("lineno_token_starts")]
                    wrong_start = (tcol is not None and flow.is_int(tcol) and tcol[1] != COL0) or (tline is not None and flow.is_int(tline) and tline[1] != 1)
                    same_line = flow.is_int(line_after) and line_after[1] == 0
                    if wrong_start or (same_line and col_after != COL0 + consumed):
                        bad_pos = bad_pos or ([mdl.eval(c, model_completion=True).as_long() for c in chars], consumed, col_after,
                                              "the token is reported at line %s, column %s (it starts at line 1, column %d)" % (tline[1] if tline and flow.is_int(tline) else "?", tcol[1] if tcol and flow.is_int(tcol) else "?", COL0) if wrong_start else None)
                obt["queries"] = flow.queries + npaths
                obp["queries"] = npaths
                obt["detail"] = {"paths": npaths, "paths that panic": npanic}
                obp["detail"] = {"paths that return a token": nok}
                if npaths == 0:
                    obt.update(verdict=BROKEN, reason="no feasible path (vacuous encoding)")
                    obp.update(verdict=BROKEN, reason="no feasible path (vacuous encoding)")
                    continue
                if panic_m:
                    src = '"' + "".join(chr(v) for v in panic_m[0])
                    obt["model"] = {"source": src}
                    obt.update(verdict=VIOLATED, reason="the lexer panics (%s) on the source %s followed by the end of the input" % (panic_m[1].split(":", 1)[1], json.dumps(src)))
                    panics.append((obt, src))
                else:
                    obt.update(verdict=HELD, reason="none of the %d feasible paths reaches a panic, for every choice of the %d character(s)" % (npaths, k))
                if bad_pos:
                    src = '"' + "".join(chr(v) for v in bad_pos[0])
                    obp["model"] = {"source": src, "source characters consumed": bad_pos[1], "column advanced by": bad_pos[2] - COL0}
                    obp.update(verdict=VIOLATED, reason=(bad_pos[3] + " for the literal " + json.dumps(src)) if bad_pos[3] else
                               "after the literal %s (%d source characters) the lexer's column has advanced by %d: the tokens that follow on the line are reported at wrong columns" % (
                                   json.dumps(src), bad_pos[1], bad_pos[2] - COL0))
                    drifts.append((obp, src))
                elif nok == 0:
                    obp.update(verdict=HELD, nontrivial=False, reason="no path returns a token for %d character(s) before the end of the input (a literal needs its closing quote)" % k)
                else:
                    obp.update(verdict=HELD, reason="on all %d paths that return a token, the column advances by the number of source characters consumed and the token starts at the quote" % nok)
            except Unsupported as e:
                for ob in (obt, obp):
                    ob.update(verdict=INCONCLUSIVE, reason="unsupported-construct: " + str(e)[:200])
        # ---- the same question of totality for multi-line literals (entered after the three opening quotes) and for the continuation of an
        #      interpolated literal (entered after the `}` that closes the interpolation)
        quote_variants = M.rust_enum_variants(lsrc, "Quote")
        dq = ("agg", "Quote::Double", [])
        configs = [
            ("lex_multi_line_str", "emit_multiline_token", '"""', [("agg", "Interpolation::Not", [])], {"_2": dq}, "`\"\"\"` + %d character(s) + end of input", ""),
            ("lex_interpolation_mid", "emit_singleline_token", '"\\{x}', [("agg", "Interpolation::Not", []), ("agg", "Interpolation::SingleLine", [])], {}, "`\"\\{x}` + %d character(s) + end of input", "/single-line"),
            ("lex_interpolation_mid", "emit_singleline_token", '"""\\{x}', [("agg", "Interpolation::Not", []), ("agg", "Interpolation::MultiLine", [dq])], {}, "`\"\"\"\\{x}` + %d character(s) + end of input", "/multi-line"),
        ]
        for fshort, emit, prefix, stack, extra, shape, tag in configs:
            mm_ = [f for f in fns.values() if f.short == fshort]
            for k in range(kmax + 1):
                ob = Obligation(dict(base, functions=["Lexer::" + fshort, "Lexer::consume", "Lexer::" + emit], shape=shape % k,
                                     symbolic=["each character: any Unicode scalar value"], bounds={"chars": k}), key="%s%s/total/k=%d" % (fshort, tag, k))
                rep.add(ob)
                if only and not any(o in ob["key"] for o in only.split(",")):
                    ob.update(verdict=INCONCLUSIVE, reason="filtered out")
                    continue
                if len(mm_) != 1 or not quote_variants or "Double" not in quote_variants:
                    ob.update(verdict=BROKEN, reason="%s / enum Quote not found as expected" % fshort)
                    continue
                chars = [z3.Int("c%d" % i) for i in range(k)]
                dom = [z3.And(c >= 0, c <= 0x10FFFF, z3.Or(c < 0xD800, c > 0xDFFF)) for c in chars]
                try:
                    flow = StrFlow(fns, mm_[0], models(interp), dict(vidx, Quote=quote_variants), max_steps=40000)
                    lex = []
                    for f in fields:
                        lex.append({"chars": ("vec", [("int", ord(ch)) for ch in prefix] + [("sint", c) for c in chars]), "cursor": ("int", len(prefix)), "col_token_starts": ("int", COL0),
                                    "lineno_token_starts": ("int", 0), "interpol_stack": ("vec", list(stack))}.get(f, const("lexer_" + f)))
                    pre = dict({"p_L": ("agg", "Lexer", lex), "_1": Ref("p_L", (), True)}, **extra)
                    outs = flow.run("bb0", stop_at=(), pre=pre, pc=list(S.BASE_AXIOMS) + dom)
                    sol = z3.Solver()
                    npaths, npanic, panic_m = 0, 0, None
                    for Q, end in outs:
                        if end != "return":
                            continue
                        sol.push()
                        sol.add(*Q.pc)
                        if sol.check() != z3.sat:
                            sol.pop()
                            continue
                        mdl = sol.model()
                        sol.pop()
                        npaths += 1
                        if any(c[0].startswith("PANIC:") for c in Q.calls):
                            npanic += 1
                            panic_m = panic_m or ([mdl.eval(c, model_completion=True).as_long() for c in chars], [c[0] for c in Q.calls if c[0].startswith("PANIC:")][0])
                    ob["queries"] = flow.queries + npaths
                    ob["detail"] = {"paths": npaths, "paths that panic": npanic}
                    if npaths == 0:
                        ob.update(verdict=BROKEN, reason="no feasible path (vacuous encoding)")
                    elif panic_m:
                        src = prefix + "".join(chr(v) for v in panic_m[0])
                        ob["model"] = {"source": src}
                        ob.update(verdict=VIOLATED, reason="the lexer panics (%s) on the source %s followed by the end of the input" % (panic_m[1].split(":", 1)[1], json.dumps(src)))
                        panics.append((ob, src))
                    else:
                        ob.update(verdict=HELD, reason="none of the %d feasible paths reaches a panic, for every choice of the %d character(s)" % (npaths, k))
                except Unsupported as e:
                    ob.update(verdict=INCONCLUSIVE, reason="unsupported-construct: " + str(e)[:200])
        # ---- native replay
        if panics or drifts:
            nat = NativeRun(s, "erg_parser", "crates/erg_parser/lex.rs", helpers="""
    fn __lexcols(src: &str) -> String {
        match Lexer::from_str(src.to_string()).lex() {
            Ok(ts) => ts.iter().map(|t| format!("{}@{}:{}", t.content.chars().count(), t.lineno, t.col_begin)).collect::<Vec<_>>().join(","),
            Err((ts, errs)) => format!("errors={} tokens={}", errs.len(), ts.iter().map(|t| format!("{}@{}:{}", t.content.chars().count(), t.lineno, t.col_begin)).collect::<Vec<_>>().join(",")),
        }
    }""")
            for n, (ob, src) in enumerate(panics):
                nat.add("p%d" % n, "__lexcols(%s)" % rust_str_lit(src))
            for n, (ob, src) in enumerate(drifts):
                nat.add("d%d" % n, "__lexcols(%s)" % rust_str_lit("a =" + src + " x"))
            res, dt = nat.run()
            for n, (ob, src) in enumerate(panics):
                got = (res or {}).get("p%d" % n)
                ob["end_to_end"] = {"source": src, "real lexer": got}
                if got is None:
                    ob.update(verdict=INCONCLUSIVE, reason="no native replay available: " + ob["reason"])
                elif not got.startswith("PANIC"):
                    ob.update(verdict=BROKEN, reason="counterexample did not reproduce natively (%s): %s" % (got[:80], ob["reason"]))
            for n, (ob, src) in enumerate(drifts):
                got = (res or {}).get("d%d" % n)
                full = "a =" + src + " x"
                lines = full.split("\n")
                want_x = (len(lines), len(lines[-1]) - 1)            # line and column of the final `x`
                want_s = (1, 3)                                     # the literal starts on line 1 at column 3
                ob["end_to_end"] = {"source": full, "real lexer (content length @ line:column per token)": got, "the literal starts at": "1:3", "`x` stands at": "%d:%d" % want_x}
                if got is None:
                    ob.update(verdict=INCONCLUSIVE, reason="no native replay available: " + ob["reason"])
                    continue
                if got.startswith("PANIC"):
                    ob.update(verdict=BROKEN, reason="counterexample did not reproduce natively (the lexer panics instead): " + ob["reason"])
                    continue
                toks = re.findall(r"(\d+)@(\d+):(\d+)", got.split("tokens=")[-1])
                if got.startswith("errors=") or len(toks) < 4:
                    ob.update(verdict=INCONCLUSIVE, reason="the replay source is not lexed into `a`, `=`, a literal and `x` (%s): %s" % (got[:80], ob["reason"]))
                    continue
                lit, x = toks[2], [t for t in toks if t[0] == "1"][-1] if toks[-1][0] != "1" else toks[-1]
                xs = [t for t in toks[3:] if t[0] == "1"]
                x = xs[0] if xs else None
                ok_lit = (int(lit[1]), int(lit[2])) == want_s
                ok_x = x is not None and (int(x[1]), int(x[2])) == want_x
                if ok_lit and ok_x:
                    ob.update(verdict=BROKEN, reason="counterexample did not reproduce natively (%s): %s" % (got[:80], ob["reason"]))
        rep.assumptions += [
            "the literal is on the first line and starts at column 0; the interpolation stack holds SingleLine (a top-level literal); the end of the input follows the k characters",
            "models: String::new / push / push_str, Vec deref / len / push, slice::get / last, Option / Result unwrap (None / Err = panic), Range<i32> iteration, is_ascii_hexdigit, "
            "u32::from_str_radix on two checked hex digits, char::from_u32, CacheSet::get (returns the same text), str::chars().count(), Token::new (a record of its arguments), format!",
            "error constructors (`*_error`) are uninterpreted; line numbers, multi-line literals and all other token kinds are outside the claim",
        ]
        log("  C08: %.0fs" % (time.time() - t0))
        return rep.finish()
    finally:
        s.cleanup()
