"""C23, stage 2 — which parameter's ownership an argument is checked with.

`OwnershipChecker::check_expr` treats a call by asking the callee's signature for the ownership of every parameter
(`args_ownership()`: Owned for a parameter of mutable type, Ref / RefMut otherwise) and walking the arguments with those
ownerships; an argument walked with `Owned` is moved.  "Passed for a parameter whose declared type is a mutable type" is
therefore decided by the *pairing* of arguments and parameters in the `Expr::Call` arm.

Engine: `mirsem` — the rustc MIR of `ownercheck::check_expr` is executed on a call node with k positional arguments (opaque
sub-expressions) and a signature of n non-default parameters (plus, in some shapes, a variadic parameter or default
parameters); the ownership of every parameter is an opaque value; function calls and method calls (`is_method_call()`, where
parameter 0 is `self`) are separate shapes.  `split_at`, `zip`, `min`, `len`, the `next` loops run on the shape-concrete
slices.  Obligation: positional argument i is passed on with the ownership of the parameter it binds to — parameter i of a
function, parameter i + 1 of a method (after `self`), the variadic parameter for arguments beyond the non-default ones, else
the default parameters in order.  A violation is replayed through the real front end: a program whose i-th argument is a
mutable object given for a parameter of mutable type and used afterwards must be rejected with a MoveError."""
import re
import time

import z3

import c12 as T
import mir2smt as M
import mirsem as S
from common import (BROKEN, HELD, INCONCLUSIVE, VIOLATED, Obligation, extract_fn, log)
from mirflow import DISC, Ref, Unsupported, const, fun


def struct_fields(src, name):
    st = re.search(r"pub struct %s[^{]*\{(.*?)\n\}" % name, src, re.S)
    return re.findall(r"^\s*(?:pub(?:\([^)]*\))?\s+)?(\w+)\s*:", st.group(1), re.M) if st else []


def models(W, used):
    base = T.models(W)

    def m(name):
        def deco(f):
            def g(flow, P, callee, args):
                used.add(name)
                return f(flow, P, callee, args)
            return g
        return deco

    def opt(x):
        return ("agg", "Option::Some", [x]) if x is not None else ("agg", "Option::None", [])

    def coll(flow, P, a):
        v = flow.deref_all(P, a)
        if isinstance(v, tuple) and v[0] == "vec":
            return v
        raise Unsupported("not a shape-concrete slice: %r" % (v,))

    @m("Call::signature_t / Type::is_subr / Type::args_ownership / Call::is_method_call: the callee is a subroutine whose parameters' ownerships are opaque values; function and method calls are separate shapes")
    def signature_t(flow, P, callee, args):
        return opt(Ref("p_sig"))

    def is_subr(flow, P, callee, args):
        return S.TRUE

    def args_ownership(flow, P, callee, args):
        return P.locals["p_owns"]

    def is_method(flow, P, callee, args):
        return S.TRUE if W["method"] else S.FALSE

    @m("Vec / slice: len, deref, iter, split_at, zip, next, into_iter, Option::as_ref, usize::min over slices of known length (std contract)")
    def v_len(flow, P, callee, args):
        return ("int", len(coll(flow, P, args[0])[1]))

    def v_deref(flow, P, callee, args):
        return args[0]

    def u_min(flow, P, callee, args):
        if flow.is_int(args[0]) and flow.is_int(args[1]):
            return ("int", min(args[0][1], args[1][1]))
        raise Unsupported("min of symbolic lengths")

    def from_bool(flow, P, callee, args):
        b = args[0]
        if b is S.TRUE or b is S.FALSE or (z3.is_expr(b) and (b.eq(S.TRUE) or b.eq(S.FALSE))):
            return ("int", 1 if (b is S.TRUE or b.eq(S.TRUE)) else 0)
        raise Unsupported("usize::from of a symbolic bool")

    def sat_sub(flow, P, callee, args):
        if flow.is_int(args[0]) and flow.is_int(args[1]):
            return ("int", max(args[0][1] - args[1][1], 0))
        raise Unsupported("saturating_sub of symbolic lengths")

    def o_is_some(flow, P, callee, args):
        o = flow.deref_all(P, args[0])
        if isinstance(o, tuple) and o[0] == "agg" and o[1].startswith("Option::"):
            return S.TRUE if o[1].endswith("Some") == callee.endswith("is_some") else S.FALSE
        raise Unsupported("is_some of %r" % (o,))

    def split_at(flow, P, callee, args):
        v = coll(flow, P, args[0])
        if not flow.is_int(args[1]) or args[1][1] > len(v[1]):
            raise Unsupported("split_at(%r)" % (args[1],))
        return ("agg", "tuple2", [("vec", list(v[1][:args[1][1]])), ("vec", list(v[1][args[1][1]:]))])

    def s_iter(flow, P, callee, args):
        return ("iter", list(coll(flow, P, args[0])[1]), 0)

    def zip_(flow, P, callee, args):
        a, b = args
        if not (isinstance(a, tuple) and a[0] == "iter" and isinstance(b, tuple) and b[0] == "iter"):
            raise Unsupported("zip of %r, %r" % (a, b))
        return ("iter", [("agg", "tuple2", [x, y]) for x, y in zip(a[1][a[2]:], b[1][b[2]:])], 0)

    def skip_(flow, P, callee, args):
        a, n = args
        if not (isinstance(a, tuple) and a[0] == "iter" and flow.is_int(n)):
            raise Unsupported("skip(%r, %r)" % (a, n))
        return ("iter", list(a[1][a[2] + n[1]:]), 0)

    def into_iter(flow, P, callee, args):
        a = args[0]
        if isinstance(a, Ref):
            v = flow.deref_all(P, a)
            if isinstance(v, tuple) and v[0] == "vec":
                return ("iter", list(v[1]), 0)
        return a

    def it_next(flow, P, callee, args):
        r = args[0]
        it = flow.read(P, r.local, list(r.path))
        if not (isinstance(it, tuple) and it[0] == "iter"):
            raise Unsupported("next on %r" % (it,))
        if it[2] < len(it[1]):
            flow.write(P, r.local, list(r.path), ("iter", it[1], it[2] + 1))
            return opt(it[1][it[2]])
        return opt(None)

    def o_as_ref(flow, P, callee, args):
        r = args[0]
        o = flow.deref_all(P, r)
        if not (isinstance(o, tuple) and o[0] == "agg" and o[1].startswith("Option::")):
            raise Unsupported("Option::as_ref on %r" % (o,))
        if o[1].endswith("Some"):
            base = r
            for _ in range(6):
                v = flow.read(P, base.local, list(base.path))
                if isinstance(v, Ref):
                    base = v
                else:
                    break
            return opt(Ref(base.local, list(base.path) + [("variant", "Some"), ("field", 0)]))
        return opt(None)

    @m("check_expr on an argument: recorded with the ownership it is given (an opaque leaf), other sub-expressions are not followed")
    def rec(flow, P, callee, args):
        v = flow.deref_all(P, args[1])
        if isinstance(v, tuple) and v[0] == "agg" and v[1] == "Box":
            v = flow.deref_all(P, v[2][0][2][0])
        if z3.is_expr(v):
            for name, (eff, imp, key, t) in W["tree"].leaves.items():
                if t.eq(v):
                    own = args[2]
                    P.calls.append(("BIND", [name, own], None))
                    return const("unit")
        P.calls.append(("NOTE:check_expr-other", [], None))
        return const("unit")

    def check_acc(flow, P, callee, args):
        return const("unit")

    @m("Token::inspect of a keyword / <&Str as PartialEq>::eq / <Option<&Str> as PartialEq>::eq: names are distinct constants (a keyword names one parameter); Iterator::find applies the inlined closure in order")
    def inspect(flow, P, callee, args):
        key = T.place_key(flow, P, args[0])
        name = W["kwnames"].get(key)
        if name is None:
            raise Unsupported("inspect of an unknown token " + key)
        return flow.new_place(P, "pnm", name)

    def name_of(flow, P, a):
        v = flow.deref_all(P, a)
        if isinstance(v, tuple) and v[0] == "agg" and v[1].startswith("Option::"):
            return ("some", name_of(flow, P, v[2][0])) if v[1].endswith("Some") else ("none",)
        if z3.is_expr(v):
            return str(v)
        raise Unsupported("name of %r" % (v,))

    def str_eq(flow, P, callee, args):
        return S.TRUE if name_of(flow, P, args[0]) == name_of(flow, P, args[1]) else S.FALSE

    def it_find(flow, P, callee, args):
        r = args[0]
        it = flow.read(P, r.local, list(r.path)) if isinstance(r, Ref) else r
        if not (isinstance(it, tuple) and it[0] == "iter"):
            raise Unsupported("find on %r" % (it,))
        mm = re.search(r"\{closure@([^}]*)\}", callee)
        c = [f for f in flow.fns.values() if "{closure#" in f.short and f.params and mm and mm.group(1).strip() in f.params[0][1]]
        if len({f.name for f in c}) != 1:
            raise Unsupported("closure of " + callee[:80])
        fn = c[0]
        for e in it[1][it[2]:]:
            first = flow.new_place(P, "pclo", args[1]) if fn.params[0][1].startswith("&") else args[1]
            rv = flow.inline(P, fn, [first, flow.new_place(P, "pit", e)])
            if rv is S.TRUE or (z3.is_expr(rv) and rv.eq(S.TRUE)):
                return opt(e)
            if not (rv is S.FALSE or (z3.is_expr(rv) and rv.eq(S.FALSE))):
                raise Unsupported("find with a symbolic predicate")
        return opt(None)

    extra = [
        (r"as (ty::)?HasType>::signature_t$|hir::Call::signature_t$", signature_t),
        (r"Type::is_subr$", is_subr),
        (r"Type::args_ownership$", args_ownership),
        (r"hir::Call::is_method_call$", is_method),
        (r"^Vec::<.*>::len$|slice::<impl \[.*\]>::len$", v_len),
        (r"^<Vec<.*> as Deref>::deref$", v_deref),
        (r"^<usize as Ord>::min$|^core::cmp::min::<usize>$|^std::cmp::min::<usize>$", u_min),
        (r"^<usize as From<bool>>::from$", from_bool),
        (r"num::<impl usize>::saturating_sub$", sat_sub),
        (r"slice::<impl \[.*\]>::split_at$", split_at),
        (r"slice::<impl \[.*\]>::iter$", s_iter),
        (r"as Iterator>::zip::", zip_),
        (r"as Iterator>::skip$", skip_),
        (r"as IntoIterator>::into_iter$", into_iter),
        (r"as Iterator>::next$", it_next),
        (r"^Option::<.*>::as_ref$", o_as_ref),
        (r"^Option::<.*>::is_(some|none)$", o_is_some),
        (r"Token::inspect$", inspect),
        (r"^<&erg_common::Str as PartialEq>::eq$|^<Option<&erg_common::Str> as PartialEq>::eq$|^<erg_common::Str as PartialEq>::eq$", str_eq),
        (r"as Iterator>::find::", it_find),
        (r"OwnershipChecker::check_expr$", rec),
        (r"OwnershipChecker::check_acc$", check_acc),
    ]
    return extra + base


def shapes(tier):
    """(key, method?, n non-default params incl. self, variadic?, d default params, k positional args[, keyword targets])"""
    out = []
    for n in ((1, 2, 3) if tier == "quick" else (1, 2, 3, 4)):
        out.append(("function/params=%d" % n, False, n, False, 0, n))
        if n >= 2:
            out.append(("method/params=self+%d" % (n - 1), True, n, False, 0, n - 1))
    out.append(("function/params=1+variadic/args=3", False, 1, True, 0, 3))
    out.append(("method/params=self+1+variadic/args=3", True, 2, True, 0, 3))
    out.append(("function/params=1+2 defaults/args=3", False, 1, False, 2, 3))
    out.append(("method/params=self+1+2 defaults/args=2", True, 2, False, 2, 2))
    # keyword arguments: (.., k positional, [names of the parameters the keywords name])
    out.append(("function/params=2/args=1+keyword(p1)", False, 2, False, 0, 1, ["p1"]))
    out.append(("function/params=1+2 defaults/args=1+keyword(d1)", False, 1, False, 2, 1, ["d1"]))
    out.append(("function/params=1+2 defaults/args=1+keywords(d1,d0)", False, 1, False, 2, 1, ["d1", "d0"]))
    out.append(("function/params=2+1 default/args=1+keywords(d0,p1)", False, 2, False, 1, 1, ["d0", "p1"]))
    out.append(("method/params=self+2/args=1+keyword(p2)", True, 3, False, 0, 1, ["p2"]))
    out.append(("qualified-function/params=1", False, 1, False, 0, 1))
    out.append(("qualified-function/params=2", False, 2, False, 0, 2))
    return out


def program(method, n, variadic, d, k, mut_arg, kws=(), aname=None, qualified=False):
    """a program whose argument `aname` (a<i> positional, k<j> keyword) is a mutable list given for a parameter of mutable type and used afterwards"""
    if variadic:
        return None        # a mutable variadic parameter has no simple declaration form here
    off = 1 if method else 0
    aname = aname or "a%d" % mut_arg
    # which parameter receives the mutable list
    if aname[0] == "a":
        j = int(aname[1:]) + off
        target = "p%d" % j if j < n else "d%d" % (j - n)
    else:
        target = kws[int(aname[1:])]
    if target[0] == "d":
        return None        # default parameters of mutable type need a mutable default value: function-level replay only
    params = ["p%d: %s" % (i, "List!(Int, _)" if "p%d" % i == target else "Int") for i in range(off, n)] + ["d%d := 0" % i for i in range(d)]
    pos = ["v" if "a%d" % i == aname else "2" for i in range(k)]
    kw = ["%s := %s" % (nm, "v" if "k%d" % j == aname else "3") for j, nm in enumerate(kws)]
    use = "%s.push! 1" % target
    argl = ", ".join(pos + kw)
    if method:
        return ("C = Class {.x = Int}\nC.\n    take! self, %s =\n        %s\nc = C.new {.x = 1}\nv = ![1]\nc.take! %s\nprint! v\n" % (", ".join(params), use, argl))
    if qualified:       # a class-level procedure without `self`, called through the class: attr_name is Some, is_method_call() is false
        return ("C = Class {.x = Int}\nC.\n    take! %s =\n        %s\nv = ![1]\nC.take! %s\nprint! v\n" % (", ".join(params), use, argl))
    return "take! %s =\n    %s\nv = ![1]\ntake! %s\nprint! v\n" % (", ".join(params), use, argl)


HELPERS = r"""
    fn nmove(src: &str) -> String {
        let src = src.to_string();
        erg_common::spawn::exec_new_thread(move || {
            let mut b = crate::HIRBuilder::new(ErgConfig::default());
            match b.build(src, "exec") {
                Ok(_) => "accepted".to_string(),
                Err(art) => {
                    if art.errors.iter().any(|e| format!("{:?}", e.core.kind) == "MoveError") { "move-error".to_string() }
                    else { format!("other-error {:?}", art.errors.iter().map(|e| format!("{:?}", e.core.kind)).collect::<Vec<_>>()) }
                }
            }
        }, "nmove")
    }
"""


def stage(rep, s, text, tier, only):
    """returns (native cases, finisher)"""
    osrc = s.read("crates/erg_compiler/ownercheck.rs")
    hsrc = s.read("crates/erg_compiler/hir.rs")
    tsrc = s.read("crates/erg_compiler/ty/mod.rs")
    rep.add_function("OwnershipChecker::check_expr (Expr::Call arm)", "crates/erg_compiler/ownercheck.rs", extract_fn(osrc, "check_expr"))
    structs = {}
    for mm in re.finditer(r"pub struct (\w+)\s*\{(.*?)\n\}", hsrc, re.S):
        structs[mm.group(1)] = re.findall(r"^\s*(?:pub(?:\([^)]*\))?\s+)?(\w+)\s*:", mm.group(2), re.M)
    for mm in re.finditer(r"pub struct (\w+)\(([^;{]*)\);", hsrc):
        structs[mm.group(1)] = [str(i) for i in range(len([x for x in mm.group(2).split(",") if x.strip()]))]
    af = struct_fields(tsrc, "ArgsOwnership")
    vidx = {e: M.rust_enum_variants(hsrc, e) for e in T.ENUMS}
    vidx["Option"] = ["None", "Some"]
    vidx["Ownership"] = M.rust_enum_variants(tsrc, "Ownership")
    fns = M.parse_mir(text, want=["ownercheck::"])
    mains = [f for f in fns.values() if f.short == "check_expr" and f.name.startswith("ownercheck::")]
    if len(mains) != 1 or None in vidx.values() or sorted(af) != sorted(["non_defaults", "var_params", "defaults", "kw_var_params"]):
        rep.add(Obligation(key="binding/mir", verdict=BROKEN, reason="ownercheck::check_expr not found uniquely in the MIR dump (%d) or ArgsOwnership %r unreadable" % (len(mains), af)))
        return [], (lambda res: None)
    solver = z3.Solver()
    solver.set("timeout", 60000)

    def check(conds):
        solver.push()
        solver.add(*conds)
        r = solver.check()
        solver.pop()
        return str(r)
    used = set()
    pending = []
    for shp in shapes(tier):
        key, method, n, variadic, d, k = shp[:6]
        kws = shp[6] if len(shp) > 6 else []
        okey = "binding/" + key
        if only and not any(o in okey for o in only.split(",")):
            continue
        ob = Obligation(dict(engine="mirsem (MIR -> z3 %s)" % z3.get_version_string(), solver="z3", functions=["OwnershipChecker::check_expr"], shape=key,
                             symbolic=["the ownership of every parameter (opaque)", "the argument expressions (opaque)"], bounds={"parameters": n + d, "arguments": k}), key=okey)
        t0 = time.time()
        try:
            W = {"used": used, "main": mains[0], "depth": 0, "method": method, "kwnames": {}}
            flow = S.SemFlow(fns, mains[0], models(W, used), vidx)
            P0 = S.Path()
            P0.pc = list(S.BASE_AXIOMS)
            tree = T.Tree(flow, structs, P0)
            tree.where, tree.obj_keys = {}, {}
            W["tree"] = tree
            qualified = method or key.startswith("qualified-function")      # `obj.f x` / `module.f x`: attr_name is Some; a method call additionally has a `self` parameter
            sp = T.call(("expr", "Accessor", ("enum", "Accessor", "Ident", ("opaque", "id"))), qualified,
                        T.args(pos=[T.leaf("a%d" % i) for i in range(k)], kw=[T.leaf("k%d" % i) for i in range(len(kws))]))
            P0.locals["p_X"] = tree.build(sp, "p_X", [])
            # the keyword token of the j-th keyword argument: its place key -> the name it carries
            ai, kwi = structs["Call"].index("args"), structs["Args"].index("kw_args")
            kwvec = P0.locals["p_X"][2][0][2][ai][2][kwi]
            for j, pl in enumerate(kwvec[1]):
                W["kwnames"][pl.local + "_field_%d" % structs["KwArg"].index("keyword")] = const("name_" + kws[j])
            owns = [const("own_p%d" % i) for i in range(n)]
            own_var = const("own_variadic")
            own_def = [const("own_d%d" % i) for i in range(d)]
            for o in owns + [own_var] + own_def:
                P0.pc.append(z3.And(DISC(o) >= 0, DISC(o) < 3))

            def tup(name, o, pl):
                P0.locals[pl] = ("agg", "tuple2", [name, o])
                return Ref(pl)
            f = [None] * 4
            f[af.index("non_defaults")] = ("vec", [tup(("agg", "Option::Some", [const("name_p%d" % i)]), o, "p_nd%d" % i) for i, o in enumerate(owns)])
            f[af.index("var_params")] = ("agg", "Option::Some", [("agg", "tuple2", [const("vname"), own_var])]) if variadic else ("agg", "Option::None", [])
            f[af.index("defaults")] = ("vec", [tup(const("name_d%d" % i), o, "p_df%d" % i) for i, o in enumerate(own_def)])
            f[af.index("kw_var_params")] = ("agg", "Option::None", [])
            P0.locals["p_owns"] = ("agg", "ArgsOwnership", f)
            P0.locals["p_sig"] = const("sigT")
            pre = dict(P0.locals)
            pre.update({"_1": const("self"), "_2": Ref("p_X"), "_3": const("outer_ownership"), "_4": S.FALSE})
            outs = flow.run("bb0", stop_at=(), pre=pre, pc=P0.pc)
            off = 1 if method else 0
            expect = {}
            for i in range(k):
                j = i + off
                if j < n:
                    expect["a%d" % i] = (owns[j], "parameter %d" % j)
                elif variadic:
                    expect["a%d" % i] = (own_var, "the variadic parameter")
                elif j - n < d:
                    expect["a%d" % i] = (own_def[j - n], "default parameter %d" % (j - n))
            for j, nm in enumerate(kws):
                expect["k%d" % j] = (owns[int(nm[1:])], "parameter %s (by name)" % nm) if nm[0] == "p" else (own_def[int(nm[1:])], "default parameter %s (by name)" % nm)
            npaths, wrong = 0, []
            for Q, end in outs:
                if end != "return" or check(Q.pc) != "sat":
                    continue
                npaths += 1
                got = {c[1][0]: c[1][1] for c in Q.calls if c[0] == "BIND"}
                for a, (want, what) in expect.items():
                    g = got.get(a)
                    if g is None:
                        wrong.append((a, what, "is not checked at all"))
                    elif not z3.is_expr(g) or check(Q.pc + [DISC(g) != DISC(want)]) != "unsat":
                        wrong.append((a, what, "is checked with %s" % (g,)))
            ob["queries"] = flow.queries + npaths * (k + 1)
            ob["detail"] = {"paths": npaths}
            if npaths == 0:
                ob.update(verdict=BROKEN, reason="no feasible path (vacuous encoding)")
            elif wrong:
                a, what, how = wrong[0]
                ob["model"] = {"argument": a, "binds to": what, "but": how}
                ob.update(verdict=VIOLATED, reason="%s call, %d parameters: argument %s binds to %s but %s: a mutable object passed there is not moved (or an immutable one is)" % (
                    "method" if method else "function", n, a, what, how))
                pending.append((ob, method, n, variadic, d, k, int(a[1:]), kws, a, key.startswith("qualified-function")))
            else:
                ob.update(verdict=HELD, reason="on all %d paths every positional argument is passed on with the ownership of the parameter it binds to" % npaths)
            ob["solver_s"] = round(time.time() - t0, 2)
        except Unsupported as e:
            ob.update(verdict=INCONCLUSIVE, reason="unsupported-construct: " + str(e)[:200], solver_s=round(time.time() - t0, 2))
        rep.add(ob)
    rep.assumptions += sorted(used) + ["stage 2: well-typed calls (a function call supplies all non-default parameters, a method call all but self); keyword arguments are outside"]
    rs = lambda p: '"%s"' % p.replace("\\", "\\\\").replace('"', '\\"').replace("\n", "\\n")
    cases, progs = [], []
    for i, (ob, method, n, variadic, d, k, ai, kws, aname, qual) in enumerate(pending):
        pr = program(method, n, variadic, d, k, ai, kws, aname, qual)
        progs.append(pr)
        if pr:
            cases.append(("b.%d" % i, "nmove(%s)" % rs(pr)))
    ctl = program(False, 1, False, 0, 1, 0)
    cases.append(("b.ctl", "nmove(%s)" % rs(ctl)))

    def finish(res):
        if res.get("b.ctl") != "move-error":
            rep.add(Obligation(key="binding/control", verdict=BROKEN, reason="the control program (a mutable list passed to `take! p0: List!(Int, _)` and used afterwards) was not rejected with a MoveError: %s" % res.get("b.ctl")))
        out = []
        for i, (ob, *_r) in enumerate(pending):
            if progs[i] is None:
                ob["verdict"] = INCONCLUSIVE
                ob["reason"] = "no program form for this shape: the counterexample could not be replayed (%s)" % ob["reason"]
                continue
            got = res.get("b.%d" % i)
            rep.replayed += 1
            ob["native_replay"] = {"program": progs[i], "real front end + ownership checker": got}
            if got != "accepted":
                ob["verdict"] = BROKEN
                ob["reason"] = "counterexample did not reproduce natively (%s): %s" % (got, ob["reason"])
            else:
                out.append((ob, progs[i]))
        return out
    return cases, finish
