"""C22 — functions cannot perform side effects (kernel: the context predicate of the effect checker).

`SideEffectChecker::check_expr` reports a side effect exactly when `in_context_effects_allowed()` answers false for the
current nesting (`block_stack`: Module at the bottom, then one entry per enclosing subroutine / variable definition / record).
The property's statement fixes what that answer must be: a side effect is forbidden exactly when the innermost enclosing
*subroutine or constant definition* is a function (or a constant context); plain variable definitions and records ("instant
blocks") inherit the context they sit in, at any depth.

Engine: `mirsem` — the rustc MIR of `in_context_effects_allowed` is executed on a block stack of concrete length n (1..5, thorough
..7) whose entries are solver variables over the six block kinds (bottom entry = Module, the checker's invariant); `Vec`/slice
accessors and iterator adaptors are contract models over the shape-concrete stack.  z3 decides that the answer equals the
reference walk (skip instant blocks from the top; allowed iff the first other entry is Proc or Module).  A counterexample is a
concrete stack: it is replayed on a real `SideEffectChecker`, and turned into an Erg program that nests the same blocks around a
`print!` and is given to the built compiler."""
import itertools
import os
import re
import time

import z3

import mir2smt as M
import mirsem as S
from common import (BROKEN, HELD, INCONCLUSIVE, VIOLATED, Obligation, Report, Scratch, extract_fn, log, sh)
from mirflow import DISC, Ref, Unsupported, const, fun
from native import NativeRun

import c12 as T


def models(W):
    used = W["used"]

    def m(name):
        def deco(f):
            def g(flow, P, callee, args):
                used.add(name)
                return f(flow, P, callee, args)
            return g
        return deco

    def vec_of(flow, P, a):
        v = flow.deref_all(P, a)
        if not (isinstance(v, tuple) and v[0] == "vec"):
            raise Unsupported("not a shape-concrete vector: %r" % (v,))
        return v

    @m("Vec::len / <Vec as Deref>::deref / slice::{get, last, first, iter, is_empty}: a vector of known length is the list of its element places (std contract)")
    def v_len(flow, P, callee, args):
        return ("int", len(vec_of(flow, P, args[0])[1]))

    def v_deref(flow, P, callee, args):
        return args[0]

    def opt(x):
        return ("agg", "Option::Some", [x]) if x is not None else ("agg", "Option::None", [])

    def s_get(flow, P, callee, args):
        v = vec_of(flow, P, args[0])
        i = args[1]
        if not flow.is_int(i):
            raise Unsupported("symbolic index")
        return opt(v[1][i[1]] if 0 <= i[1] < len(v[1]) else None)

    def s_last(flow, P, callee, args):
        v = vec_of(flow, P, args[0])
        return opt(v[1][-1] if v[1] else None)

    def s_first(flow, P, callee, args):
        v = vec_of(flow, P, args[0])
        return opt(v[1][0] if v[1] else None)

    def s_is_empty(flow, P, callee, args):
        return S.TRUE if not vec_of(flow, P, args[0])[1] else S.FALSE

    def s_iter(flow, P, callee, args):
        return ("iter", list(vec_of(flow, P, args[0])[1]), 0)

    @m("Iterator::rev / next / next_back / IntoIterator::into_iter over a list of known length (std contract)")
    def it_rev(flow, P, callee, args):
        it = args[0]
        if not (isinstance(it, tuple) and it[0] == "iter"):
            raise Unsupported("rev of %r" % (it,))
        return ("iter", list(reversed(it[1][it[2]:])), 0)

    def it_id(flow, P, callee, args):
        return args[0]

    def it_next(flow, P, callee, args):
        r = args[0]
        it = flow.read(P, r.local, list(r.path))
        if not (isinstance(it, tuple) and it[0] == "iter"):
            raise Unsupported("next on %r" % (it,))
        if it[2] < len(it[1]):
            flow.write(P, r.local, list(r.path), ("iter", it[1], it[2] + 1))
            return opt(it[1][it[2]])
        return opt(None)

    @m("Option::unwrap / expect: Some(x) -> x, None -> panic (the path ends; reported)")
    def o_unwrap(flow, P, callee, args):
        o = args[0]
        if isinstance(o, tuple) and o[0] == "agg" and o[1] == "Option::Some":
            return o[2][0]
        W["panics"].append(callee)
        raise Unsupported("unwrap of None: the function panics on this stack")

    @m("<BlockKind as PartialEq>::eq / ne: equal discriminants (derived)")
    def k_eq(flow, P, callee, args):
        a, b = flow.deref_all(P, args[0]), flow.deref_all(P, args[1])
        e = DISC(flow.term(a)) == DISC(flow.term(b))
        return flow.mkbool(P, e if callee.endswith("::eq") else z3.Not(e))

    return [
        (r"^Vec::<effectcheck::BlockKind>::len$|slice::<impl \[effectcheck::BlockKind\]>::len$", v_len),
        (r"^<Vec<effectcheck::BlockKind> as Deref>::deref$", v_deref),
        (r"slice::<impl \[effectcheck::BlockKind\]>::get::<usize>$", s_get),
        (r"slice::<impl \[effectcheck::BlockKind\]>::last$", s_last),
        (r"slice::<impl \[effectcheck::BlockKind\]>::first$", s_first),
        (r"slice::<impl \[effectcheck::BlockKind\]>::is_empty$|^Vec::<effectcheck::BlockKind>::is_empty$", s_is_empty),
        (r"slice::<impl \[effectcheck::BlockKind\]>::iter$", s_iter),
        (r"as Iterator>::rev$", it_rev),
        (r"as IntoIterator>::into_iter$", it_id),
        (r"as Iterator>::next$|as DoubleEndedIterator>::next_back$", it_next),
        (r"^Option::<&effectcheck::BlockKind>::(unwrap|expect)$", o_unwrap),
        (r"effectcheck::BlockKind as PartialEq>::(eq|ne)$", k_eq),
    ]


def program_for(stack):
    """an Erg program whose nesting around `print! x` is the given stack (Func / Proc / Instant above the Module), or None"""
    lines = ["x = 1"]
    ind = ""
    closers = []
    for i, k in enumerate(stack[1:]):
        if k == "Func":
            lines.append("%sf%d x =" % (ind, i))
            closers.append((ind, "x" if i else None))
        elif k == "Proc":
            lines.append("%sp%d! x =" % (ind, i))
            closers.append((ind, "x" if i else None))
        elif k == "Instant":
            lines.append("%sv%d =" % (ind, i))
            closers.append((ind, "v%d" % i if i else None))
        else:
            return None
        ind += "    "
    lines.append(ind + "print! x")
    lines.append(ind + "x")
    for cind, tail in reversed(closers):
        if tail:
            lines.append(cind + tail)
    return "\n".join(lines) + "\n"


def run(tier, seed, only=None):
    rep = Report("C22", tier, seed, "other",
                 "Kernel-level partial claim: the context predicate SideEffectChecker::in_context_effects_allowed, whose answer decides whether check_expr "
                 "reports a side effect at the current nesting.  Its rustc MIR is executed symbolically (engine mirsem) on block stacks of concrete length with "
                 "every entry a solver variable over the six block kinds (bottom = Module); z3 decides that the answer equals the reference: instant blocks "
                 "(variable definitions, records) inherit the context of the innermost enclosing subroutine / constant definition / module, at any depth.  "
                 "Counterexamples are replayed on a real SideEffectChecker and as generated Erg programs through the built compiler.  Which expressions "
                 "check_expr treats as effects, and how it maintains the stack, are read, not decided.", partial=bool(only))
    rep.trusted += ["rustc nightly -Zunpretty=mir as the semantics of the source", "engines/mirsem.py + engines/mirflow.py", "z3 " + z3.get_version_string()]
    s = Scratch("c22")
    try:
        src = s.read("crates/erg_compiler/effectcheck.rs")
        kinds = M.rust_enum_variants(src, "BlockKind")
        body = extract_fn(src, "in_context_effects_allowed")
        rep.add_function("SideEffectChecker::in_context_effects_allowed", "crates/erg_compiler/effectcheck.rs", body)
        st = re.search(r"pub struct SideEffectChecker[^{]*\{(.*?)\n\}", src, re.S)
        fields = re.findall(r"^\s*(?:pub(?:\([^)]*\))?\s+)?(\w+)\s*:", st.group(1), re.M) if st else []
        need = ["Func", "ConstFunc", "ConstInstant", "Proc", "Instant", "Module"]
        if not kinds or sorted(kinds) != sorted(need) or "block_stack" not in fields or body is None:
            rep.add(Obligation(key="source/shape", verdict=BROKEN, reason="BlockKind variants %r / SideEffectChecker fields %r / the function could not be read from the source as expected" % (kinds, fields)))
            return rep.finish()
        fidx = fields.index("block_stack")
        KI = {k: i for i, k in enumerate(kinds)}
        text, dt, err, rc = M.dump_mir(s, "erg_compiler", overflow_checks=True, extra_cargo=["--lib"])
        if rc != 0 or len(text) < 1000:
            log("MIR dump failed:\n" + err[-3000:])
            rep.add(Obligation(key="mir-dump", verdict=BROKEN, reason="cargo +nightly rustc -Zunpretty=mir failed"))
            return rep.finish()
        log("  MIR dump erg_compiler: %.0fs, %d MB" % (dt, len(text) >> 20))
        fns = M.parse_mir(text, want=["::in_context_effects_allowed"])
        mir_text = text
        del text
        mains = [f for f in fns.values() if f.short == "in_context_effects_allowed"]
        if len(mains) != 1:
            rep.add(Obligation(key="mir/functions", verdict=BROKEN, reason="in_context_effects_allowed not found uniquely in the MIR dump (%d)" % len(mains)))
            return rep.finish()
        fn = mains[0]
        solver = z3.Solver()
        solver.set("timeout", 60000)
        nq = [0]

        def check(conds):
            solver.push()
            solver.add(*conds)
            r = solver.check()
            mdl = solver.model() if r == z3.sat else None
            solver.pop()
            nq[0] += 1
            return str(r), mdl

        used = set()
        maxn = 5 if tier == "quick" else 7
        to_replay = []
        runs = {}
        for n in range(1, maxn + 1):
            key = "context/depth=%d" % n
            if only and not any(o in key for o in only.split(",")):
                continue
            base = dict(engine="mirsem (MIR -> z3 %s)" % z3.get_version_string(), solver="z3", functions=["SideEffectChecker::in_context_effects_allowed"],
                        shape="block_stack of length %d" % n, symbolic=["the kind of every entry above the bottom (5 kinds each)"], bounds={"stack length": n})
            ob = Obligation(base, key=key)
            t0 = time.time()
            W = {"used": used, "panics": []}
            try:
                flow = S.SemFlow(fns, fn, models(W), {"BlockKind": kinds, "Option": ["None", "Some"]})
                P0 = S.Path()
                P0.pc = list(S.BASE_AXIOMS)
                ks = [const("k%d" % i) for i in range(n)]
                places = []
                for i, k in enumerate(ks):
                    P0.locals["p_k%d" % i] = k
                    places.append(Ref("p_k%d" % i))
                    P0.pc.append(z3.And(DISC(k) >= 0, DISC(k) < len(kinds)))
                P0.pc.append(DISC(ks[0]) == KI["Module"])
                for k in ks[1:]:            # Module is pushed once, by `check`, before anything else
                    P0.pc.append(DISC(k) != KI["Module"])
                sf = [const("fld%d" % i) for i in range(len(fields))]
                sf[fidx] = ("vec", places)
                P0.locals["p_self"] = ("agg", "SideEffectChecker", sf)
                pre = dict(P0.locals)
                pre["_1"] = Ref("p_self")
                outs = flow.run("bb0", stop_at=(), pre=pre, pc=P0.pc)
                paths = [(Q, Q.locals.get("_0")) for Q, end in outs if end == "return"]
                ref = z3.BoolVal(True)
                for i in range(n):          # from the bottom up, so that the top entry is decided first in the nested If
                    ref = z3.If(DISC(ks[i]) == KI["Instant"], ref, z3.Or(DISC(ks[i]) == KI["Proc"], DISC(ks[i]) == KI["Module"]))
                npaths, verdict, reason, cex = 0, HELD, "", None
                covered = []
                for Q, rv in paths:
                    if check(Q.pc)[0] != "sat":
                        continue
                    npaths += 1
                    covered.append(z3.And(Q.pc))
                    r1, mdl = check(Q.pc + [S.truth(flow, rv) != ref])
                    if r1 == "sat" and cex is None:
                        stack = [kinds[mdl.eval(DISC(k), model_completion=True).as_long()] for k in ks]
                        cex = (stack, z3.is_true(mdl.eval(S.truth(flow, rv), model_completion=True)))
                        verdict = VIOLATED
                    elif r1 not in ("sat", "unsat") and verdict == HELD:
                        verdict, reason = INCONCLUSIVE, "solver " + r1
                # every stack must be covered by a returning path (no panic, no lost path)
                rc_, mdl = check(P0.pc + [z3.Not(z3.Or(covered))] if covered else P0.pc)
                runs[n] = (flow, ks, paths)
                ob["queries"] = flow.queries + 2 * npaths + 1
                ob["detail"] = {"paths": npaths}
                if npaths == 0:
                    verdict, reason = BROKEN, "no feasible path (vacuous encoding)"
                elif rc_ != "unsat" and verdict == HELD:
                    stack = [kinds[mdl.eval(DISC(k), model_completion=True).as_long()] for k in ks] if mdl is not None else None
                    verdict, reason = INCONCLUSIVE, "some stacks reach no returning path (panic or unsupported construct), e.g. %s" % stack
                if verdict == HELD:
                    reason = "for all %d stacks of this depth the answer is 'allowed' exactly when the innermost enclosing non-instant block is a procedure or the module (%d paths)" % (5 ** (n - 1), npaths)
                elif verdict == VIOLATED:
                    stack, got = cex
                    ob["model"] = {"block_stack (bottom first)": stack, "answer": got, "reference": not got}
                    reason = "answers %s for the nesting %s, where a side effect is %s" % (
                        "'allowed'" if got else "'forbidden'", " > ".join(stack), "forbidden (innermost subroutine is a function / constant)" if got else "allowed")
                    to_replay.append((ob, stack, got))
                ob.update(verdict=verdict, reason=reason, solver_s=round(time.time() - t0, 2))
            except Unsupported as e:
                ob.update(verdict=INCONCLUSIVE, reason="unsupported-construct: " + str(e)[:200], solver_s=round(time.time() - t0, 2))
            rep.add(ob)

        # ---- native stage: translation validation on all stacks of depth <= 3 (+ a sample of deeper ones) and replay
        helpers = r"""
    fn allowed(stack: &[u8]) -> bool {
        let ctx = Context::default_with_name("<module>");
        let mut c = SideEffectChecker::new(ErgConfig::default(), &ctx);
        c.block_stack = stack.iter().map(|k| match k { %s, _ => unreachable!() }).collect();
        c.in_context_effects_allowed()
    }
""" % ", ".join("%d => %s" % (i, k) for i, k in enumerate(kinds))
        tcases, tfinish = traversal(rep, s, mir_text, tier, seed, only, check, nq)
        kreplay = block_kinds(rep, mir_text, only, check) + mutable_read(rep, mir_text, s, only, check)
        del mir_text
        nr = NativeRun(s, "erg_compiler", "crates/erg_compiler/effectcheck.rs", helpers=helpers + NERR_HELPER)
        for cid, expr_ in tcases:
            nr.add(cid, expr_)
        for i_, (kob, kprog) in enumerate(kreplay):
            if kprog:
                nr.add("kk.%d" % i_, "nerr(\"%s\")" % kprog.replace("\\", "\\\\").replace('"', '\\"').replace("\n", "\\n"))
        import random
        rnd = random.Random(seed + 22)
        vecs = []
        for n in sorted(runs):
            allv = list(itertools.product([i for i in range(len(kinds)) if i != KI["Module"]], repeat=n - 1))
            if len(allv) > 43:
                allv = rnd.sample(allv, 40)
            vecs += [[KI["Module"]] + list(v) for v in allv]
        for i, v in enumerate(vecs):
            nr.add("t.%d" % i, "format!(\"{}\", allowed(&[%s]))" % ", ".join(str(x) for x in v))
        for i, (ob, stack, got) in enumerate(to_replay):
            nr.add("r.%d" % i, "format!(\"{}\", allowed(&[%s]))" % ", ".join(str(KI[k]) for k in stack))
        res, dtn = nr.run()
        log("  native stage: %d cases, %.0fs" % (len(nr.cases), dtn))
        if res is None:
            rep.add(Obligation(key="translation/validated", verdict=BROKEN, reason="the native validation binary did not build or run"))
            return rep.finish()
        tbad, timprecise = [], []
        for i, v in enumerate(vecs):
            flow, ks, paths = runs[len(v)]
            pins = [DISC(k) == x for k, x in zip(ks, v)]
            outs = set()
            for Q, rv in paths:
                if check(Q.pc + pins + [S.truth(flow, rv)])[0] == "sat":
                    outs.add("true")
                if check(Q.pc + pins + [z3.Not(S.truth(flow, rv))])[0] == "sat":
                    outs.add("false")
            rep.replayed += 1
            if res.get("t.%d" % i) not in outs:
                tbad.append("%s: real %s, encoding %s" % ([kinds[x] for x in v], res.get("t.%d" % i), sorted(outs)))
            elif len(outs) > 1:
                timprecise.append(v)
        rep.add(Obligation(dict(engine="mirsem vs native", functions=["SideEffectChecker::in_context_effects_allowed"]), key="translation/validated", nontrivial=False,
                           verdict=BROKEN if tbad else INCONCLUSIVE if timprecise else HELD,
                           reason=("the encoding disagrees with the real function: " + " | ".join(tbad[:4])) if tbad else
                           ("the encoding leaves the answer open on %d concrete stacks (an unmodelled callee): verdicts above are sound for 'held' only" % len(timprecise)) if timprecise else
                           "the symbolic execution predicts the real function's answer on %d concrete stacks (all of depth <= 3, a sample of deeper ones)" % len(vecs)))
        for i, (ob, stack, got) in enumerate(to_replay):
            g = res.get("r.%d" % i)
            rep.replayed += 1
            ob["native_replay"] = {"call": "in_context_effects_allowed() with block_stack = %s" % stack, "result": g}
            if g != str(got).lower():
                ob["verdict"] = BROKEN
                ob["reason"] = "counterexample did not reproduce natively (%s): %s" % (g, ob["reason"])
        tviol = tfinish(res)
        for i_, (kob, kprog) in enumerate(kreplay):
            if not kprog:
                kob["verdict"] = INCONCLUSIVE
                kob["reason"] = "no program form for this row: the counterexample could not be replayed (%s)" % kob["reason"]
                continue
            got_ = res.get("kk.%d" % i_)
            rep.replayed += 1
            kob["native_replay"] = {"program": kprog, "real front end + effect checker": got_}
            if got_ != "accepted":
                kob["verdict"] = BROKEN
                kob["reason"] = "counterexample did not reproduce natively (%s): %s" % (got_, kob["reason"])
            else:
                tviol.append((kob, kprog))
        confirmed = [t for t in to_replay if t[0]["verdict"] == VIOLATED]
        if (confirmed or tviol) and (tier == "thorough" or any(not rep.known.lookup(rep.prop, t[0]["key"]) for t in confirmed + tviol)):
            e2e(s, rep, confirmed, kinds, tviol)
        rep.assumptions += sorted(used) + [
            "checker invariant: the bottom entry of block_stack is Module and no other entry is (SideEffectChecker::check pushes it once, before anything else)",
            "reference (from the property statement and the function's own doc comment): instant blocks inherit; Proc and Module allow side effects; Func, ConstFunc, ConstInstant forbid them",
        ]
        rep.extra["z3_queries"] = nq[0]
        return rep.finish()
    finally:
        s.cleanup()


def e2e(s, rep, confirmed, kinds, tviol=()):
    t0 = time.time()
    tdir = os.path.join(s.root, "native")
    rc, out, dt = sh(["cargo", "build", "--offline", "--bin", "erg"], cwd=s.src, env=s.env(CARGO_TARGET_DIR=tdir), timeout=2400)
    exe = os.path.join(tdir, "debug", "erg")
    if rc != 0 or not os.path.exists(exe):
        log("  e2e: building erg failed (rc=%s)" % rc)
        return
    for n, (ob, stack, got) in enumerate(confirmed[:6]):
        # look for a stack with the same answer pattern that a program can produce (Func / Proc / Instant only)
        prog = program_for(stack)
        if prog is None:
            ob["end_to_end"] = {"note": "the counterexample stack contains a constant context; no program generated"}
            continue
        f = os.path.join(s.root, "e2e_%d.er" % n)
        open(f, "w").write(prog)
        rc1, out1, _ = sh([exe, "check", f], env=s.env(), timeout=120)
        ob["end_to_end"] = {"program": prog, "erg check exit": rc1, "accepted": rc1 == 0, "expected": "rejected" if got else "accepted",
                            "diagnostic tail": re.sub(r"\x1b\[[0-9;]*m", "", out1).strip()[-160:]}
        log("  e2e %s: stack %s, erg check rc=%s (model says the checker %s the effect)" % (ob["key"], stack, rc1, "allows" if got else "forbids"))
    for n, (ob, prog) in enumerate(list(tviol)[:6]):
        f = os.path.join(s.root, "e2e_t%d.er" % n)
        open(f, "w").write(prog)
        rc1, out1, _ = sh([exe, "check", f], env=s.env(), timeout=120)
        rc2, out2, _ = sh([exe, "run", f], env=s.env(), timeout=120)
        ob["end_to_end"] = {"program": prog, "erg check exit": rc1, "accepted": rc1 == 0, "erg run prints hello": "hello" in out2}
        log("  e2e %s: erg check rc=%s, run prints hello: %s" % (ob["key"], rc1, "hello" in out2))
    log("  e2e stage: %.0fs" % (time.time() - t0))



# ---------------------------------------------------------------------------------------------
# stage 2: check_expr visits every eagerly evaluated child, and reports a procedure call made where effects are forbidden

def children(sp):
    """names of the opaque leaves that are evaluated when the node built from `sp` is evaluated (same reference as C12)"""
    k = sp[0]
    if k == "leaf":
        return [sp[1]]
    if k != "expr":
        return []
    v, pl = sp[1], sp[2]
    out = []

    def sub(x):
        out.extend(children(x))
    if v == "Call":
        f = pl[2]
        sub(f["obj"][1])
        a = f["args"][2]
        for x in a["pos_args"][1]:
            sub(x[2]["expr"])
        if a["var_args"][0] == "some":
            sub(a["var_args"][1][1][2]["expr"])
        for x in a["kw_args"][1]:
            sub(x[2]["expr"])
    elif v == "BinOp":
        sub(pl[2]["lhs"][1]); sub(pl[2]["rhs"][1])
    elif v == "UnaryOp":
        sub(pl[2]["expr"][1])
    elif v in ("List", "Tuple", "Set"):
        inner = pl[3]
        if pl[2] == "Normal":
            for x in inner[2]["elems"][2]["pos_args"][1]:
                sub(x[2]["expr"])
        elif pl[2] == "WithLength":
            sub(inner[2]["elem"][1])
            ln = inner[2]["len"]
            sub(ln[1] if ln[0] == "box" else ln[1][1])
    elif v == "Dict":
        for kv in pl[3][2]["kvs"][1]:
            sub(kv[2]["key"]); sub(kv[2]["value"])
    elif v == "TypeAsc":
        sub(pl[2]["expr"][1])
    elif v == "Accessor" and pl[2] == "Attr":
        sub(pl[3][2]["obj"][1])
    return out


TRAVERSAL_SHAPES = ["call/args", "call/var-args", "call/method", "binop", "unaryop", "list", "list-with-length", "tuple", "set", "set-with-length", "dict",
                    "type-ascription", "attribute", "list3", "nested/method-on-binop"]
FPRELUDE = T.PRELUDE


def fprogram(template, assign):
    """the shape as the initialiser of a local variable of a *function*"""
    t = template
    for k, v in assign.items():
        t = t.replace("«%s»" % k, "p!()" if v else "1")
    body = "\n".join("    " + ln for ln in t.split("\n"))
    return FPRELUDE + "g w =\n" + body + "\n    w\nprint! g 1\n"


def traversal_models(W):
    base = T.models(W)
    used = W["used"]

    def m(name):
        def deco(f):
            def g(flow, P, callee, args):
                used.add(name)
                return f(flow, P, callee, args)
            return g
        return deco

    @m("check_expr on a sub-expression: recorded as a visit of that child (an opaque leaf) or inlined (a known node)")
    def rec(flow, P, callee, args):
        v = flow.deref_all(P, args[1])
        if isinstance(v, tuple) and v[0] == "agg" and v[1] == "Box":
            v = flow.deref_all(P, v[2][0][2][0])
        if z3.is_expr(v):
            for name, (eff, imp, key, t) in W["tree"].leaves.items():
                if t.eq(v):
                    P.calls.append(("VISIT", [name], None))
                    return const("unit")
            raise Unsupported("check_expr on an unknown term %s" % v)
        if W["depth"] > 6:
            raise Unsupported("recursion depth")
        W["depth"] += 1
        try:
            return flow.inline(P, W["main"], args)
        finally:
            W["depth"] -= 1

    @m("in_context_effects_allowed(): a solver boolean (decided by the depth obligations above)")
    def allowed(flow, P, callee, args):
        return flow.mkbool(P, z3.Bool("allowed"))

    @m("constructor_destructor_check / EffectErrors::push / error constructors: recorded, no effect on the traversal")
    def noop(flow, P, callee, args):
        P.calls.append(("NOTE:" + callee.rsplit("::", 1)[-1], [], None))
        return const("unit")

    def has_effect(flow, P, callee, args):
        P.calls.append(("REPORT", [], None))
        return const("err")

    def closure_fn(flow, callee):
        mm = re.search(r"\{closure@([^}]*)\}", callee)
        if not mm:
            raise Unsupported("closure type in " + callee)
        loc = mm.group(1).strip()
        c = [f for f in flow.fns.values() if "{closure#" in f.short and f.params and loc in f.params[0][1]]
        if len({f.name for f in c}) != 1:
            raise Unsupported("closure at %s not found uniquely" % loc)
        return c[0]

    @m("Iterator::for_each / Option::map / Option::unwrap_or / Option::is_some_and over shape-concrete values (std contract; closures inlined)")
    def for_each(flow, P, callee, args):
        it = args[0]
        if isinstance(it, Ref):
            it = flow.read(P, it.local, list(it.path))
        if not (isinstance(it, tuple) and it[0] == "iter"):
            raise Unsupported("for_each on %r" % (it,))
        fn = closure_fn(flow, callee)
        for e in it[1][it[2]:]:
            first = flow.new_place(P, "pclo", args[1]) if fn.params[0][1].startswith("&") else args[1]
            flow.inline(P, fn, [first, e])
        return const("unit")

    def o_map(flow, P, callee, args):
        o = args[0]
        if not (isinstance(o, tuple) and o[0] == "agg" and o[1].startswith("Option::")):
            raise Unsupported("Option::map on %r" % (o,))
        if o[1].endswith("None"):
            return ("agg", "Option::None", [])
        fn = closure_fn(flow, callee)
        first = flow.new_place(P, "pclo", args[1]) if fn.params[0][1].startswith("&") else args[1]
        return ("agg", "Option::Some", [flow.inline(P, fn, [first, o[2][0]])])

    def o_unwrap_or(flow, P, callee, args):
        o = args[0]
        if isinstance(o, tuple) and o[0] == "agg" and o[1].startswith("Option::"):
            return o[2][0] if o[1].endswith("Some") else args[1]
        raise Unsupported("unwrap_or on %r" % (o,))

    def it_next(flow, P, callee, args):
        r = args[0]
        it = flow.read(P, r.local, list(r.path))
        if not (isinstance(it, tuple) and it[0] == "iter"):
            raise Unsupported("next on %r" % (it,))
        if it[2] < len(it[1]):
            flow.write(P, r.local, list(r.path), ("iter", it[1], it[2] + 1))
            return ("agg", "Option::Some", [it[1][it[2]]])
        return ("agg", "Option::None", [])

    def it_id(flow, P, callee, args):
        return args[0]

    extra = [
        (r"SideEffectChecker::<'_>::check_expr$|SideEffectChecker::check_expr$", rec),
        (r"::in_context_effects_allowed$", allowed),
        (r"::constructor_destructor_check$", noop),
        (r"EffectError::has_effect$|CompileError::has_effect$", has_effect),
        (r"EffectErrors::push$|CompileErrors::push$|Vec::<.*>::push$", noop),
        (r"as Iterator>::for_each::", for_each),
        (r"^Option::<.*>::map::", o_map),
        (r"^Option::<.*>::unwrap_or$", o_unwrap_or),
        (r"as IntoIterator>::into_iter$", it_id),
        (r"as Iterator>::next$", it_next),
    ]
    return extra + base


def traversal(rep, s, fns_text, tier, seed, only, check, nq):
    """returns (native cases to add, finisher(res)) so that one native build serves both stages"""
    esrc = s.read("crates/erg_compiler/effectcheck.rs")
    hsrc = s.read("crates/erg_compiler/hir.rs")
    rep.add_function("SideEffectChecker::check_expr", "crates/erg_compiler/effectcheck.rs", extract_fn(esrc, "check_expr"))
    structs = {}
    for mm in re.finditer(r"pub struct (\w+)\s*\{(.*?)\n\}", hsrc, re.S):
        structs[mm.group(1)] = re.findall(r"^\s*(?:pub(?:\([^)]*\))?\s+)?(\w+)\s*:", mm.group(2), re.M)
    for mm in re.finditer(r"pub struct (\w+)\(([^;{]*)\);", hsrc):
        structs[mm.group(1)] = [str(i) for i in range(len([x for x in mm.group(2).split(",") if x.strip()]))]
    vidx = {e: M.rust_enum_variants(hsrc, e) for e in T.ENUMS}
    vidx["Option"] = ["None", "Some"]
    fns = M.parse_mir(fns_text, want=["effectcheck::"])
    mains = [f for f in fns.values() if f.short == "check_expr" and f.name.startswith("effectcheck::")]
    if len(mains) != 1 or None in vidx.values():
        rep.add(Obligation(key="visits/mir", verdict=BROKEN, reason="check_expr not found uniquely in the MIR dump (%d) or hir.rs enums unreadable" % len(mains)))
        return [], lambda res: None
    used = set()
    pending = []
    for shp in T.shapes(tier):
        key, sp, tmpl, tmpl_proc = shp[:4]
        if key not in TRAVERSAL_SHAPES:
            continue
        okey = "visits/" + key
        if only and not any(o in okey for o in only.split(",")):
            continue
        ob = Obligation(dict(engine="mirsem (MIR -> z3 %s)" % z3.get_version_string(), solver="z3", functions=["SideEffectChecker::check_expr"], shape=key,
                             symbolic=["whether effects are allowed in the current context", "procedure-ness of every type / name the code asks about"],
                             bounds={"containers": "1-2 elements (thorough 3)"}), key=okey)
        t0 = time.time()
        try:
            W = {"used": used, "main": mains[0], "depth": 0}
            flow = S.SemFlow(fns, mains[0], traversal_models(W), vidx)
            P0 = S.Path()
            P0.pc = list(S.BASE_AXIOMS)
            tree = T.Tree(flow, structs, P0)
            tree.where, tree.obj_keys = {}, {}
            W["tree"] = tree
            P0.locals["p_X"] = tree.build(sp, "p_X", [])
            T.index_tree(tree, sp, "p_X", [], [0])
            pre = dict(P0.locals)
            pre.update({"_1": const("self"), "_2": Ref("p_X")})
            outs = flow.run("bb0", stop_at=(), pre=pre, pc=P0.pc)
            need = sorted(set(children(sp)))
            own = []
            if sp[1] == "Call":
                own.append(z3.Bool("isproc_ty_" + tree.obj_keys[id(sp[2])]))
                if sp[2][2]["attr_name"][0] == "some":
                    own.append(z3.Bool("procname_" + tree.key("p_X", [("variant", "Call"), ("field", 0), ("field", structs["Call"].index("attr_name")), ("variant", "Some"), ("field", 0)])))
            npaths, missed, unreported = 0, set(), False
            for Q, end in outs:
                if end != "return" or check(Q.pc)[0] != "sat":
                    continue
                npaths += 1
                seen = {c[1][0] for c in Q.calls if c[0] == "VISIT"}
                missed |= set(need) - seen
                if own and not any(c[0] == "REPORT" for c in Q.calls):
                    if check(Q.pc + [z3.Not(z3.Bool("allowed")), z3.Or(own)])[0] == "sat":
                        unreported = True
            ob["queries"] = flow.queries + 2 * npaths
            ob["detail"] = {"paths": npaths, "children": need}
            if npaths == 0:
                ob.update(verdict=BROKEN, reason="no feasible path (vacuous encoding)")
            elif missed or unreported:
                what = []
                if missed:
                    what.append("never passes the child%s %s to check_expr" % ("ren" if len(missed) > 1 else "", ", ".join("`%s`" % x for x in sorted(missed))))
                if unreported:
                    what.append("does not report a procedure call made where effects are forbidden")
                ob["model"] = {"missed children": sorted(missed), "own effect unreported": unreported}
                ob.update(verdict=VIOLATED, reason="check_expr on a %s node %s: a function may perform that effect unnoticed" % (key, " and ".join(what)))
                pending.append((ob, key, sorted(missed), unreported, tmpl, tmpl_proc))
            else:
                ob.update(verdict=HELD, reason="on all %d paths every eagerly evaluated child (%s) is passed to check_expr%s" % (
                    npaths, ", ".join(need) or "none", "; a procedure call is reported whenever effects are not allowed" if own else ""))
            ob["solver_s"] = round(time.time() - t0, 2)
        except Unsupported as e:
            ob.update(verdict=INCONCLUSIVE, reason="unsupported-construct: " + str(e)[:200], solver_s=round(time.time() - t0, 2))
        rep.add(ob)
    rep.assumptions += sorted(used)
    rs = lambda p: '"%s"' % p.replace("\\", "\\\\").replace('"', '\\"').replace("\n", "\\n")
    cases = []
    progs = []
    for i, (ob, key, missed, unreported, tmpl, tmpl_proc) in enumerate(pending):
        t = tmpl_proc if (unreported and not missed and tmpl_proc) else tmpl
        if t is None:
            progs.append(None)
            continue
        holes = sorted(set(re.findall(r"«(\w+)»", t)))
        prog = fprogram(t, {h: (h in missed[:1]) for h in holes})
        progs.append(prog)
        cases.append(("v.%d" % i, "nerr(%s)" % rs(prog)))
    # controls: the same function with the effect in a child that *is* visited must be rejected by the real checker
    ctl = fprogram("x = «l» + «r»", {"l": True, "r": False})
    cases.append(("v.ctl", "nerr(%s)" % rs(ctl)))

    def finish(res):
        if res.get("v.ctl") != "effect-error":
            rep.add(Obligation(key="visits/control", verdict=BROKEN, reason="the control program (`x = p!() + 1` inside a function) was not rejected with an effect error by the real checker: %s" % res.get("v.ctl")))
        for i, (ob, key, missed, unreported, tmpl, tmpl_proc) in enumerate(pending):
            if progs[i] is None:
                ob["verdict"] = INCONCLUSIVE
                ob["reason"] = "no program form for this shape: the counterexample could not be replayed (%s)" % ob["reason"]
                continue
            got = res.get("v.%d" % i)
            rep.replayed += 1
            ob["native_replay"] = {"program": progs[i], "real front end + effect checker": got}
            if got != "accepted":
                ob["verdict"] = BROKEN
                ob["reason"] = "counterexample did not reproduce natively (%s): %s" % (got, ob["reason"])
        return [(ob, progs[i]) for i, (ob, *_r) in enumerate(pending) if ob["verdict"] == VIOLATED]
    return cases, finish


NERR_HELPER = r"""
    fn nerr(src: &str) -> String {
        let src = src.to_string();
        erg_common::spawn::exec_new_thread(move || {
            let mut b = crate::HIRBuilder::new(ErgConfig::default());
            match b.build(src, "exec") {
                Ok(_) => "accepted".to_string(),
                Err(art) => {
                    if art.errors.iter().any(|e| format!("{:?}", e.core.kind) == "HasEffect") { "effect-error".to_string() }
                    else { format!("other-error {:?}", art.errors.iter().map(|e| format!("{:?}", e.core.kind)).collect::<Vec<_>>()) }
                }
            }
        }, "nerr")
    }
"""



# ---------------------------------------------------------------------------------------------
# stage 3: the block kind check_def pushes for a definition

KIND_TABLE = {  # (procedural name, subroutine, constant) -> kind    (None: rejected earlier: "user-defined constant procedures are not allowed")
    (True, True, False): "Proc", (False, True, False): "Func", (False, True, True): "ConstFunc",
    (True, False, False): "Instant", (False, False, False): "Instant", (True, False, True): "ConstInstant", (False, False, True): "ConstInstant",
    (True, True, True): None,
}


def block_kinds(rep, fns_text, only, check):
    """returns [(obligation, program)] to replay"""
    fns = M.parse_mir(fns_text, want=["effectcheck::"])
    mains = [f for f in fns.values() if f.short == "check_def" and f.name.startswith("effectcheck::")]
    key = "block-kind/table"
    if only and not any(o in key for o in only.split(",")):
        return []
    ob = Obligation(dict(engine="mirsem (MIR -> z3 %s)" % z3.get_version_string(), solver="z3", functions=["SideEffectChecker::check_def"],
                         shape="a definition", symbolic=["the name is procedural (ends with !)", "it is a subroutine", "it is a constant"], bounds={}), key=key)
    rep.add(ob)
    if len(mains) != 1:
        ob.update(verdict=BROKEN, reason="check_def not found uniquely in the MIR dump (%d)" % len(mains))
        return []
    flags = {"is_procedural": z3.Bool("def_procedural"), "is_subr": z3.Bool("def_subr"), "is_const": z3.Bool("def_const")}

    def flag(flow, P, callee, args):
        return flow.mkbool(P, flags[callee.rsplit("::", 1)[-1]])

    def push_kind(flow, P, callee, args):
        P.calls.append(("KIND", [str(args[1])], None))
        return ("stop",)
    models_ = [(r"hir::Signature::(is_procedural|is_subr|is_const)$", flag), (r"^Vec::<effectcheck::BlockKind>::push$", push_kind)]
    try:
        flow = S.SemFlow(fns, mains[0], models_, {"Option": ["None", "Some"]})
        outs = flow.run("bb0", stop_at=(), pre={"_1": const("self"), "_2": const("def")}, pc=list(S.BASE_AXIOMS))
        wrong = []
        npaths = 0
        for Q, end in outs:
            if check(Q.pc)[0] != "sat":
                continue
            kinds_ = [c[1][0] for c in Q.calls if c[0] == "KIND"]
            if not kinds_:
                continue
            npaths += 1
            got = kinds_[0].rsplit("_", 1)[-1]
            for row, want in KIND_TABLE.items():
                pins = [flags["is_procedural"] == row[0], flags["is_subr"] == row[1], flags["is_const"] == row[2]]
                if check(Q.pc + pins)[0] == "sat" and want != got:
                    wrong.append((row, want, got))
        ob["queries"] = flow.queries + npaths * 9
        ob["detail"] = {"paths that push a kind": npaths}
        if npaths == 0:
            ob.update(verdict=BROKEN, reason="no path pushes a block kind (vacuous encoding)")
        elif wrong:
            row, want, got = wrong[0]
            ob["model"] = {"procedural name": row[0], "subroutine": row[1], "constant": row[2], "pushed": got, "expected": want}
            ob.update(verdict=VIOLATED, reason="a definition with (procedural name, subroutine, constant) = %s gets a %s block, expected %s" % (row, got, want))
            prog = None
            if row == (True, False, False):      # a `!`-named *variable* inside a function: its initialiser must not be allowed effects
                prog = T.PRELUDE + "g w =\n    q! =\n        print! w\n        print!\n    w\nprint! g 1\n"
            return [(ob, prog)]
        else:
            ob.update(verdict=HELD, reason="on all %d paths the kind pushed for a definition is the one the table of the property gives for its (procedural name, subroutine, constant) flags" % npaths)
    except Unsupported as e:
        ob.update(verdict=INCONCLUSIVE, reason="unsupported-construct: " + str(e)[:200])
    return []



# ---------------------------------------------------------------------------------------------
# stage 2b: reading a mutable variable defined outside the function (the Accessor arm of check_expr)

def mutable_read(rep, fns_text, s, only, check):
    """returns [(obligation, program)] to replay"""
    key = "visits/accessor/mutable-read"
    if only and not any(o in key for o in only.split(",")):
        return []
    hsrc = s.read("crates/erg_compiler/hir.rs")
    structs = {}
    for mm in re.finditer(r"pub struct (\w+)\s*\{(.*?)\n\}", hsrc, re.S):
        structs[mm.group(1)] = re.findall(r"^\s*(?:pub(?:\([^)]*\))?\s+)?(\w+)\s*:", mm.group(2), re.M)
    for mm in re.finditer(r"pub struct (\w+)\(([^;{]*)\);", hsrc):
        structs[mm.group(1)] = [str(i) for i in range(len([x for x in mm.group(2).split(",") if x.strip()]))]
    vidx = {e: M.rust_enum_variants(hsrc, e) for e in T.ENUMS}
    vidx["Option"] = ["None", "Some"]
    fns = M.parse_mir(fns_text, want=["effectcheck::"])
    mains = [f for f in fns.values() if f.short == "check_expr" and f.name.startswith("effectcheck::")]
    ob = Obligation(dict(engine="mirsem (MIR -> z3 %s)" % z3.get_version_string(), solver="z3", functions=["SideEffectChecker::check_expr"],
                         shape="a variable access (Expr::Accessor(Ident))",
                         symbolic=["effects allowed here", "the variable is a parameter", "its type is mutable", "it is not reached through a reference", "its defining namespace differs from the current one"],
                         bounds={}), key=key)
    rep.add(ob)
    if len(mains) != 1:
        ob.update(verdict=BROKEN, reason="check_expr not found uniquely (%d)" % len(mains))
        return []
    B = {n: z3.Bool("acc_" + n) for n in ("allowed", "param", "mut", "notref", "differs")}
    NS, FP = const("the_def_namespace"), const("the_full_path")
    seen = {}

    def mk(n):
        return lambda flow, P, callee, args: flow.mkbool(P, B[n])

    def def_ns(flow, P, callee, args):
        return flow.new_place(P, "pns", NS)

    def full_path(flow, P, callee, args):
        return FP

    def ne(flow, P, callee, args):
        a, b = flow.deref_all(P, args[0]), flow.deref_all(P, args[1])
        P.calls.append(("NSCMP", [a, b], None))
        return flow.mkbool(P, B["differs"])

    def report(flow, P, callee, args):
        P.calls.append(("REPORT", [], None))
        return const("err")

    def noop(flow, P, callee, args):
        return const("unit")
    models_ = [(r"::in_context_effects_allowed$", mk("allowed")), (r"VarInfo::is_parameter$", mk("param")), (r"Type::is_mut_type$", mk("mut")),
               (r"^Option::<&hir::Expr>::is_none_or::", mk("notref")), (r"VarInfo::def_namespace$", def_ns), (r"SideEffectChecker::<'_>::full_path$|SideEffectChecker::full_path$", full_path),
               (r"erg_common::Str as PartialEq<.*>>::ne$|erg_common::Str as PartialEq>::ne$", ne), (r"touch_mut_error$", report),
               (r"as (erg_common::traits::)?Stream<.*>>::push$|CompileErrors::push$", noop)]
    try:
        W = {"used": set(), "main": mains[0], "depth": 0}
        flow = S.SemFlow(fns, mains[0], models_ + T.models(W), vidx)
        P0 = S.Path()
        P0.pc = list(S.BASE_AXIOMS)
        tree = T.Tree(flow, structs, P0)
        tree.where, tree.obj_keys = {}, {}
        W["tree"] = tree
        sp = ("expr", "Accessor", ("enum", "Accessor", "Ident", ("opaque", "id")))
        P0.locals["p_X"] = tree.build(sp, "p_X", [])
        pre = dict(P0.locals)
        pre.update({"_1": const("self"), "_2": Ref("p_X")})
        outs = flow.run("bb0", stop_at=(), pre=pre, pc=P0.pc)
        want = z3.And(z3.Not(B["allowed"]), z3.Not(B["param"]), B["mut"], B["notref"], B["differs"])
        npaths, wrong_decision, wrong_cmp = 0, None, None
        for Q, end in outs:
            if end != "return" or check(Q.pc)[0] != "sat":
                continue
            npaths += 1
            rep_ = any(c[0] == "REPORT" for c in Q.calls)
            if check(Q.pc + [want != z3.BoolVal(rep_)])[0] == "sat":
                wrong_decision = rep_
            for c in Q.calls:
                if c[0] == "NSCMP":
                    a, b = c[1]
                    if not (z3.is_expr(a) and a.eq(NS) and z3.is_expr(b) and b.eq(FP)):
                        wrong_cmp = (str(a)[:60], str(b)[:60])
        ob["queries"] = flow.queries + 2 * npaths
        ob["detail"] = {"paths": npaths}
        prog = T.PRELUDE + "i = !0\nk = (x: Int) -> i + x\nprint! k 1\n"
        if npaths == 0:
            ob.update(verdict=BROKEN, reason="no feasible path (vacuous encoding)")
        elif wrong_cmp or wrong_decision is not None:
            why = []
            if wrong_cmp:
                why.append("the variable's defining namespace is not compared with the checker's current path itself (%s vs %s)" % wrong_cmp)
            if wrong_decision is not None:
                why.append("an access is %s although the five conditions say otherwise" % ("reported" if wrong_decision else "not reported"))
            ob.update(verdict=VIOLATED, reason="reading a mutable variable: " + "; ".join(why))
            return [(ob, prog)]
        else:
            ob.update(verdict=HELD, reason="on all %d paths an access is reported exactly when effects are forbidden here, the variable is no parameter, has a mutable type, is not reached through a "
                                           "reference and was defined in another namespace - and that namespace is compared with full_path() itself" % npaths)
    except Unsupported as e:
        ob.update(verdict=INCONCLUSIVE, reason="unsupported-construct: " + str(e)[:200])
    return []
