"""Shared decision procedure for C26 and C02: the Python runtime classes (lib/core/_erg_{int,nat,float,bool}.py) executed
symbolically by engines/py2smt.py.

For every operator and every pair of operand classes (concrete per obligation) the numeric values of the operands are
solver variables (unbounded Int, any binary64).  Reference: the same operator applied to the *underlying builtin values*
(plain int / float) — "compute the same values as the Python built-ins they wrap" — evaluated by the same primitive
models, so the comparison decides the wrappers' plumbing (which method runs, operand order, re-wrapping, conversions).

Assertion classes (role key <op>/(<A>,<B>)/<class>):
  value        C26  result value equals the builtin's (ints exactly, floats as the same IEEE value, same numeric kind)
  class        C26  result is an instance of the class the Erg declaration promises (table DECLARED below)
  nat-nonneg   C26  no Nat / NatMut instance with a negative value is produced
  raises       C02  no TypeError / AttributeError / NameError / ValueError / OverflowError escapes where the builtin
                    operation on the same values raises nothing (ZeroDivisionError must coincide with the builtin's)
Every violated obligation that is not a listed known finding is replayed with the real modules under the installed
interpreters before it is reported."""
import glob
import json
import os
import re

import z3

import py2smt as P
from common import (BROKEN, HELD, INCONCLUSIVE, VIOLATED, Obligation, Report, Scratch, extract_fn, log, sh, VERIF)

MODULES = ["_erg_control", "_erg_result", "_erg_type", "_erg_int", "_erg_nat", "_erg_float", "_erg_bool"]
CORE = "crates/erg_compiler/lib/core"
TOWER = ["Bool", "Nat", "Int", "Float"]
MUT_OF = {"IntMut": "Int", "NatMut": "Nat", "FloatMut": "Float", "BoolMut": "Bool"}
BIN_OPS = ["add", "sub", "mul", "floordiv", "truediv", "mod", "pow"]
CMP_OPS = ["eq", "ne", "lt", "le", "gt", "ge"]
PYSYM = {"add": "+", "sub": "-", "mul": "*", "floordiv": "//", "truediv": "/", "mod": "%", "pow": "**",
         "eq": "==", "ne": "!=", "lt": "<", "le": "<=", "gt": ">", "ge": ">=", "neg": "-", "pos": "+", "abs": "abs"}
TWO53 = 2 ** 53

# Declared result classes, derived from crates/erg_compiler/context/initialize/classes.rs; each row names the text it
# was read from (re-grepped on every run: if a line is gone the rows depending on it become inconclusive).
DECL_LINES = {
    "nat_closed": "let op_t = fn1_met(Nat, Nat, Nat);",
    "nat_sub": "let op_t_ = fn1_met(Nat, Nat, Int);",
    "nat_div": "fn1_met(Nat, Nat, Float),",
    "int_closed": "let op_t = fn1_met(Int, Int, Int);",
    "int_div": "fn1_met(Int, Int, Float),",
}


def join(a, b):
    return TOWER[max(TOWER.index(a), TOWER.index(b))]


def declared(op, A, B):
    """declared result class for immutable operand classes (None = not declared / not checked)"""
    j = join(A, B) if B else A
    if op in ("add", "mul"):
        return ("Nat" if j == "Bool" else j), ("nat_closed" if j in ("Bool", "Nat") else "int_closed" if j == "Int" else None)
    if op == "sub":
        return ("Int" if j in ("Bool", "Nat") else j), ("nat_sub" if j in ("Bool", "Nat") else "int_closed" if j == "Int" else None)
    if op in ("floordiv", "mod"):
        return ("Nat" if j == "Bool" else j), ("nat_closed" if j in ("Bool", "Nat") else "int_closed" if j == "Int" else None)
    if op == "truediv":
        return "Float", ("nat_div" if j in ("Bool", "Nat") else "int_div" if j == "Int" else None)
    if op == "pow":
        if j == "Float":
            return "Float", None
        if B in ("Nat", "Bool"):
            return ("Nat" if A in ("Nat", "Bool") else "Int"), None
        return None, None
    if op == "neg":
        return ("Int" if A in ("Bool", "Nat") else A), None
    if op in ("pos", "abs"):
        return ("Nat" if (op == "abs" and A == "Int") else A), None
    return None, None


class Maker:
    def __init__(self):
        self.n = 0

    def value(self, cls, name, bounded=False):
        """(symbolic value, assumptions, description of the variable)"""
        if cls in ("int", "Int"):
            t = z3.Int(name)
            return P.VInt(cls, t), ([t >= -TWO53, t <= TWO53] if bounded else []), t
        if cls == "Nat":
            t = z3.Int(name)
            return P.VInt(cls, t), [t >= 0] + ([t <= TWO53] if bounded else []), t
        if cls == "Bool":
            t = z3.Int(name)
            return P.VInt(cls, t), [t >= 0, t <= 1], t
        if cls in ("float", "Float"):
            t = z3.FP(name, P.FP)
            return P.VFloat(cls, t), [], t
        if cls in MUT_OF:
            inner, c, t = self.value(MUT_OF[cls], name, bounded)
            o = P.VObj(cls)
            o.attrs["value"] = inner
            return o, c, t
        raise ValueError(cls)


def underlying(v):
    """the builtin value a wrapper instance wraps"""
    if isinstance(v, P.VObj) and "value" in v.attrs:
        return underlying(v.attrs["value"])
    if isinstance(v, P.VInt):
        return P.VInt("int", v.t)
    if isinstance(v, P.VFloat):
        return P.VFloat("float", v.t)
    return v


def lemmas(terms):
    """true facts about the uninterpreted primitives, instantiated for the terms that occur (listed in the evidence)"""
    out = []
    seen = set()

    def walk(t):
        if t.get_id() in seen:
            return
        seen.add(t.get_id())
        for c in t.children():
            walk(c)
        if z3.is_app(t):
            n = t.decl().name()
            if n == "py_int_to_float":
                x = t.arg(0)
                out.append(z3.Not(z3.fpIsNaN(t)))
                out.append(z3.Implies(z3.And(x >= -TWO53, x <= TWO53), z3.Not(z3.fpIsInf(t))))
                out.append(z3.Implies(x == 0, z3.And(z3.fpIsZero(t), z3.fpIsPositive(t))))
                out.append(z3.Implies(x > 0, z3.And(z3.fpIsPositive(t), z3.Not(z3.fpIsZero(t)))))
                out.append(z3.Implies(x < 0, z3.And(z3.fpIsNegative(t), z3.Not(z3.fpIsZero(t)))))
                for k in range(-4, 5):      # exact on small constants, so that models over small ints replay natively
                    out.append(z3.Implies(x == k, t == z3.FPVal(float(k), P.FP)))
            elif n == "py_int_truediv":
                x, y = t.arg(0), t.arg(1)
                out.append(z3.Not(z3.fpIsNaN(t)))
                out.append(z3.Implies(z3.And(x >= -TWO53, x <= TWO53, y != 0), z3.Not(z3.fpIsInf(t))))
                out.append(z3.Implies(z3.And(x >= 0, y > 0), z3.fpIsPositive(t)))
                out.append(z3.Implies(z3.And(x <= 0, y < 0), z3.fpIsPositive(t)))
                for kx in range(-3, 4):
                    for ky in (-3, -2, -1, 1, 2, 3):
                        out.append(z3.Implies(z3.And(x == kx, y == ky), t == z3.FPVal(kx / ky, P.FP)))
            elif n == "py_float_trunc":
                f = t.arg(0)
                zero = z3.FPVal(0.0, P.FP)
                out.append(z3.Implies(z3.fpGEQ(f, zero), t >= 0))
                out.append(z3.Implies(z3.fpLEQ(f, zero), t <= 0))
                for k in range(-4, 5):
                    out.append(z3.Implies(f == z3.FPVal(float(k), P.FP), t == k))
                    out.append(z3.Implies(f == z3.FPVal(k + 0.5, P.FP), t == (k if k >= 0 else k + 1)))
            elif n == "py_int_pow":
                x, y = t.arg(0), t.arg(1)
                out.append(z3.Implies(z3.And(x >= 0, y >= 0), t >= 0))
                out.append(z3.Implies(y == 0, t == 1))
                out.append(z3.Implies(y == 1, t == x))
                out.append(z3.Implies(y == 2, t == x * x))
                out.append(z3.Implies(y == 3, t == x * x * x))
    for t in terms:
        walk(t)
    return out


def terms_of(v, acc):
    if isinstance(v, (P.VInt, P.VFloat)):
        acc.append(v.t)
    elif isinstance(v, P.VObj):
        for x in v.attrs.values():
            terms_of(x, acc)
    elif isinstance(v, P.VStr) and v.length is not None:
        acc.append(v.length)


class Decider:
    def __init__(self, rep, scratch, tier):
        self.rep, self.s, self.tier = rep, scratch, tier
        self.src = {m: scratch.read("%s/%s.py" % (CORE, m)) for m in MODULES}
        for m, t in self.src.items():
            rep.add_function(m + ".py", "%s/%s.py" % (CORE, m), t)
        self.I = P.Interp(self.src)
        self.mk = Maker()
        ctxt = scratch.read("crates/erg_compiler/context/initialize/classes.rs")
        self.decl_ok = {k: (line in ctxt) for k, line in DECL_LINES.items()}
        self.to_replay = []

    # one exploration: implementation paths x reference paths
    def explore_pair(self, thunk, ref_thunk, assume):
        I = self.I
        I.base_extra = []
        impl = I.explore(thunk, assume)
        ref = I.explore(ref_thunk, assume) if ref_thunk else None
        extra = list(I.base_extra)
        return impl, ref, extra

    def sat(self, conds):
        terms = []
        for c in conds:
            terms.append(c)
        lem = lemmas(terms)
        self.I.base = []
        self.I.pc = []
        r, m = self.I.check(list(conds) + lem)
        return r, m

    def decide_op(self, op, A, B, kind):
        """kind: 'bin' | 'cmp' | 'unary'"""
        rep, I = self.rep, self.I
        mixed_float = ("Float" in (A, B, MUT_OF.get(A), MUT_OF.get(B))) and not (
            (A in ("Float", "FloatMut")) and (B in ("Float", "FloatMut", None)))
        bounded = mixed_float or op in ("truediv", "pow")
        a, ca, ta = self.mk.value(A, "a", bounded)
        if B:
            b, cb, tb = self.mk.value(B, "b", bounded)
        else:
            b, cb, tb = None, [], None
        assume = ca + cb
        role = "%s/(%s%s)" % (op, A, "," + B if B else "")
        if kind == "bin":
            thunk = lambda: I.binop(a, b, op)
            refth = lambda: I.binop(underlying(a), underlying(b), op)
        elif kind == "cmp":
            import ast as _ast
            node = {"eq": _ast.Eq, "ne": _ast.NotEq, "lt": _ast.Lt, "le": _ast.LtE, "gt": _ast.Gt, "ge": _ast.GtE}[op]
            thunk = lambda: I.compare(a, b, node)
            refth = lambda: I.compare(underlying(a), underlying(b), node)
        else:
            import ast as _ast
            if op == "abs":
                thunk = lambda: P.g_abs(I, [a])
                refth = lambda: P.g_abs(I, [underlying(a)])
            else:
                node = {"neg": _ast.USub, "pos": _ast.UAdd}[op]
                thunk = lambda: I.unary(a, node)
                refth = lambda: I.unary(underlying(a), node)
        base = dict(engine="py2smt (ast -> z3 %s)" % z3.get_version_string(), functions=["%s.%s" % (A, "__%s__" % op)],
                    shape="%s %s %s" % (A, PYSYM[op], B or ""),
                    symbolic=["a: value of a %s (%s)" % (A, "binary64" if "Float" in A else ("|a| <= 2^53" if bounded else "unbounded int"))] +
                             (["b: value of a %s" % B] if B else []),
                    bounds={"int_operands_bounded_to_2^53": bounded}, solver="z3")
        q0, s0 = I.queries, I.solver_s
        try:
            impl, ref, extra = self.explore_pair(thunk, refth, assume)
        except P.Unsupported as e:
            for cls in ("value", "class", "nat-nonneg", "raises"):
                rep.add(Obligation(base, key="%s/%s" % (role, cls), verdict=INCONCLUSIVE, reason="unsupported-construct: %s" % e))
            return
        except RecursionError:
            for cls in ("value", "class", "nat-nonneg", "raises"):
                rep.add(Obligation(base, key="%s/%s" % (role, cls), verdict=INCONCLUSIVE, reason="recursion limit in the interpreter"))
            return
        found = {}
        unknown = []
        reach = 0
        decl, decl_src = (declared(op, MUT_OF.get(A, A), MUT_OF.get(B, B) if B else None) if kind != "cmp" else ("bool", None))
        is_mut = A in MUT_OF

        small = [z3.And(t >= -3, t <= 3) for t in (ta, tb) if t is not None and z3.is_int(t)]

        def witness(cls, why, conds):
            r, m = ("unsat", None)
            if small:       # prefer a model over small ints, where the conversion lemmas are exact and the model replays natively
                r, m = self.sat(conds + small)
            if r != "sat":
                r, m = self.sat(conds)
            if r == "sat":
                found.setdefault(cls, (why, m))
            elif r != "unsat":
                unknown.append(cls)

        for pci, outi, _ in impl:
            r, _m = self.sat(assume + extra + pci)
            if r != "sat":
                continue
            reach += 1
            # class / nat-nonneg on the implementation's own outcome
            if outi[0] == "value":
                v = outi[1]
                inner = v.attrs.get("value") if isinstance(v, P.VObj) else v
                for x in (v, inner):
                    if isinstance(x, P.VInt) and not isinstance(x, P.VBool) and I.issub(x.cls, "Nat"):
                        witness("nat-nonneg", "a %s instance with a negative value is produced" % x.cls, assume + extra + pci + [x.t < 0])
                if decl and kind != "cmp":
                    # "an instance of the class the declaration promises": the declared wrapper class or the builtin type it
                    # wraps (compiled code dispatches methods of builtin-typed values statically, so a plain float where
                    # Float is promised is not observable; the numeric kind and Nat's invariant are) — see DESIGN.md C26
                    want_float = decl == "Float"
                    res = inner if isinstance(v, P.VObj) else v
                    if want_float:
                        okc = isinstance(res, P.VFloat)
                    else:
                        okc = isinstance(res, P.VInt)
                    if isinstance(v, P.VObj) and v.cls in MUT_OF and res is not None:
                        # a mutable wrapper must wrap a value of its own kind
                        okc = okc and (isinstance(res, P.VFloat) == (MUT_OF[v.cls] == "Float"))
                    if not okc:
                        found.setdefault("class", ("result is a %s%s, the declaration promises %s" % (
                            getattr(v, "cls", type(v).__name__), (" wrapping a " + getattr(res, "cls", "?")) if isinstance(v, P.VObj) else "", decl), _m))
                    elif decl in ("Nat", "Bool") and isinstance(res, P.VInt):
                        witness("class", "result declared %s is negative" % decl, assume + extra + pci + [res.t < 0])
                if kind == "cmp" and not isinstance(v, P.VBool):
                    found.setdefault("class", ("comparison result is not a bool: %r" % (v,), _m))
            for pcr, outr, _ in ref:
                conds = assume + extra + pci + pcr
                r2, m2 = self.sat(conds)
                if r2 != "sat":
                    continue
                if outi[0] == "raise":
                    e = outi[1]
                    if outr[0] == "raise" and outr[1].cls == e.cls:
                        continue
                    found.setdefault("raises", ("%s%s raised where the builtin operation %s" % (e.cls, (": " + e.msg) if e.msg else "",
                                                "returns a value" if outr[0] == "value" else "raises " + outr[1].cls), m2))
                    continue
                if outr[0] == "raise":
                    found.setdefault("value", ("a value is returned where the builtin operation raises " + outr[1].cls, m2))
                    continue
                vi, vr = underlying(outi[1]), underlying(outr[1])
                if isinstance(vi, P.VFloat) != isinstance(vr, P.VFloat) or isinstance(vi, P.VInt) != isinstance(vr, P.VInt):
                    found.setdefault("value", ("result is %s where the builtin gives %s" % (type(vi).__name__[1:], type(vr).__name__[1:]), m2))
                    continue
                if isinstance(vi, (P.VInt, P.VFloat)):
                    witness("value", "value differs from the builtin's", conds + [vi.t != vr.t])
                elif vi is not vr:
                    found.setdefault("value", ("result %r where the builtin gives %r" % (vi, vr), m2))
        qn, qs = I.queries - q0, round(I.solver_s - s0, 3)
        if reach == 0:
            rep.add(Obligation(base, key=role + "/*", verdict=BROKEN, reason="no implementation path is reachable (vacuous)"))
            return
        for cls in ("value", "class", "nat-nonneg", "raises"):
            if cls == "class" and (not decl or (decl_src and not self.decl_ok.get(decl_src, True))):
                if decl_src and not self.decl_ok.get(decl_src, True):
                    rep.add(Obligation(base, key="%s/class" % role, verdict=INCONCLUSIVE,
                                       reason="the declaration line this row was derived from is no longer in classes.rs: " + DECL_LINES[decl_src]))
                continue
            if cls in found:
                why, m = found[cls]
                mv = self.model_values(m, A, B, ta, tb)
                o = Obligation(base, key="%s/%s" % (role, cls), verdict=VIOLATED, model=mv, queries=qn, solver_s=qs,
                               reason="%s, e.g. %s" % (why, self.show(op, A, B, mv)))
                o["replay_expr"] = (op, kind, A, B, mv, cls, decl)
                rep.add(o)
            elif cls in unknown:
                rep.add(Obligation(base, key="%s/%s" % (role, cls), verdict=INCONCLUSIVE, reason="solver unknown", queries=qn, solver_s=qs))
            else:
                rep.add(Obligation(base, key="%s/%s" % (role, cls), verdict=HELD, queries=qn, solver_s=qs,
                                   reason={"value": "every result equals the builtin's on all %d implementation paths" % reach,
                                           "class": "every result is an instance of %s" % decl,
                                           "nat-nonneg": "no negative Nat is produced",
                                           "raises": "only the exceptions the builtin operation raises"}[cls],
                                   vacuity={"impl_paths_reachable": reach, "ref_paths": len(ref)}))

    @staticmethod
    def model_values(m, A, B, ta, tb):
        def val(t, cls):
            if t is None:
                return None
            v = m.eval(t, model_completion=True)
            if z3.is_int_value(v):
                return v.as_long()
            if z3.is_fp(v):
                # bit pattern
                bv = m.eval(z3.fpToIEEEBV(t), model_completion=True)
                return {"f64_bits": bv.as_long()}
            return str(v)
        return {"a": val(ta, A), "b": val(tb, B)}

    @staticmethod
    def show(op, A, B, mv):
        def lit(cls, v):
            if isinstance(v, dict):
                import struct
                f = struct.unpack("<d", struct.pack("<Q", v["f64_bits"]))[0]
                return "%s(%r)" % (cls, f)
            return "%s(%s)" % (cls, v)
        if B:
            return "%s %s %s" % (lit(A, mv["a"]), PYSYM[op], lit(B, mv["b"]))
        return "%s %s" % (PYSYM[op], lit(A, mv["a"]))


REPLAY_PY = r'''
import sys, json, struct, operator
sys.path.insert(0, sys.argv[1])
from _erg_int import Int, IntMut
from _erg_nat import Nat, NatMut
from _erg_float import Float, FloatMut
from _erg_bool import Bool, BoolMut
CLS = {"Int": Int, "Nat": Nat, "Float": Float, "Bool": Bool, "IntMut": IntMut, "NatMut": NatMut, "FloatMut": FloatMut, "BoolMut": BoolMut,
       "int": int, "float": float, "bool": bool}
BASE = {"Int": int, "Nat": int, "Bool": bool, "Float": float, "IntMut": int, "NatMut": int, "FloatMut": float, "BoolMut": bool}
OPS = {"add": operator.add, "sub": operator.sub, "mul": operator.mul, "floordiv": operator.floordiv, "truediv": operator.truediv,
       "mod": operator.mod, "pow": operator.pow, "eq": operator.eq, "ne": operator.ne, "lt": operator.lt, "le": operator.le,
       "gt": operator.gt, "ge": operator.ge, "neg": operator.neg, "pos": operator.pos, "abs": abs}
def raw(cls, v):
    if isinstance(v, dict):
        return struct.unpack("<d", struct.pack("<Q", v["f64_bits"]))[0]
    return BASE[cls](v)
def mk(cls, v):
    r = raw(cls, v)
    if cls.endswith("Mut"):
        inner = CLS[cls[:-3]](r)
        return CLS[cls](inner)
    return CLS[cls](r)
def under(x):
    while hasattr(x, "value") and not isinstance(x, (int, float)):
        x = x.value
    if isinstance(x, bool): return bool(x)
    if isinstance(x, int): return int(x)
    if isinstance(x, float): return float(x)
    return x
def same(x, y):
    if isinstance(x, float) and isinstance(y, float):
        return struct.pack("<d", x) == struct.pack("<d", y) or (x != x and y != y)
    return type(x) == type(y) and x == y
out = []
for case in json.load(open(sys.argv[2])):
    op, kind, A, B, mv, cls, decl = case["expr"]
    res = {"key": case["key"]}
    try:
        a = mk(A, mv["a"]); b = mk(B, mv["b"]) if B else None
        args = (a, b) if B else (a,)
        rargs = (raw(A, mv["a"]), raw(B, mv["b"])) if B else (raw(A, mv["a"]),)
        try:
            got = OPS[op](*args); gexc = None
        except Exception as e:
            got = None; gexc = type(e).__name__
        try:
            want = OPS[op](*rargs); wexc = None
        except Exception as e:
            want = None; wexc = type(e).__name__
        res.update(got=repr(got), got_type=type(got).__name__, got_exc=gexc, want=repr(want), want_exc=wexc)
        if cls == "raises":
            res["reproduced"] = gexc is not None and gexc != wexc
        elif cls == "value":
            res["reproduced"] = (gexc is None and wexc is not None) or (gexc is None and wexc is None and not same(under(got), want))
        elif cls == "class":
            if kind == "cmp":
                res["reproduced"] = gexc is None and not isinstance(got, bool)
            else:
                d = CLS[decl]
                if A.endswith("Mut"):
                    ok = (hasattr(got, "value") and isinstance(got.value, d)) or isinstance(got, d)
                else:
                    ok = isinstance(got, d)
                res["reproduced"] = gexc is None and not ok
        elif cls == "nat-nonneg":
            res["reproduced"] = gexc is None and isinstance(under(got), int) and (isinstance(got, (Nat, NatMut))) and under(got) < 0
    except Exception as e:
        res["error"] = repr(e)
        res["reproduced"] = None
    out.append(res)
print("PYRT-REPLAY " + json.dumps(out))
'''


def pythons():
    out = []
    for v in (11, 7):
        p = sorted(glob.glob("/root/.pyenv/versions/3.%d.*/bin/python" % v))
        if p:
            out.append(p[-1])
    return out or ["python3"]


def replay(rep, scratch, props_filter=None):
    """native replay of unlisted violated obligations (and of everything with VERIF_REPLAY_KNOWN=1 / thorough)"""
    todo = []
    all_known = os.environ.get("VERIF_REPLAY_KNOWN") == "1" or rep.tier == "thorough"
    for o in rep.obls:
        if o.get("verdict") == VIOLATED and "replay_expr" in o:
            if all_known or not rep.known.lookup(rep.prop, o["key"]):
                todo.append(o)
    if todo:
        d = os.path.join(scratch.root, "pyreplay")
        os.makedirs(d, exist_ok=True)
        with open(os.path.join(d, "replay.py"), "w") as f:
            f.write(REPLAY_PY)
        with open(os.path.join(d, "cases.json"), "w") as f:
            json.dump([{"key": o["key"], "expr": list(o["replay_expr"])} for o in todo], f)
        results = {}
        for py in pythons()[:1 if rep.tier == "quick" else 2]:
            rc, out, _ = sh([py, os.path.join(d, "replay.py"), scratch.path(CORE), os.path.join(d, "cases.json")], timeout=300)
            m = re.search(r"PYRT-REPLAY (.*)", out)
            if not m:
                log("python replay failed under %s: %s" % (py, out[-800:]))
                continue
            for r in json.loads(m.group(1)):
                results.setdefault(r["key"], []).append((py, r))
        for o in todo:
            rs = results.get(o["key"], [])
            rep.replayed += 1
            o["native_replay"] = [{"python": py, **r} for py, r in rs]
            if not rs:
                o["replay_note"] = "native replay unavailable"
                continue
            if not any(r.get("reproduced") for _, r in rs):
                o["verdict"] = BROKEN
                o["reason"] = "counterexample did not reproduce with the real modules: " + o.get("reason", "")
            else:
                rd = os.path.join(VERIF, "replays", rep.prop)
                os.makedirs(rd, exist_ok=True)
                import hashlib
                rp = os.path.join(rd, hashlib.sha256(o["key"].encode()).hexdigest()[:10] + ".json")
                with open(rp, "w") as f:
                    json.dump({"key": o["key"], "expr": list(o["replay_expr"]), "native": o["native_replay"], "reason": o["reason"]}, f, indent=1, default=str)
                o["replay"] = rp
    for o in rep.obls:
        o.pop("replay_expr", None)


def pairs(tier):
    imm = ["Nat", "Int", "Float", "Bool"]
    out = []
    for A in imm:
        for B in imm:
            for op in BIN_OPS:
                if op == "pow" and not (B in ("Nat", "Bool") or "Float" in (A, B)):
                    continue
                out.append((op, A, B, "bin"))
            for op in CMP_OPS:
                out.append((op, A, B, "cmp"))
        for op in ("neg", "pos", "abs"):
            out.append((op, A, None, "unary"))
    muts = [("IntMut", ["Int", "Nat", "IntMut", "NatMut"]), ("NatMut", ["Nat", "NatMut", "Int"]), ("FloatMut", ["Float", "FloatMut", "Int", "Nat"])]
    for A, Bs in muts:
        for B in Bs:
            for op in BIN_OPS:
                if op == "pow" and MUT_OF.get(B, B) not in ("Nat",) and "Float" not in A:
                    continue
                if op == "mod" and tier == "quick":
                    pass
                out.append((op, A, B, "bin"))
            for op in CMP_OPS:
                out.append((op, A, B, "cmp"))
        out.append(("neg", A, None, "unary"))
        out.append(("pos", A, None, "unary"))
    # reflected: immutable on the left, mutable on the right
    for A, B in (("Int", "IntMut"), ("Nat", "NatMut"), ("Float", "FloatMut"), ("Int", "NatMut")):
        for op in ("add", "sub", "mul"):
            out.append((op, A, B, "bin"))
        for op in ("eq", "lt"):
            out.append((op, A, B, "cmp"))
    return out


def run_for(prop, tier, seed, only, classes, explanation):
    rep = Report(prop, tier, seed, "other", explanation, partial=bool(only))
    s = Scratch(prop.lower())
    try:
        D = Decider(rep, s, tier)
        ps = pairs(tier)
        if only:
            ps = [p for p in ps if only in "%s/(%s%s)" % (p[0], p[1], "," + p[2] if p[2] else "")]
        for op, A, B, kind in ps:
            D.decide_op(op, A, B, kind)
        # keep only this property's assertion classes
        rep.obls = [o for o in rep.obls if o["key"].rsplit("/", 1)[-1] in classes or o["key"].endswith("/*")]
        if prop == "C02":
            # C02 speaks about programs the type checker accepts: `%` and `**` with a mutable cell on the left are
            # rejected by the checker ("the type of `%`::lhs is mismatched"; confirmed with the built compiler), so those
            # operand pairs are not in its domain
            rep.obls = [o for o in rep.obls if not (o["key"].split("/")[0] in ("mod", "pow") and o["key"].split("/")[1].startswith(("(IntMut", "(NatMut", "(FloatMut")))]
        replay(rep, s)
        rep.trusted += ["engines/py2smt.py (Python data-model dispatch and the int/float primitive models)", "z3 " + z3.get_version_string(),
                        "the declared-result table in props/pyrt.py (derived from context/initialize/classes.rs, lines re-checked on every run)"]
        rep.assumptions += [
            "operand classes are concrete per obligation; Nat/NatMut operands satisfy their invariant (value >= 0); Bool operands are 0 or 1",
            "int->float conversion, int true division, float // % **, int ** and float->int truncation are uninterpreted functions "
            "constrained by sign/finiteness lemmas (props/pyrt.py lemmas()); implementation and reference share them, so equality decides operand order and plumbing, not the arithmetic of the primitive itself",
            "int operands are bounded to |x| <= 2^53 wherever a float conversion or true division is involved",
            "Str, List, Dict, Set, Range, Bytes wrappers, `times`, hashing, `update(f)` (higher-order) are outside the claim",
        ]
        rep.extra["interp_queries"] = D.I.queries
        return rep.finish()
    finally:
        s.cleanup()
