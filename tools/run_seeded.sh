#!/bin/bash
# usage: run_seeded.sh <seed name> <check id>...   — applies seeded/<name>/patch.diff to /repo, runs the checks (quick), reverts.
# Evidence of these runs goes to evidence/<id>.mutant-<name>.partial.json (git-ignored); the committed evidence is untouched.
name="$1"; shift
# one user of /repo's working tree at a time (evidence sweeps take the same lock)
mkdir -p /var/tmp/probe; exec 9>/var/tmp/probe/repo.lock; flock 9
cd /repo || exit 2
if ! git diff --quiet; then echo "/repo has local changes; refusing"; exit 2; fi
git apply "/verif/seeded/$name/patch.diff" || { echo "patch does not apply"; exit 2; }
trap 'git -C /repo checkout -- .' EXIT
cd /verif
for c in "$@"; do
  echo "== $name vs $c"
  VERIF_MUTANT="$name" timeout 3400 ./check "$c" --tier quick > "/var/tmp/probe/seed_${name}_${c}.log" 2>&1
  echo "rc=$?"
  grep -E "^VIOLATION|^  obligation=|^SUMMARY|^ENCODING|^MACHINERY" "/var/tmp/probe/seed_${name}_${c}.log" | head -8 | cut -c1-220
done
