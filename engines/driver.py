import argparse
import importlib
import json
import os
import sys
import traceback

from common import VERIF, log


def main():
    ap = argparse.ArgumentParser()
    ap.add_argument("prop")
    ap.add_argument("--tier", default=os.environ.get("VERIF_TIER") or "quick", choices=["quick", "thorough"])
    ap.add_argument("--replay", default=None)
    ap.add_argument("--only", default=None, help="substring filter on obligation/harness names (debugging)")
    a = ap.parse_args()
    seed = int(os.environ.get("VERIF_SEED", "0") or 0)
    mod = importlib.import_module(a.prop.lower())
    if a.replay:
        with open(a.replay) as f:
            print(json.dumps(json.load(f), indent=1))
        if hasattr(mod, "replay"):
            return mod.replay(a.replay)
        return 0
    try:
        return mod.run(a.tier, seed, a.only)
    except Exception:
        traceback.print_exc()
        log("MACHINERY-ERROR property=%s (exception in the check itself)" % a.prop)
        return 2


if __name__ == "__main__":
    sys.exit(main())
