"""C02 — type-checked programs do not fail with run-time type errors (kernel-level: the runtime numeric wrappers)."""
import pyrt


def run(tier, seed, only=None):
    return pyrt.run_for("C02", tier, seed, only, ("raises",),
                        "Kernel-level partial claim: for every operator and every pair of numeric operand classes the type checker accepts, "
                        "symbolic execution (py2smt: ast -> z3) of the real lib/core wrappers shows that no TypeError, AttributeError, NameError, "
                        "ValueError or OverflowError can escape for any operand values, ZeroDivisionError excepted where the builtin raises it too. "
                        "The type checker itself, user functions, method calls and Str/List operations are outside the claim.")
