"""C12, stage 2 — the guard of dead-definition elimination.

`HIROptimizer::eliminate_unused_def` may replace a definition by a no-op only when nothing refers to it and the purity test
calls it pure (and it is neither a glob, a discarded `_`, nor public).  Stage 1 decides the purity test; this stage decides the
guard itself on the function's rustc MIR (engine mirsem): the answers of `is_glob`, `is_discarded`, `is_public`,
`referrers.is_empty()` and `is_pure` are solver booleans, the expression is a `Def` node; on every path that ends with the
expression overwritten by `Expr::Dummy`, z3 shows that the path condition implies all five conditions.  A violation is replayed
end to end on a small battery of programs run at -o 0 .. -o 3."""
import os
import re
import time

import z3

import mir2smt as M
import mirsem as S
from common import (BROKEN, HELD, INCONCLUSIVE, VIOLATED, Obligation, extract_fn, log, sh)
from mirflow import DISC, Ref, Unsupported, const

BATTERY = [
    ("same-line definition and use", "greet name = \"hello, \\{name}\"; print! greet \"erg\"\nprint! \"end\"\n"),
    ("referenced definition", "x = 1 + 2\nprint! x\nprint! \"end\"\n"),
    ("recursive function used once", "fact n: Nat =\n    if n == 0, do 1, do n * fact(n - 1)\nprint! fact 3\nprint! \"end\"\n"),
    ("definition referenced from a later function", "k = 10\nf x = x + k\nprint! f 1\nprint! \"end\"\n"),
]


def stage(rep, s, text, only):
    key = "eliminate/only-unreferenced-and-pure"
    if only and not any(o in key for o in only.split(",")):
        return []
    osrc = s.read("crates/erg_compiler/optimize.rs")
    rep.add_function("HIROptimizer::eliminate_unused_def", "crates/erg_compiler/optimize.rs", extract_fn(osrc, "eliminate_unused_def"))
    ob = Obligation(dict(engine="mirsem (MIR -> z3 %s)" % z3.get_version_string(), solver="z3", functions=["HIROptimizer::eliminate_unused_def"],
                         shape="a Def node", symbolic=["is_glob, is_discarded, is_public, referrers.is_empty(), is_pure (solver booleans)"], bounds={}), key=key)
    rep.add(ob)
    fns = M.parse_mir(text, want=["::eliminate_unused_def"])
    mains = [f for f in fns.values() if f.short == "eliminate_unused_def"]
    if len(mains) != 1:
        ob.update(verdict=BROKEN, reason="eliminate_unused_def not found uniquely in the MIR dump (%d)" % len(mains))
        return []
    flags = {n: z3.Bool("elim_" + n) for n in ("is_glob", "is_discarded", "is_public", "is_empty", "is_pure")}

    def flag(flow, P, callee, args):
        return flow.mkbool(P, flags[callee.rsplit("::", 1)[-1]])
    models = [(r"Signature::is_glob$|Identifier::is_discarded$|VisibilityModifier::is_public$|set::Set::<.*>::is_empty$|SideEffectChecker::<'_>::is_pure$|SideEffectChecker::is_pure$", flag)]
    hsrc = s.read("crates/erg_compiler/hir.rs")
    variants = M.rust_enum_variants(hsrc, "Expr")
    try:
        flow = S.SemFlow(fns, mains[0], models, {"Expr": variants, "Option": ["None", "Some"]})
        pre = {"p_X": ("agg", "hir::Expr::Def", [const("the_def")]), "_1": const("optimizer"), "_2": Ref("p_X", (), True)}
        outs = flow.run("bb0", stop_at=(), pre=pre, pc=list(S.BASE_AXIOMS))
        solver = z3.Solver()
        need = z3.And(z3.Not(flags["is_glob"]), z3.Not(flags["is_discarded"]), z3.Not(flags["is_public"]), flags["is_empty"], flags["is_pure"])
        npaths, drops, bad = 0, 0, None
        for Q, end in outs:
            if end != "return":
                continue
            solver.push()
            solver.add(*Q.pc)
            if solver.check() != z3.sat:
                solver.pop()
                continue
            npaths += 1
            v = Q.locals.get("p_X")
            dropped = isinstance(v, tuple) and v[0] == "agg" and v[1].endswith("Dummy")
            if dropped:
                drops += 1
                solver.add(z3.Not(need))
                if solver.check() == z3.sat:
                    m = solver.model()
                    bad = {n: z3.is_true(m.eval(b, model_completion=True)) for n, b in flags.items()}
            solver.pop()
        ob["queries"] = flow.queries + 2 * npaths
        ob["detail"] = {"paths": npaths, "paths that drop the definition": drops}
        if npaths == 0 or drops == 0:
            ob.update(verdict=BROKEN, reason="no path drops a definition (vacuous encoding): %d paths" % npaths)
        elif bad:
            ob["model"] = bad
            ob.update(verdict=VIOLATED, reason="a definition can be dropped although %s" % ", ".join(
                w for w, c in (("it is referenced", not bad["is_empty"]), ("it is not pure", not bad["is_pure"]), ("it is public", bad["is_public"]),
                               ("it is a glob", bad["is_glob"]), ("it is `_`", bad["is_discarded"])) if c))
            return [ob]
        else:
            ob.update(verdict=HELD, reason="on all %d paths that overwrite the definition with a no-op, it is unreferenced, pure, and neither public, a glob nor `_` (of %d paths)" % (drops, npaths))
    except Unsupported as e:
        ob.update(verdict=INCONCLUSIVE, reason="unsupported-construct: " + str(e)[:200])
    return []


def e2e(s, exe, viol):
    """the battery at -o 0..3; any difference confirms"""
    diff = {}
    for name, prog in BATTERY:
        f = os.path.join(s.root, "elim_%d.er" % (abs(hash(name)) % 10 ** 6))
        open(f, "w").write(prog)
        outs = []
        for lvl in ("0", "1", "2", "3"):
            rc1, o1, _ = sh([exe, "-o", lvl, "run", f], env=s.env(), timeout=120)
            lines = [l for l in re.sub(r"\x1b\[[0-9;]*m", "", o1).split("\n") if l.strip() and "Warning" not in l and not l.lstrip().startswith(("|", ":", "`")) and not re.match(r"^\d+ \|", l)]
            outs.append((rc1, lines[-3:]))
        if any(o != outs[0] for o in outs[1:]):
            diff[name] = {"program": prog, "-o 0": outs[0], "differs at": ["-o %d" % i for i, o in enumerate(outs) if o != outs[0]]}
    for ob in viol:
        ob["end_to_end"] = diff or {"note": "none of the %d battery programs behaves differently at -o 1..3" % len(BATTERY)}
        if not diff:
            ob["verdict"] = INCONCLUSIVE
            ob["reason"] = "the guard is weaker than stated, but no program of the replay battery shows a difference between optimisation levels (%s)" % ob["reason"]
    log("  e2e elimination guard: %s" % (sorted(diff) or "no difference"))
