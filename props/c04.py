"""C04 — compile-time evaluation agrees with run time and never crashes.
Engine E2 (mir2smt): the MIR of ValueObj::try_* / Neg / eval_bin / eval_unary_val is executed
symbolically; operand discriminants and payloads are solver variables; the reference is Python's
arithmetic written as SMT terms."""
import itertools
import os
import re
import subprocess
import time

import z3

import mir2smt as M
import c04_native as N
from native import NativeRun
from common import (BROKEN, HELD, INCONCLUSIVE, VIOLATED, Obligation, Report, Scratch, extract_fn, log, sh, VERIF)

SCALAR = ["Int", "Nat", "Float", "Bool"]
ARITH = ["try_add", "try_sub", "try_mul", "try_div", "try_floordiv", "try_mod"]
CMPS = ["try_gt", "try_ge", "try_lt", "try_le", "try_eq", "try_ne"]
PYOP = {"try_add": "+", "try_sub": "-", "try_mul": "*", "try_div": "/", "try_floordiv": "//", "try_mod": "%",
        "try_pow": "**", "try_gt": ">", "try_ge": ">=", "try_lt": "<", "try_le": "<=", "try_eq": "==", "try_ne": "!=",
        "try_or": "or"}
EVAL_OP = {"Add": "try_add", "Sub": "try_sub", "Mul": "try_mul", "Div": "try_div", "FloorDiv": "try_floordiv",
           "Pow": "try_pow", "Mod": "try_mod", "Gt": "try_gt", "Ge": "try_ge", "Lt": "try_lt", "Le": "try_le",
           "Eq": "try_eq", "Ne": "try_ne"}

F64 = z3.Float64()
RNE = z3.RNE()


def sym_valueobj(name, variants):
    """a ValueObj with symbolic discriminant and pre-created scalar payloads"""
    e = M.Enum("ty::value::ValueObj", z3.BitVec(name + ".d", 64))
    e.payload = {
        "Int": {0: M.Scalar(z3.BitVec(name + ".Int", 32), "i32")},
        "Nat": {0: M.Scalar(z3.BitVec(name + ".Nat", 64), "u64")},
        "Float": {0: M.Agg("ty::value::Float", [M.Scalar(z3.FP(name + ".Float", F64), "f64")])},
        "Bool": {0: M.Scalar(z3.Bool(name + ".Bool"), "bool")},
    }
    return e


class Den:
    """denotation of a scalar ValueObj variant as a Python value: kind in int|float|bool"""

    def __init__(self, var, enum, narrow=False):
        self.var = var
        p = enum.payload.get(var, {}).get(0)
        if var == "Int":
            self.kind, self.t, self.w, self.sg = "int", p.t, 32, True
        elif var == "Nat" and narrow:
            # only under the assumption nat < 2^31: the same number as a 32-bit signed term (shares terms with `n as i32`)
            self.kind, self.t, self.w, self.sg = "int", z3.Extract(31, 0, p.t), 32, True
            self.var = "Int"
        elif var == "Nat":
            self.kind, self.t, self.w, self.sg = "int", p.t, 64, False
        elif var == "Bool":
            self.kind, self.t = "bool", p.t
        elif var == "Float":
            f = p.fields[0] if isinstance(p, M.Agg) else p
            self.kind, self.t = "float", f.t
        else:
            self.kind, self.t = var, None

    def wide(self, W):
        if self.kind == "bool":
            return z3.If(self.t, z3.BitVecVal(1, W), z3.BitVecVal(0, W))
        if self.w >= W:
            raise ValueError("width")
        return z3.SignExt(W - self.w, self.t) if self.sg else z3.ZeroExt(W - self.w, self.t)

    def as_float(self):
        """Python's int -> float conversion (correctly rounded); bool -> 0.0/1.0"""
        if self.kind == "float":
            return self.t
        if self.kind == "bool":
            return z3.If(self.t, z3.FPVal(1.0, F64), z3.FPVal(0.0, F64))
        return z3.fpSignedToFP(RNE, self.t, F64) if self.sg else z3.fpUnsignedToFP(RNE, self.t, F64)


def ext_to(t, W, signed):
    w = t.size()
    if w == W:
        return t
    return z3.SignExt(W - w, t) if signed else z3.ZeroExt(W - w, t)


def fp_same(x, y):
    """same Python float: bitwise equal, or both NaN"""
    return z3.Or(z3.And(z3.fpIsNaN(x), z3.fpIsNaN(y)),
                 z3.And(z3.Not(z3.fpIsNaN(x)), z3.Not(z3.fpIsNaN(y)), z3.fpEQ(x, y),
                        z3.fpIsNegative(x) == z3.fpIsNegative(y)))


def int_cmp_float(op, d, f):
    """exact comparison int `op` float as Python does it (no rounding of the int)"""
    fx = d.as_float()
    W = 70
    X = d.wide(W)
    FI = z3.fpToSBV(z3.RTZ(), f, z3.BitVecSort(W))        # only used where f == fx (then f is an integer in range)
    nan = z3.fpIsNaN(f)
    lt = z3.Or(z3.fpLT(fx, f), z3.And(z3.fpEQ(fx, f), X < FI))
    gt = z3.Or(z3.fpGT(fx, f), z3.And(z3.fpEQ(fx, f), X > FI))
    eq = z3.And(z3.fpEQ(fx, f), X == FI)
    r = {"<": lt, ">": gt, "==": eq, "!=": z3.Not(eq), "<=": z3.Or(lt, eq), ">=": z3.Or(gt, eq)}[op]
    if op == "!=":
        return z3.Or(nan, r)
    return z3.And(z3.Not(nan), r)


FLIP = {"<": ">", ">": "<", "<=": ">=", ">=": "<=", "==": "==", "!=": "!="}


def reference(op, L, R):
    """Python semantics of `L op R` for scalar denotations.
    Returns (kind, term, raises, note) or None when no exact reference is in reach (checked for no-panic only).
    kind int: term is a wide signed bit-vector."""
    pyop = PYOP[op]
    if pyop == "or":
        if L.kind == "bool" and R.kind == "bool":
            return ("bool", z3.Or(L.t, R.t), z3.BoolVal(False), "")
        return None
    lk, rk = L.kind, R.kind
    if lk not in ("int", "float", "bool") or rk not in ("int", "float", "bool"):
        return None
    anyf = lk == "float" or rk == "float"
    if pyop in ("<", ">", "<=", ">=", "==", "!="):
        if lk == "float" and rk == "float":
            f = {"<": z3.fpLT, ">": z3.fpGT, "<=": z3.fpLEQ, ">=": z3.fpGEQ, "==": z3.fpEQ, "!=": z3.fpNEQ}[pyop]
            return ("bool", f(L.t, R.t), z3.BoolVal(False), "")
        if lk == "float":
            if rk == "bool":
                return None
            return ("bool", int_cmp_float(FLIP[pyop], R, L.t), z3.BoolVal(False), "exact int/float comparison")
        if rk == "float":
            if lk == "bool":
                return None
            return ("bool", int_cmp_float(pyop, L, R.t), z3.BoolVal(False), "exact int/float comparison")
        if lk == "bool" and rk == "bool":
            if pyop in ("==", "!="):
                e = L.t == R.t
                return ("bool", e if pyop == "==" else z3.Not(e), z3.BoolVal(False), "")
        W = 66
        X, Y = L.wide(W), R.wide(W)
        r = {"<": X < Y, ">": X > Y, "<=": X <= Y, ">=": X >= Y, "==": X == Y, "!=": X != Y}[pyop]
        return ("bool", r, z3.BoolVal(False), "")
    if anyf:
        x, y = L.as_float(), R.as_float()
        if pyop == "+":
            return ("float", z3.fpAdd(RNE, x, y), z3.BoolVal(False), "")
        if pyop == "-":
            return ("float", z3.fpSub(RNE, x, y), z3.BoolVal(False), "")
        if pyop == "*":
            return ("float", z3.fpMul(RNE, x, y), z3.BoolVal(False), "")
        if pyop == "/":
            return ("float", z3.fpDiv(RNE, x, y), z3.fpIsZero(y), "ZeroDivisionError when divisor is 0.0")
        return None         # float // % ** : CPython's fmod-based algorithms, no exact SMT reference (no-panic only)
    # int (or bool-as-int) arithmetic
    same = (L.var == R.var) and lk == "int"
    if pyop in ("+", "-"):
        W = (L.w + 2) if same else 67
        X, Y = L.wide(W), R.wide(W)
        return ("int", X + Y if pyop == "+" else X - Y, z3.BoolVal(False), "")
    if pyop == "*":
        W = (2 * L.w) if same else 132
        if same and not L.sg:
            X, Y = z3.ZeroExt(W - L.w, L.t), z3.ZeroExt(W - R.w, R.t)
            return ("nat", M.wide_mul(X, Y), z3.BoolVal(False), "")
        X, Y = L.wide(W), R.wide(W)
        return ("int", M.wide_mul(X, Y), z3.BoolVal(False), "")
    if pyop == "/":
        # correctly rounded quotient; expressible as one fp.div only when both operands are exactly representable
        x, y = L.as_float(), R.as_float()
        lim = 1 << 53
        W = 66
        X, Y = L.wide(W), R.wide(W)
        exact = z3.And(X >= -lim, X <= lim, Y >= -lim, Y <= lim)
        return ("float", z3.fpDiv(RNE, x, y), Y == 0, "bound: |operands| <= 2^53", exact)
    if pyop in ("//", "%"):
        if same and not L.sg:
            q = z3.UDiv(L.t, R.t)
            m = z3.URem(L.t, R.t)
            return ("nat", q if pyop == "//" else m, R.t == 0, "ZeroDivisionError when divisor is 0")
        W = 34 if same else 67
        X, Y = L.wide(W), R.wide(W)
        q = X / Y                  # bvsdiv: truncation
        m = z3.SRem(X, Y)
        adj = z3.And(m != 0, (m < 0) != (Y < 0))
        fq = z3.If(adj, q - 1, q)
        fm = z3.If(adj, m + Y, m)
        return ("int", fq if pyop == "//" else fm, Y == 0, "ZeroDivisionError when divisor is 0")
    return None


def agrees(val, ref):
    """SMT condition: the returned ValueObj `val` denotes the reference result"""
    kind, term = ref[0], ref[1]
    if not isinstance(val, M.Enum):
        return z3.BoolVal(False)
    d = val.discr
    conds = []
    IDX = VIDX
    if kind in ("int", "nat"):
        W = max(term.size(), 66)
        T = ext_to(term, W, kind == "int")
        pi = val.payload.get("Int", {}).get(0)
        pn = val.payload.get("Nat", {}).get(0)
        if pi is not None:
            conds.append(z3.And(d == IDX["Int"], z3.SignExt(W - 32, pi.t) == T))
        if pn is not None:
            conds.append(z3.And(d == IDX["Nat"], z3.ZeroExt(W - 64, pn.t) == T))
    elif kind == "float":
        pf = val.payload.get("Float", {}).get(0)
        if pf is not None:
            f = pf.fields[0] if isinstance(pf, M.Agg) else pf
            conds.append(z3.And(d == IDX["Float"], fp_same(f.t, term)))
    elif kind == "bool":
        pb = val.payload.get("Bool", {}).get(0)
        if pb is not None:
            conds.append(z3.And(d == IDX["Bool"], pb.t == term))
    return z3.Or(conds) if conds else z3.BoolVal(False)


VIDX = {}


def panic_class(msg):
    m = msg
    if "which would overflow" in m:
        mm = re.search(r"\{\} (\S+) \{\}", m)
        if mm:
            return "overflow(%s)" % mm.group(1)
        if "negate" in m:
            return "overflow(neg)"
        return "overflow"
    if "divide" in m and "zero" in m:
        return "div-by-zero"
    if "remainder" in m and "zero" in m:
        return "rem-by-zero"
    if "multiply with overflow" in m:
        return "overflow(pow)"
    return re.sub(r"[^A-Za-z0-9]+", "-", m)[:40]


def model_value(mdl, e, var):
    p = e.payload[var][0]
    if var == "Float":
        t = p.fields[0].t
        v = mdl.eval(t, model_completion=True)
        return "Float(%s)" % fp_str(v)
    v = mdl.eval(p.t, model_completion=True)
    if var == "Int":
        x = v.as_signed_long()
        return "Int(%d)" % x
    if var == "Nat":
        return "Nat(%d)" % v.as_long()
    if var == "Bool":
        return "Bool(%s)" % ("true" if z3.is_true(v) else "false")
    return var


def fp_str(v):
    try:
        if z3.fpIsNaN(v) is not None and z3.is_true(z3.simplify(z3.fpIsNaN(v))):
            return "f64::NAN"
        if z3.is_true(z3.simplify(z3.fpIsInf(v))):
            return "f64::NEG_INFINITY" if z3.is_true(z3.simplify(z3.fpIsNegative(v))) else "f64::INFINITY"
        bits = z3.simplify(z3.fpToIEEEBV(v)).as_long()
        return "f64::from_bits(0x%016x)" % bits
    except Exception:
        return str(v)


class DictModel:
    """a model given as {var: value}; eval by substitution (used for guessed witnesses)"""

    def __init__(self, subst):
        self.subst = subst

    def eval(self, t, model_completion=True):
        return z3.simplify(z3.substitute(t, *self.subst))


def free_vars(conds):
    seen, out = set(), {}
    stack = list(conds)
    while stack:
        x = stack.pop()
        i = x.get_id()
        if i in seen:
            continue
        seen.add(i)
        if z3.is_const(x) and x.decl().kind() == z3.Z3_OP_UNINTERPRETED:
            out[str(x)] = x
        else:
            stack.extend(x.children())
    return list(out.values())


BV_CAND = [0, 1, 2, 3, -1, -2, 1 << 31, (1 << 31) - 1, -(1 << 31), (1 << 32) - 1, 1 << 32, 1 << 53, (1 << 53) + 1,
           1 << 63, (1 << 63) - 1, (1 << 64) - 1, 7, 10, 1 << 16, 46341, 3037000500, 2642246, 1291]
FP_CAND = [0.0, -0.0, 1.0, -1.0, 0.5, 2.0, float("nan"), float("inf"), float("-inf"), 9007199254740992.0, 1e308, -3.5, 1e-320]


def guess(conds, rounds=400, seed=1):
    """cheap witness search: evaluate the conjunction under boundary/random assignments; a hit is a genuine model"""
    import random
    rnd = random.Random(seed)
    # eliminate the abstract products by their definitions (innermost last)
    for _ in range(6):
        sub = [(v, d) for (v, d) in M.MULDEFS.values()]
        new = [z3.substitute(c, *sub) for c in conds]
        if all(a.eq(b) for a, b in zip(new, conds)):
            break
        conds = new
    conds = [c for c in conds if not z3.is_true(z3.simplify(c))]
    if not conds:
        return DictModel([])
    vs = free_vars(conds)
    if not vs or len(vs) > 12:
        return None
    f = z3.And(conds) if len(conds) > 1 else conds[0]
    fixed = {}
    for c in conds:
        if z3.is_eq(c) and c.num_args() == 2:
            x, y = c.arg(0), c.arg(1)
            if z3.is_const(x) and x.decl().kind() == z3.Z3_OP_UNINTERPRETED and z3.is_bv_value(y):
                fixed[str(x)] = y
            elif z3.is_const(y) and y.decl().kind() == z3.Z3_OP_UNINTERPRETED and z3.is_bv_value(x):
                fixed[str(y)] = x
    cands = []
    for v in vs:
        if str(v) in fixed:
            cands.append([fixed[str(v)]])
        elif z3.is_bv(v):
            w = v.size()
            if str(v).endswith(".d"):
                cands.append([z3.BitVecVal(k, w) for k in range(0, 21)])
            else:
                cands.append([z3.BitVecVal(k, w) for k in BV_CAND])
        elif z3.is_bool(v):
            cands.append([z3.BoolVal(True), z3.BoolVal(False)])
        elif z3.is_fp(v):
            cands.append([z3.FPVal(k, F64) for k in FP_CAND])
        else:
            return None
    for i in range(rounds):
        sub = [(v, (c[0] if i == 0 else rnd.choice(c))) for v, c in zip(vs, cands)]
        try:
            r = z3.simplify(z3.substitute(f, *sub))
        except z3.Z3Exception:
            return None
        if z3.is_true(r):
            return DictModel(sub)
    return None


class Q:
    """solver front-end.  Wide products are abstract (see mir2smt.wide_mul): a query is first decided without
    their definitions (unsat there is unsat); otherwise a concrete witness is searched by evaluation and, failing
    that, the query is decided with the multiplier definitions.  z3 decides; the thorough tier re-decides the
    dumped SMT-LIB2 of every full query with cvc5."""

    def __init__(self, tier):
        self.tier = tier
        self.n = 0
        self.secs = 0.0
        self.cross = 0
        self.disagree = 0
        self.guessed = 0
        self.abstract_unsat = 0
        self.timeout_ms = 30000 if tier == "quick" else 180000

    def _solve(self, conds, timeout_ms):
        s = z3.Solver()
        s.set("timeout", timeout_ms)
        for c in conds:
            s.add(c)
        r = s.check()
        return ("sat" if r == z3.sat else "unsat" if r == z3.unsat else "unknown"), s

    def check(self, conds):
        t = time.time()
        self.n += 1
        conds = list(conds)
        defs = M.mul_defs_for(conds)
        res, s = self._solve(conds, self.timeout_ms)
        mdl = None
        if res == "unsat":
            if defs:
                self.abstract_unsat += 1
        elif defs:
            full = conds + defs
            g = guess(conds) if res == "sat" else None
            if g is not None:
                self.guessed += 1
                res, mdl = "sat", g
            else:
                res, s = self._solve(full, self.timeout_ms)
                if res == "sat":
                    mdl = s.model()
        elif res == "sat":
            mdl = s.model()
        dt = time.time() - t
        self.secs += dt
        if dt > 2.0:
            log("    slow query %.1fs [%s] -> %s" % (dt, getattr(self, "ctx", ""), res))
        if self.tier == "thorough" and res in ("sat", "unsat"):
            c5 = self.cvc5(conds + defs)
            if c5 in ("sat", "unsat"):
                self.cross += 1
                if c5 != res:
                    self.disagree += 1
                    return "disagree", None, dt
        return res, mdl, dt

    def cvc5(self, conds):
        s = z3.Solver()
        for c in conds:
            s.add(c)
        txt = "(set-logic ALL)\n" + s.to_smt2()
        try:
            p = subprocess.run(["cvc5", "--lang", "smt2", "--tlimit=60000"], input=txt, capture_output=True, text=True, timeout=90)
        except Exception:
            return "error"
        out = p.stdout.strip().splitlines()
        if "(error" in p.stdout or not out:
            return "error"
        return out[0].strip()


def run(tier, seed, only=None):
    rep = Report("C04", tier, seed, "other",
                 "Symbolic execution of the rustc MIR (regenerated from /repo on this run) of the constant-evaluation "
                 "arithmetic kernels into SMT (bit-vectors + IEEE-754 FP); operand variants and payloads (every i32, u64, "
                 "f64 bit pattern, bool) are solver variables; z3 decides, per (operator, operand-variant pair), that no panic "
                 "is reachable and that every returned value equals Python's result; thorough tier re-decides every query with cvc5.", partial=bool(only))
    rep.trusted += ["rustc nightly -Zunpretty=mir as the semantics of the source", "engines/mir2smt.py (MIR -> SMT encoder, std models listed per obligation)",
                    "z3 4.x / 5.x (python3-vt), cvc5 1.0 (thorough)", "the Python reference semantics written in props/c04.py"]
    s = Scratch("c04")
    try:
        t0 = time.time()
        text, dt, err, rc = M.dump_mir(s, "erg_compiler", overflow_checks=True, extra_cargo=["--lib"])
        if rc != 0 or len(text) < 1000:
            log("MIR dump failed:\n" + err[-3000:])
            rep.add(Obligation(key="mir-dump", verdict=BROKEN, reason="cargo +nightly rustc -Zunpretty=mir failed"))
            return rep.finish()
        log("  MIR dump erg_compiler: %.0fs, %d MB" % (dt, len(text) >> 20))
        fns = M.parse_mir(text, want=["ty::value::", "context::eval::"])
        vsrc = s.read("crates/erg_compiler/ty/value.rs")
        esrc = s.read("crates/erg_compiler/context/eval.rs")
        tsrc = s.read("crates/erg_compiler/ty/typaram.rs")
        variants = M.rust_enum_variants(vsrc, "ValueObj")
        opkinds = M.rust_enum_variants(tsrc, "OpKind")
        VIDX.clear()
        VIDX.update({v: i for i, v in enumerate(variants)})
        enums = {"ValueObj": variants, "Option": ["None", "Some"], "Result": ["Ok", "Err"], "OpKind": opkinds,
                 "Ordering": {"Less": -1, "Equal": 0, "Greater": 1}, "ControlFlow": ["Continue", "Break"]}
        for fn in ARITH + CMPS + ["try_pow", "try_or", "try_binary", "try_cmp"]:
            rep.add_function("ValueObj::" + fn, "crates/erg_compiler/ty/value.rs", extract_fn(vsrc, fn))
        rep.add_function("impl Neg for ValueObj", "crates/erg_compiler/ty/value.rs", extract_fn(vsrc, "neg"))
        for fn in ("eval_bin", "eval_unary_val"):
            rep.add_function("Context::" + fn, "crates/erg_compiler/context/eval.rs", extract_fn(esrc, fn))
        q = Q(tier)
        ENC = {}       # role -> (arity, symbolic outcomes, operand enums, allowed variants): reused by the translation validation

        def find(short, must):
            c = [f for f in fns.values() if f.short == short and must in f.name]
            return c

        def mkI():
            I = M.Interp(fns, enums, overflow_checks=True)
            I.struct_fields["Float"] = ["f64"]
            # error-value construction on the Err paths of eval_bin / eval_unary_val: opaque results
            I.opaque_calls = [r"Clone>::clone$", r"::unreachable$", r"as From<.*Error.*>>::from$", r"EvalErrors|CompileErrors",
                              r"type_name", r"ErrorCore::"]
            return I

        def idx(n):
            return VIDX[n]

        def decide_binary(opname, fn, allowed, extra_assume=(), role=None, op_for_ref=None, nargs_prefix=()):
            """run fn(l, r) symbolically and emit per-pair obligations"""
            role = role or opname
            I = mkI()
            a, b = sym_valueobj("l", allowed), sym_valueobj("r", allowed)
            assm = [z3.Or([a.discr == idx(n) for n in allowed]), z3.Or([b.discr == idx(n) for n in allowed])] + list(extra_assume)
            t1 = time.time()
            outs = I.run(fn, list(nargs_prefix) + [a, b], assm)
            interp_s = time.time() - t1
            if not extra_assume:
                ENC[role] = ("bin", outs, a, b, list(allowed))
            for lv, rv in itertools.product(allowed, allowed):
                pair = [a.discr == idx(lv), b.discr == idx(rv)]
                shape = "(%s,%s)" % (lv, rv)
                q.ctx = "%s %s" % (role, shape)
                base = dict(engine="mir2smt (z3 %s)" % z3.get_version_string(), functions=[role], shape=shape,
                            symbolic=["%s payload of l" % lv, "%s payload of r" % rv] + (["exponent fixed per obligation"] if extra_assume else []),
                            bounds={"interp_steps": I.steps}, stubs=sorted(I.models_used), solver="z3")
                L, R = Den(lv, a), Den(rv, b)
                ref = reference(op_for_ref or opname, L, R)
                # unsupported paths
                unsup = []
                for o in outs:
                    if o.kind == "unsupported":
                        r, _, dt = q.check(list(o.pc) + pair) if o.pc else ("sat", None, 0)
                        if r != "unsat":
                            unsup.append(o)
                if unsup:
                    rep.add(Obligation(base, key="%s/%s/*" % (role, shape), verdict=INCONCLUSIVE,
                                       reason="unsupported-construct: %s @%s" % (unsup[0].msg[:160], unsup[0].where)))
                    continue
                # panics
                qn, qs = 0, 0.0
                pan = {}
                for o in outs:
                    if o.kind != "panic":
                        continue
                    r, mdl, dt = q.check(list(o.pc) + pair)
                    qn += 1
                    qs += dt
                    if r == "sat":
                        cls = panic_class(o.msg)
                        if cls not in pan:
                            pan[cls] = (o, "%s %s %s" % (model_value(mdl, a, lv), PYOP.get(opname, opname), model_value(mdl, b, rv)))
                    elif r != "unsat":
                        pan.setdefault("?solver-" + r, (o, ""))
                for cls, (o, mv) in pan.items():
                    if cls.startswith("?"):
                        rep.add(Obligation(base, key="%s/%s/no-panic" % (role, shape), verdict=INCONCLUSIVE if "unknown" in cls else BROKEN, reason=cls))
                    else:
                        rep.add(Obligation(base, key="%s/%s/no-panic:%s" % (role, shape, cls), verdict=VIOLATED, model=mv,
                                           reason="panic reachable: %s (%s) e.g. %s" % (o.msg, o.where, mv), queries=qn, solver_s=round(qs, 3),
                                           replay_expr=(opname, lv, rv, mv, "panic")))
                if not pan:
                    rep.add(Obligation(base, key="%s/%s/no-panic" % (role, shape), verdict=HELD, queries=qn, solver_s=round(qs, 3),
                                       reason="no MIR assert/panic terminator reachable (%d candidate sites)" % qn))
                # values
                if ref is None:
                    continue
                small = []
                if lv == "Nat":
                    small.append(z3.ULT(a.payload["Nat"][0].t, z3.BitVecVal(1 << 31, 64)))
                if rv == "Nat":
                    small.append(z3.ULT(b.payload["Nat"][0].t, z3.BitVecVal(1 << 31, 64)))

                def check_values(extra, tag, ref=ref):
                    qn, qs = 0, 0.0
                    found = {}
                    unk = None
                    nsome = 0
                    for o in outs:
                        if o.kind != "return":
                            continue
                        okv, some = unwrap_result(o.value)
                        if okv is None:
                            continue
                        bound = ([ref[4]] if len(ref) > 4 else []) + list(extra)
                        r0, _, dt0 = q.check(list(o.pc) + pair + [some] + bound)     # vacuity witness: Some reachable
                        qn += 1
                        qs += dt0
                        if r0 != "sat":
                            continue
                        nsome += 1
                        r1, m1, dt1 = q.check(list(o.pc) + pair + [some] + bound + [ref[2]])
                        r2, m2, dt2 = q.check(list(o.pc) + pair + [some] + bound + [z3.Not(ref[2]), z3.Not(agrees(okv, ref))])
                        qn += 2
                        qs += dt1 + dt2
                        if r1 == "sat":
                            found.setdefault("value:python-raises" + tag, (m1, "a value is returned where Python raises (%s)" % ref[3]))
                        if r2 == "sat":
                            found.setdefault("value" + tag, (m2, "returned value differs from Python's"))
                        for r in (r1, r2):
                            if r in ("unknown", "disagree"):
                                unk = r
                    for kind, (mdl, why) in found.items():
                        mv = "%s %s %s" % (model_value(mdl, a, lv), PYOP.get(opname, opname), model_value(mdl, b, rv))
                        rep.add(Obligation(base, key="%s/%s/%s" % (role, shape, kind), verdict=VIOLATED, model=mv,
                                           reason="%s, e.g. %s" % (why, mv), queries=qn, solver_s=round(qs, 3),
                                           replay_expr=(opname, lv, rv, mv, kind)))
                    if unk:
                        rep.add(Obligation(base, key="%s/%s/value%s" % (role, shape, tag), verdict=INCONCLUSIVE if unk == "unknown" else BROKEN,
                                           reason="solver " + unk, queries=qn, solver_s=round(qs, 3)))
                    elif ("value" + tag) not in found:
                        if nsome:
                            rep.add(Obligation(base, key="%s/%s/value%s" % (role, shape, tag), verdict=HELD, queries=qn, solver_s=round(qs, 3),
                                               reason="every Some(v) equals Python's `l %s r` (%s)%s" % (PYOP.get(opname, opname), ref[3] or "exact", " on the restricted domain " + tag if tag else ""),
                                               vacuity={"some_paths_reachable": nsome}))
                        else:
                            rep.add(Obligation(base, key="%s/%s/value%s" % (role, shape, tag), verdict=HELD, queries=qn, solver_s=round(qs, 3), nontrivial=False,
                                               reason="the kernel returns None for this pair (left to run time / diagnostic)"))
                    return ("value" + tag) in found

                bad = check_values([], "")
                if bad and small:
                    # the full-domain finding would mask everything on this pair: decide the ordinary region separately
                    if lv != "Float" and rv != "Float":
                        check_values(small, "@nat<2^31", reference(op_for_ref or opname, Den(lv, a, True), Den(rv, b, True)))
                    else:
                        check_values(small, "@nat<2^31")
                if bad and opname in ("try_floordiv", "try_mod") and lv != "Float" and rv != "Float":
                    # floor vs truncation differs only when an operand is negative: decide the non-negative region separately,
                    # so that a known finding on the full domain does not hide a change to the arm itself
                    nn = list(small)
                    if lv == "Int":
                        nn.append(a.payload["Int"][0].t >= 0)
                    if rv == "Int":
                        nn.append(b.payload["Int"][0].t >= 0)
                    Ln, Rn = Den(lv, a, True), Den(rv, b, True)
                    # for 0 <= x, y < 2^31 Python's floor division / modulo coincide with 32-bit truncating division / remainder
                    refnn = ("int", (Ln.t / Rn.t) if opname == "try_floordiv" else z3.SRem(Ln.t, Rn.t), Rn.t == 0,
                             "operands >= 0 and < 2^31: floor == truncation")
                    check_values(nn, "@nonneg<2^31", refnn)
                    if lv == "Int" and rv == "Int":
                        # both operands negative: the quotient is positive, so floor == truncation again, and Python's
                        # modulo (sign of the divisor) equals the truncating remainder (sign of the dividend)
                        neg = [a.payload["Int"][0].t < 0, b.payload["Int"][0].t < 0]
                        check_values(neg, "@bothneg", ("int", refnn[1], Rn.t == 0, "operands < 0: floor == truncation"))
            return I
        def unwrap_result(val):
            """Option<ValueObj> or Result<ValueObj,_> -> (inner ValueObj, condition that it is Some/Ok)"""
            if not isinstance(val, M.Enum):
                return None, None
            if "Some" in val.payload:
                return val.payload["Some"].get(0), val.discr == 1
            if "Ok" in val.payload:
                return val.payload["Ok"].get(0), val.discr == 0
            return None, None

        ops = ARITH + CMPS + ["try_or"]
        interps = []
        for opname in ops:
            if only and only not in opname:
                continue
            c = find(opname, "ty::value::")
            c = [f for f in c if len(f.params) == 2 and "ValueObj" in f.params[0][1]]
            if len(c) != 1:
                rep.add(Obligation(key=opname + "/*", verdict=BROKEN, reason="function not found in MIR dump (%d candidates)" % len(c)))
                continue
            interps.append(decide_binary(opname, c[0], SCALAR))
            log("  %-14s done: %d obligations so far, %d queries, %.1fs solver" % (opname, len(rep.obls), q.n, q.secs))
        def base_ob(I, role, shape, symbolic, extra_bounds=None):
            bd = {"interp_steps": I.steps}
            bd.update(extra_bounds or {})
            return dict(engine="mir2smt (z3 %s)" % z3.get_version_string(), functions=[role], shape=shape, symbolic=symbolic,
                        bounds=bd, stubs=sorted(I.models_used), solver="z3")

        def emit_unsupported_or_panics(I, outs, role, shape, pair, base, describe):
            """shared: returns False when the shape is inconclusive; adds no-panic obligations"""
            for o in outs:
                if o.kind == "unsupported":
                    r, _, _ = q.check(list(o.pc) + pair) if o.pc else ("sat", None, 0)
                    if r != "unsat":
                        rep.add(Obligation(base, key="%s/%s/*" % (role, shape), verdict=INCONCLUSIVE,
                                           reason="unsupported-construct: %s @%s" % (o.msg[:160], o.where)))
                        return False
            pan, qn, qs = {}, 0, 0.0
            for o in outs:
                if o.kind != "panic":
                    continue
                r, mdl, dt_ = q.check(list(o.pc) + pair)
                qn += 1
                qs += dt_
                if r == "sat":
                    pan.setdefault(panic_class(o.msg), (o, describe(mdl)))
                elif r != "unsat":
                    pan.setdefault("?solver-" + r, (o, ""))
            for cls, (o, mv) in pan.items():
                if cls.startswith("?"):
                    rep.add(Obligation(base, key="%s/%s/no-panic" % (role, shape), verdict=INCONCLUSIVE, reason=cls))
                else:
                    rep.add(Obligation(base, key="%s/%s/no-panic:%s" % (role, shape, cls), verdict=VIOLATED, model=mv,
                                       reason="panic reachable: %s (%s) e.g. %s" % (o.msg, o.where, mv), queries=qn, solver_s=round(qs, 3)))
            if not pan:
                rep.add(Obligation(base, key="%s/%s/no-panic" % (role, shape), verdict=HELD, queries=qn, solver_s=round(qs, 3),
                                   reason="no MIR assert/panic terminator reachable (%d candidate sites)" % qn))
            return True

        # ---- pow: exponent fixed per obligation (loop bound of i32::pow / u64::pow) -------------------
        if not only or "pow" in only:
            c = [f for f in find("try_pow", "ty::value::") if len(f.params) == 2]
            if len(c) != 1:
                rep.add(Obligation(key="try_pow/*", verdict=BROKEN, reason="try_pow not found in MIR dump"))
            else:
                # exponents >= 4 were tried for the thorough tier: single z3 queries of 50-110 s (i32::pow chains), a run of > 25 min;
                # both tiers use the same list so that every obligation key the thorough tier can produce has been triaged
                ks = [0, 1, 2, 3]
                for k in ks + [-1]:
                    for lv, rv in itertools.product(["Int", "Nat", "Float"], ["Int", "Nat"]):
                        if k < 0 and rv == "Nat":
                            continue
                        I = mkI()
                        a, b = sym_valueobj("l", SCALAR), sym_valueobj("r", SCALAR)
                        b.payload["Int"] = {0: M.Scalar(z3.BitVecVal(k, 32), "i32")}
                        b.payload["Nat"] = {0: M.Scalar(z3.BitVecVal(max(k, 0), 64), "u64")}
                        a.discr = z3.BitVecVal(idx(lv), 64)
                        b.discr = z3.BitVecVal(idx(rv), 64)
                        outs = I.run(c[0], [a, b], [])
                        shape = "(%s,%s=%d)" % (lv, rv, k)
                        q.ctx = "try_pow " + shape
                        base = base_ob(I, "try_pow", shape, ["%s payload of the base" % lv], {"exponent": k})
                        if not emit_unsupported_or_panics(I, outs, "try_pow", shape, [], base,
                                                          lambda m: "%s ** %s(%d)" % (model_value(m, a, lv), rv, k)):
                            continue
                        if lv == "Float":
                            continue      # powf/powi: uninterpreted, panic freedom only
                        # reference chain at the operand's double width
                        L = Den(lv, a)
                        w = L.w
                        ext = (lambda t: z3.SignExt(w, t)) if L.sg else (lambda t: z3.ZeroExt(w, t))
                        acc = z3.BitVecVal(1, w)
                        ovf = z3.BoolVal(False)
                        for _ in range(max(k, 0)):
                            wide = M.wide_mul(ext(acc), ext(L.t))
                            lo = z3.Extract(w - 1, 0, wide)
                            ovf = z3.Or(ovf, ext(lo) != wide)
                            acc = lo
                        qn, qs, found, nsome = 0, 0.0, {}, 0
                        for o in outs:
                            if o.kind != "return":
                                continue
                            okv, some = unwrap_result(o.value)
                            if okv is None:
                                continue
                            r0, _, d0 = q.check(list(o.pc) + [some])
                            qn += 1
                            qs += d0
                            if r0 != "sat":
                                continue
                            nsome += 1
                            if k < 0:
                                found.setdefault("value", (None, "Some(..) for a negative exponent (Python gives a float)"))
                                continue
                            r1, m1, d1 = q.check(list(o.pc) + [some, ovf])
                            ref = ("int" if L.sg else "nat", acc)
                            r2, m2, d2 = q.check(list(o.pc) + [some, z3.Not(ovf), z3.Not(agrees(okv, ref))])
                            qn += 2
                            qs += d1 + d2
                            if r1 == "sat":
                                found.setdefault("value:not-representable", (m1, "a value is returned although the exact power does not fit the operand type"))
                            if r2 == "sat":
                                found.setdefault("value", (m2, "returned value differs from Python's"))
                        for kind, (mdl, why) in found.items():
                            mv = "%s ** %d" % (model_value(mdl, a, lv), k) if mdl is not None else "** %d" % k
                            rep.add(Obligation(base, key="try_pow/%s/%s" % (shape, kind), verdict=VIOLATED, model=mv, reason="%s, e.g. %s" % (why, mv),
                                               queries=qn, solver_s=round(qs, 3)))
                        if "value" not in found:
                            rep.add(Obligation(base, key="try_pow/%s/value" % shape, verdict=HELD, queries=qn, solver_s=round(qs, 3),
                                               nontrivial=bool(nsome),
                                               reason=("every Some(v) equals base**%d" % k) if nsome else "returns None (left to run time / diagnostic)"))
                log("  try_pow        done: %d obligations so far, %d queries, %.1fs solver" % (len(rep.obls), q.n, q.secs))

        # ---- unary: impl Neg for ValueObj, Context::eval_unary_val ---------------------------------
        def unary_ref(opk, D):
            if opk in ("Neg", "neg"):
                if D.kind == "int":
                    return ("int", -D.wide(67))
                if D.kind == "float":
                    return ("float", z3.fpNeg(D.t))
                return None
            if opk == "Pos":
                if D.kind == "int":
                    return ("int", D.wide(67))
                if D.kind == "float":
                    return ("float", D.t)
                return None
            if opk == "Not" and D.kind == "bool":
                return ("bool", z3.Not(D.t))
            return None

        def decide_unary(role, fn, opk, allowed, prefix):
            I = mkI()
            a = sym_valueobj("v", allowed)
            outs = I.run(fn, list(prefix) + [a], [z3.Or([a.discr == idx(n) for n in allowed])])
            ENC[role] = ("un", outs, a, None, list(allowed))
            for var in allowed:
                pair = [a.discr == idx(var)]
                shape = "(%s)" % var
                base = base_ob(I, role, shape, ["%s payload" % var])
                if not emit_unsupported_or_panics(I, outs, role, shape, pair, base, lambda m: "%s %s" % (opk, model_value(m, a, var))):
                    continue
                ref = unary_ref(opk, Den(var, a))
                if ref is None:
                    continue
                def unary_values(extra, tag):
                    qn, qs, bad, nsome = 0, 0.0, None, 0
                    for o in outs:
                        if o.kind != "return":
                            continue
                        if isinstance(o.value, M.Enum) and ("Ok" in o.value.payload or "Some" in o.value.payload):
                            okv, some = unwrap_result(o.value)
                        else:
                            okv, some = o.value, z3.BoolVal(True)
                        if okv is None:
                            continue
                        r0, _, d0 = q.check(list(o.pc) + pair + [some] + extra)
                        qn += 1
                        qs += d0
                        if r0 != "sat":
                            continue
                        nsome += 1
                        r2, m2, d2 = q.check(list(o.pc) + pair + [some, z3.Not(agrees(okv, ref))] + extra)
                        qn += 1
                        qs += d2
                        if r2 == "sat" and bad is None:
                            bad = m2
                    if bad is not None:
                        mv = "%s %s" % (opk, model_value(bad, a, var))
                        rep.add(Obligation(base, key="%s/%s/value%s" % (role, shape, tag), verdict=VIOLATED, model=mv, queries=qn, solver_s=round(qs, 3),
                                           reason="returned value differs from Python's, e.g. " + mv))
                    else:
                        rep.add(Obligation(base, key="%s/%s/value%s" % (role, shape, tag), verdict=HELD, queries=qn, solver_s=round(qs, 3), nontrivial=bool(nsome),
                                           reason=("result equals Python's unary %s%s" % (opk, " on the restricted domain " + tag if tag else "")) if nsome else "no value returned for this variant"))
                    return bad is not None

                if unary_values([], "") and var == "Nat":
                    # the full-domain finding (n as i32) would hide any other change to this arm: decide n < 2^31 separately
                    unary_values([z3.ULT(a.payload["Nat"][0].t, z3.BitVecVal(1 << 31, 64))], "@nat<2^31")

        if not only or "unary" in only or "neg" in only:
            c = [f for f in find("neg", "ty::value::") if len(f.params) == 1 and f.params[0][1].endswith("ValueObj")]
            if len(c) == 1:
                decide_unary("ValueObj::neg", c[0], "neg", ["Int", "Nat", "Float"], [])
            else:
                rep.add(Obligation(key="ValueObj::neg/*", verdict=BROKEN, reason="impl Neg for ValueObj not found in MIR dump (%d)" % len(c)))
            c = [f for f in find("eval_unary_val", "context::eval::") if len(f.params) == 3]
            if len(c) == 1:
                for opk in ("Pos", "Neg", "Not", "Invert"):
                    if opk in opkinds:
                        decide_unary("eval_unary_val[%s]" % opk, c[0], opk, SCALAR,
                                     [M.Opaque("&context::Context", "self"), M.Enum("OpKind", z3.BitVecVal(opkinds.index(opk), 64))])
            else:
                rep.add(Obligation(key="eval_unary_val/*", verdict=BROKEN, reason="eval_unary_val not found in MIR dump"))
            log("  unary          done: %d obligations so far, %d queries, %.1fs solver" % (len(rep.obls), q.n, q.secs))

        # ---- dispatch (differential): eval_bin(op,l,r) and try_binary(l,r,op) behave as the try_* function named by op ----
        def same_value(v1, v2):
            if not isinstance(v1, M.Enum) or not isinstance(v2, M.Enum):
                return z3.BoolVal(False)
            conds = [v1.discr == v2.discr]
            for var in ("Int", "Nat", "Bool"):
                p1, p2 = v1.payload.get(var, {}).get(0), v2.payload.get(var, {}).get(0)
                if p1 is not None and p2 is not None:
                    conds.append(z3.Implies(v1.discr == idx(var), p1.t == p2.t))
                elif (p1 is None) != (p2 is None):
                    conds.append(v1.discr != idx(var))
            p1, p2 = v1.payload.get("Float", {}).get(0), v2.payload.get("Float", {}).get(0)
            if p1 is not None and p2 is not None:
                f1 = p1.fields[0] if isinstance(p1, M.Agg) else p1
                f2 = p2.fields[0] if isinstance(p2, M.Agg) else p2
                conds.append(z3.Implies(v1.discr == idx("Float"), fp_same(f1.t, f2.t)))
            elif (p1 is None) != (p2 is None):
                conds.append(v1.discr != idx("Float"))
            return z3.And(conds)

        def differential(role, fn, mkargs, tryname):
            ct = [f for f in find(tryname, "ty::value::") if len(f.params) == 2 and "ValueObj" in f.params[0][1]]
            if len(ct) != 1:
                rep.add(Obligation(key=role + "/*", verdict=BROKEN, reason=tryname + " not found"))
                return
            a, b = sym_valueobj("l", SCALAR), sym_valueobj("r", SCALAR)
            assm = [z3.Or([a.discr == idx(n) for n in SCALAR]), z3.Or([b.discr == idx(n) for n in SCALAR])]
            I1, I2 = mkI(), mkI()
            o1 = I1.run(fn, mkargs(a, b), assm)
            o2 = I2.run(ct[0], [a, b], assm)
            base = base_ob(I1, role, "(l,r) over {Int,Nat,Float,Bool}^2", ["both discriminants", "all payloads"], {"reference": "ValueObj::" + tryname + " (same MIR dump)"})
            base["stubs"] = sorted(I1.models_used | I2.models_used)
            uns = [o for o in o1 + o2 if o.kind == "unsupported"]
            if uns:
                rep.add(Obligation(base, key=role + "/dispatch", verdict=INCONCLUSIVE, reason="unsupported-construct: %s @%s" % (uns[0].msg[:160], uns[0].where)))
                return
            qn, qs, bad = 0, 0.0, None
            r1s = [o for o in o1 if o.kind == "return"]
            r2s = [o for o in o2 if o.kind == "return"]
            for x in r1s:
                v1, ok1 = unwrap_result(x.value)
                for y in r2s:
                    v2, ok2 = unwrap_result(y.value)
                    if v1 is None or v2 is None:
                        cond = z3.BoolVal(True) if (v1 is None) != (v2 is None) else z3.BoolVal(False)
                        if v1 is None and v2 is None:
                            continue
                        # one side has no success payload at all: mismatch iff the other side succeeds
                        cond = ok2 if v1 is None else ok1
                    else:
                        cond = z3.Or(ok1 != ok2, z3.And(ok1, ok2, z3.Not(same_value(v1, v2))))
                    r, mdl, d_ = q.check(list(x.pc) + list(y.pc) + [cond])
                    qn += 1
                    qs += d_
                    if r == "sat" and bad is None:
                        lv = SCALAR[[mdl.eval(a.discr, model_completion=True).as_long() == idx(n) for n in SCALAR].index(True)]
                        rv = SCALAR[[mdl.eval(b.discr, model_completion=True).as_long() == idx(n) for n in SCALAR].index(True)]
                        bad = "%s , %s" % (model_value(mdl, a, lv), model_value(mdl, b, rv))
                    elif r not in ("sat", "unsat") and bad is None:
                        bad = "?" + r
            # panic sets must coincide
            p1 = z3.Or([z3.And(o.pc) for o in o1 if o.kind == "panic"] + [z3.BoolVal(False)])
            p2 = z3.Or([z3.And(o.pc) for o in o2 if o.kind == "panic"] + [z3.BoolVal(False)])
            r, mdl, d_ = q.check(assm + [p1 != p2])
            qn += 1
            qs += d_
            if r == "sat" and bad is None:
                bad = "panic behaviour differs"
            if bad is None:
                rep.add(Obligation(base, key=role + "/dispatch", verdict=HELD, queries=qn, solver_s=round(qs, 3),
                                   reason="same result (Ok/Some value, Err/None, panic set) as ValueObj::%s for every operand pair" % tryname,
                                   vacuity={"return_paths": [len(r1s), len(r2s)]}))
            elif bad.startswith("?"):
                rep.add(Obligation(base, key=role + "/dispatch", verdict=INCONCLUSIVE, reason="solver " + bad[1:]))
            else:
                rep.add(Obligation(base, key=role + "/dispatch", verdict=VIOLATED, model=bad, queries=qn, solver_s=round(qs, 3),
                                   reason="differs from ValueObj::%s, e.g. operands %s" % (tryname, bad)))

        if not only or "eval_bin" in only or "dispatch" in only:
            c = [f for f in find("eval_bin", "context::eval::") if len(f.params) == 4]
            cb = [f for f in find("try_binary", "ty::value::") if len(f.params) == 3]
            if len(c) != 1:
                rep.add(Obligation(key="eval_bin/*", verdict=BROKEN, reason="eval_bin not found in MIR dump"))
            if len(cb) != 1:
                rep.add(Obligation(key="try_binary/*", verdict=BROKEN, reason="try_binary not found in MIR dump"))
            for opk, tryname in EVAL_OP.items():
                if opk not in opkinds or tryname == "try_pow":
                    continue
                opv = lambda: M.Enum("OpKind", z3.BitVecVal(opkinds.index(opk), 64))
                if len(c) == 1:
                    differential("eval_bin[%s]" % opk, c[0], lambda a, b: [M.Opaque("&context::Context", "self"), opv(), a, b], tryname)
                if len(cb) == 1 and opk in ("Add", "Sub", "Mul", "Div", "Lt", "Gt", "Le", "Ge", "Eq", "Ne"):
                    differential("try_binary[%s]" % opk, cb[0], lambda a, b: [a, b, opv()], tryname)
            log("  dispatch       done: %d obligations so far, %d queries, %.1fs solver" % (len(rep.obls), q.n, q.secs))

        # ---- native phase: replay unlisted counterexamples, validate the translation on concrete vectors ----
        def native_phase():
            import zlib
            nr = NativeRun(s, "erg_compiler", "crates/erg_compiler/context/eval.rs", uses=N.USES, helpers=N.HELPERS)
            replay_known = (tier == "thorough") or bool(os.environ.get("VERIF_REPLAY_KNOWN"))
            todo = []
            for i, o in enumerate(rep.obls):
                if o.get("verdict") != VIOLATED:
                    continue
                if rep.known.lookup("C04", o["key"]) and not replay_known:
                    continue
                parts = o["key"].split("/", 2)
                rc = None
                try:
                    rc = N.rust_case(parts[0], o.get("model") or "", EVAL_OP)
                except ValueError:
                    rc = None
                if rc is None:
                    o["replay_note"] = "no native replay for this model text; reported from the solver model"
                    continue
                cid = "r%d" % i
                nr.add(cid, rc[0])
                todo.append((cid, o, parts[2] if len(parts) > 2 else parts[-1], rc))
            per = 3 if tier == "quick" else 12
            vecs = []
            for role, (ar, outs, a, b, allowed) in ENC.items():
                pairs = list(itertools.product(allowed, allowed)) if ar == "bin" else [(v, None) for v in allowed]
                vs = N.vectors(pairs, per, seed * 7919 + zlib.crc32(role.encode()))
                for j, (lv, x, rv, y) in enumerate(vs):
                    if ar == "bin":
                        model = "%s %s %s" % (N.operand_str(lv, x), PYOP.get(role, "?"), N.operand_str(rv, y))
                    else:
                        model = "%s %s" % ("neg" if role == "ValueObj::neg" else role[role.index("[") + 1:-1], N.operand_str(lv, x))
                    try:
                        rc = N.rust_case(role, model, EVAL_OP)
                    except ValueError:
                        rc = None
                    if rc is None:
                        continue
                    cid = "v%d_%d" % (len(vecs), j)
                    nr.add(cid, rc[0])
                    vecs.append((cid, role, lv, x, rv, y, model))
            if not nr.cases:
                return
            t1 = time.time()
            res, ndt = nr.run()
            log("  native run (cargo test, dev profile): %d cases, %.0fs" % (len(nr.cases), ndt))
            rep.extra["native_run_s"] = round(ndt, 1)
            if res is None:
                rep.add(Obligation(key="native-run", verdict=BROKEN, engine="cargo test (dev)",
                                   reason="the native replay/validation module did not build or run: " + nr.logs.get("dev", "")[-600:]))
                return
            for cid, o, kind, rc in todo:
                pyres = N.py_result(rc[1]) if rc[1] else None
                ok, text = N.judge("dispatch" if kind == "dispatch" else kind, res.get(cid), pyres)
                o["native_replay"] = {"rust": rc[0], "result": text, "reproduced": ok}
                if ok is False:
                    o["verdict"] = BROKEN
                    o["reason"] = "counterexample did not reproduce natively (%s): %s" % (text, o.get("reason", ""))
                elif ok:
                    rep.replayed += 1
                    o["replay"] = rep.write_replay(o)
            # translation validation
            subset = {}
            by_role = {}
            for cid, role, lv, x, rv, y, model in vecs:
                ar, outs, a, b, allowed = ENC[role]
                kk = (role, lv, rv)
                if kk not in subset:
                    pair = [a.discr == idx(lv)] + ([b.discr == idx(rv)] if b is not None else [])
                    subset[kk] = [o for o in outs if (not o.pc) or q._solve(list(o.pc) + pair, 20000)[0] != "unsat"]
                cs = N.assign(a, lv, x, VIDX) + (N.assign(b, rv, y, VIDX) if b is not None else [])
                enc = N.encoder_eval(subset[kk], cs, variants, unwrap=(role != "ValueObj::neg"))
                nat = N.norm_native(res.get(cid, "?"))
                st = by_role.setdefault(role, {"n": 0, "skipped": 0, "bad": []})
                if enc in ("UNSUPPORTED", "UNKNOWN"):
                    st["skipped"] += 1
                elif not N.same_outcome(enc, nat):
                    st["bad"].append("%s: symbolic %s, native %s" % (model, enc, nat))
                else:
                    st["n"] += 1
                    if enc.endswith("(*)"):
                        st["variant_only"] = st.get("variant_only", 0) + 1
                    st.setdefault("sample", "%s => %s" % (model, nat))
            tot = 0
            for role, st in by_role.items():
                tot += st["n"]
                base = dict(engine="mir2smt outcome under a concrete assignment vs cargo test (dev)", functions=[role],
                            shape="%d concrete operand vectors (seeded)" % (st["n"] + st["skipped"] + len(st["bad"])),
                            symbolic=[], bounds={}, solver="z3", nontrivial=False)
                if st["bad"]:
                    rep.add(Obligation(base, key="translation-validation/" + role, verdict=BROKEN,
                                       reason="the encoding disagrees with the real code: " + "; ".join(st["bad"][:4])))
                else:
                    rep.add(Obligation(base, key="translation-validation/" + role, verdict=HELD,
                                       reason="%d vectors: the symbolic outcome (value / None / panic) equals the native one (%d skipped: unsupported path; %d compared by variant only: uninterpreted float op); e.g. %s"
                                              % (st["n"], st["skipped"], st.get("variant_only", 0), st.get("sample", "-"))))
            rep.replayed += tot
            rep.extra["translation_validation_vectors"] = tot
            log("  translation validation: %d vectors agree, %.0fs" % (tot, time.time() - t1 - ndt))

        if not only or "native" in only or os.environ.get("VERIF_NATIVE"):
            native_phase()
        rep.extra["mir_dump_s"] = round(dt, 1)
        rep.extra["queries_total"] = q.n
        rep.extra["cvc5_cross_checked"] = q.cross
        rep.extra["unsat_with_abstract_products"] = q.abstract_unsat
        rep.extra["sat_by_evaluated_witness"] = q.guessed
        rep.extra["solver_disagreements"] = q.disagree
        rep.assumptions += [
            "operand variants restricted to Int, Nat, Float, Bool (Str/List/Dict/Type operands are heap values: outside)",
            "dev-profile semantics (overflow checks on); panics reported are the MIR assert terminators",
            "int/int true division: reference restricted to |operands| <= 2^53",
            "float // % ** : no exact reference (CPython fmod algorithms); checked for panic freedom only",
            "a None / Err result is admissible (left to run time or reported as a diagnostic)",
            "Option::ok_or_else closures (error construction) are not executed",
        ]
        return rep.finish()
    finally:
        s.cleanup()
