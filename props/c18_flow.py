"""C18, stage 1 — which function writes a constant value in the JSON target?

JsonGenerator::transpile_expr is executed on its rustc MIR (engine mirsem) for the three node shapes whose text comes from a
constant *value*: a literal (`value` field of hir::Literal), a name bound to a constant (`self.binds.get(..)` answers Some)
and a constant expression folded by expr_into_value.  On every feasible path that returns text for such a node, z3 must show
the returned String equal to F(<that value>) for one function F defined in transpile.rs — the writer that stage 2 model-checks.
Anything else (the token's source text, `ValueObj::to_string`) is Erg notation: `None`, `True`, unescaped quotes.  A violation
is confirmed by transpiling a small module with the built compiler and reading it with python's json module."""
import json
import os
import re
import time

import z3

import mir2smt as M
import mirsem as S
from common import (BROKEN, HELD, INCONCLUSIVE, VIOLATED, Obligation, extract_fn, log, sh)
from mirflow import DISC, Ref, Unsupported, const

SITES = {
    "literal": dict(variant="Literal", what="a literal", value="the literal's `value`",
                    program='.a = None\n.b = True\n.c = "q\\"uote\\\\"\n.d = False\n.e = 1_000\n',
                    expect={"a": None, "b": True, "c": 'q"uote\\', "d": False, "e": 1000}),
    "bound-name": dict(variant="Accessor", what="a name bound to a constant", value="the value found in `binds`",
                       program='.x = None\n.y = .x\n.s = "a\\"b"\n.t = .s\n.p = True\n.q = .p\n',
                       expect={"x": None, "y": None, "s": 'a"b', "t": 'a"b', "p": True, "q": True}),
    "folded-constant": dict(variant="BinOp", what="a folded constant expression", value="the result of expr_into_value",
                            program='.q = 1 + 2\n.r = "it\'s" + "!"\n',
                            expect={"q": 3, "r": "it's!"}),
}


def subterms(t, seen=None):
    seen = seen if seen is not None else set()
    if t.get_id() in seen:
        return
    seen.add(t.get_id())
    yield t
    for c in t.children():
        for x in subterms(c, seen):
            yield x


def stage(rep, s, tsrc, only, text=None, dump=(0.0, "", 0)):
    """returns (F or None, [violated obligations])"""
    hsrc = s.read("crates/erg_compiler/hir.rs")
    variants = M.rust_enum_variants(hsrc, "Expr")
    lit = re.search(r"pub struct Literal\s*\{(.*?)\n\}", hsrc, re.S)
    lfields = re.findall(r"^\s*(?:pub(?:\([^)]*\))?\s+)?(\w+)\s*:", lit.group(1), re.M) if lit else []
    keys = ["writer-site/" + k for k in SITES]
    if only and not any(o in k for o in only.split(",") for k in keys):
        return None, []
    base = dict(engine="mirsem (MIR -> z3 %s)" % z3.get_version_string(), solver="z3", functions=["JsonGenerator::transpile_expr"], bounds={})
    obs = {k: Obligation(dict(base, shape="Expr::%s" % SITES[k]["variant"], symbolic=["the node's fields (opaque)", "the answer of binds.get / expr_into_value"]), key="writer-site/" + k) for k in SITES}
    for ob in obs.values():
        rep.add(ob)
    if not variants or "value" not in lfields or any(SITES[k]["variant"] not in variants for k in SITES):
        for ob in obs.values():
            ob.update(verdict=BROKEN, reason="hir.rs: enum Expr / struct Literal could not be read as expected")
        return None, []
    t0 = time.time()
    dt, err, rc = dump
    if text is None:
        text, dt, err, rc = M.dump_mir(s, "erg_compiler", overflow_checks=True, extra_cargo=["--lib"])
    if rc != 0 or len(text) < 1000:
        log("MIR dump failed:\n" + err[-3000:])
        for ob in obs.values():
            ob.update(verdict=BROKEN, reason="cargo +nightly rustc -Zunpretty=mir failed")
        return None, []
    log("  MIR dump erg_compiler: %.0fs, %d MB" % (dt, len(text) >> 20))
    fns = M.parse_mir(text, want=["::transpile_expr"])
    del text
    mains = [f for f in fns.values() if f.short == "transpile_expr" and f.params and "JsonGenerator" in f.params[0][1]]
    if len(mains) != 1:
        for ob in obs.values():
            ob.update(verdict=BROKEN, reason="JsonGenerator::transpile_expr not found uniquely in the MIR dump (%d)" % len(mains))
        return None, []
    local_fns = set(re.findall(r"^\s*(?:pub(?:\([^)]*\))?\s+)?fn (\w+)", tsrc, re.M))
    writers, viol = {}, []
    for k, site in SITES.items():
        ob = obs[k]
        try:
            flow = S.SemFlow(fns, mains[0], [], {"Expr": variants, "Option": ["None", "Some"]})
            if k == "literal":
                fields = [const("lit_%s" % f) for f in lfields]
                node = ("agg", "hir::Literal", fields)
                value_term = fields[lfields.index("value")]
            else:
                node = const("the_" + k.replace("-", "_"))
                value_term = None
            pre = {"_1": const("generator"), "_2": ("agg", "hir::Expr::" + site["variant"], [node])}
            outs = flow.run("bb0", stop_at=(), pre=pre, pc=list(S.BASE_AXIOMS))
            solver = z3.Solver()
            npaths, good, bad, src_calls = 0, 0, [], 0
            for Q, end in outs:
                if end != "return":
                    continue
                solver.push()
                solver.add(*Q.pc)
                if solver.check() != z3.sat:
                    solver.pop()
                    continue
                solver.pop()
                # the paths of interest: a value was found
                src = None
                if k == "bound-name":
                    got = [c for c in Q.calls if re.search(r"Dict::<.*>::get|HashMap::<.*>::get", c[0])]
                    if not got:
                        continue
                    src = got[-1][2]
                    solver.push()
                    solver.add(*Q.pc)
                    solver.add(DISC(flow.term(src)) != 1)     # not the `Some` answer
                    some = solver.check() == z3.unsat
                    solver.pop()
                    if not some:
                        continue
                elif k == "folded-constant":
                    got = [c for c in Q.calls if c[0].endswith("expr_into_value")]
                    if not got:
                        continue
                    src = got[-1][2]
                    solver.push()
                    solver.add(*Q.pc)
                    solver.add(DISC(flow.term(src)) != 1)
                    some = solver.check() == z3.unsat
                    solver.pop()
                    if not some:
                        continue
                npaths += 1
                r = Q.locals.get("_0")
                rt = flow.term(r) if r is not None else None
                rec = next((c for c in Q.calls if c[2] is not None and z3.is_expr(c[2]) and rt is not None and c[2].eq(rt)), None)
                okv = False
                if rec is not None and rec[1]:
                    a = rec[1][0]
                    try:
                        at = flow.term(flow.referent(Q, a)) if isinstance(a, (Ref, tuple)) else a
                    except Unsupported:
                        at = None
                    if at is not None and z3.is_expr(at):
                        if value_term is not None:
                            okv = at.eq(value_term)
                        else:
                            okv = any(x.eq(flow.term(src)) for x in subterms(at))
                fname = re.sub(r"::<.*$", "", rec[0]).rsplit("::", 1)[-1] if rec is not None else None
                if rec is not None and okv and fname in local_fns and len(rec[1]) == 1:
                    good += 1
                    writers.setdefault(fname, set()).add(k)
                else:
                    bad.append("%s" % (rec[0] if rec is not None else str(rt)[:120]))
            ob["queries"] = flow.queries + npaths
            ob["detail"] = {"paths that return text for %s" % site["what"]: npaths, "through a value writer": good}
            if npaths == 0:
                ob.update(verdict=BROKEN, reason="no path returns text for %s (vacuous encoding)" % site["what"])
            elif bad:
                ob.update(verdict=VIOLATED, reason="the text written for %s is not a JSON writer applied to %s but `%s` (Erg/Python notation: None, True, unescaped quotes)" % (site["what"], site["value"], bad[0][:160]))
                viol.append(ob)
            else:
                ob.update(verdict=HELD, reason="on all %d paths the text of %s is %s(%s)" % (npaths, site["what"], sorted(writers)[0] if writers else "?", site["value"]))
        except Unsupported as e:
            ob.update(verdict=INCONCLUSIVE, reason="unsupported-construct: " + str(e)[:200])
    F = None
    if writers:
        F = max(writers, key=lambda w: len(writers[w]))
        if len(writers) > 1:
            for k, ob in obs.items():
                if ob.get("verdict") == HELD and k not in writers[F]:
                    ob["reason"] += " (a different writer than the %s used elsewhere; only %s is model-checked in stage 2)" % (F, F)
                    ob["verdict"] = INCONCLUSIVE
    log("  stage 1: writer %s, %d site(s) violated, %.0fs" % (F, len(viol), time.time() - t0))
    return F, viol


def build_exe(s):
    tdir = os.path.join(s.root, "native")
    exe = os.path.join(tdir, "debug", "erg")
    if os.path.exists(exe):
        return exe
    rc, out, dt = sh(["cargo", "build", "--offline", "--bin", "erg"], cwd=s.src, env=s.env(CARGO_TARGET_DIR=tdir), timeout=2400)
    return exe if rc == 0 and os.path.exists(exe) else None


def transpile(s, exe, name, program):
    """(parsed or None, raw text, note)"""
    f = os.path.join(s.root, name + ".er")
    j = os.path.join(s.root, name + ".json")
    open(f, "w").write(program)
    if os.path.exists(j):
        os.remove(j)
    rc, out, _ = sh([exe, "transpile", "--target", "json", f], env=s.env(), timeout=120)
    if not os.path.exists(j):
        return None, "", "no output file (rc=%s): %s" % (rc, re.sub(r"\x1b\[[0-9;]*m", "", out)[-300:])
    raw = open(j, encoding="utf-8", errors="replace").read()
    try:
        return json.loads(raw), raw, ""
    except ValueError as e:
        return None, raw, "json.loads: %s" % e


def e2e(s, viol, F):
    exe = build_exe(s)
    for ob in viol:
        k = ob["key"].split("/", 1)[1]
        site = SITES[k]
        if not exe:
            ob.update(verdict=INCONCLUSIVE, reason="no end-to-end replay available (erg did not build): " + ob["reason"])
            continue
        got, raw, note = transpile(s, exe, "site_" + k.replace("-", "_"), site["program"])
        if note.startswith("no output file"):
            ob.update(verdict=INCONCLUSIVE, reason="the replay module did not compile (%s): %s" % (note[:120], ob["reason"]))
            continue
        differs = got != site["expect"]
        ob["end_to_end"] = {"program": site["program"], "output": raw[:600], "json.loads": note or "ok", "expected": site["expect"], "differs": differs}
        log("  e2e %s: %s" % (ob["key"], note or ("differs" if differs else "same value")))
        if not differs:
            ob["verdict"] = INCONCLUSIVE
            ob["reason"] = "the text does not come from the value writer, but the replay module transpiles to the expected JSON (%s)" % ob["reason"]
    return exe


def e2e_writer(s, kviol, exe):
    """a violated writer obligation with its counterexample string, end to end (when the string can be written as an Erg literal)"""
    exe = exe or build_exe(s)
    if not exe:
        return
    prog = '.n = None\n.t = True\n.f = False\n.q = "\\""\n.b = "\\\\"\n.nl = "a\\nb"\n.u = "é😀"\n.l = [True, False]\n.p = (None, True)\n'
    expect = {"n": None, "t": True, "f": False, "q": '"', "b": "\\", "nl": "a\nb", "u": "é😀", "l": [True, False], "p": [None, True]}
    got, raw, note = transpile(s, exe, "writer_battery", prog)
    for ob in kviol:
        ob["end_to_end"] = {"program": prog, "output": raw[:600], "json.loads": note or "ok", "expected": expect, "differs": got != expect,
                            "note": "battery of fixed values; the counterexample itself is replayed natively against the writer"}
    log("  e2e writer battery: %s" % (note or ("differs" if got != expect else "same values")))


def e2e_struct(s, viol, exe):
    """a violated structure obligation: a battery of container displays, end to end"""
    exe = exe or build_exe(s)
    prog = ('.l1 = [1]\n.l2 = [1, 2]\n.l3 = [1, 2, 3]\n.t2 = (1, "a")\n.t3 = (1, 2, 3)\n.r1 = {.x = 1}\n.r2 = {.x = 1; .y = "z"}\n.r3 = {.x = 1; .y = 2; .z = 3}\n'
            '.d1 = {"k": 1}\n.d2 = {"k": 1, "l": 2}\n.n = [[1, 2], [3, 4]]\n.m = {.a = [1, 2]; .b = (3, {.c = "d"})}\n'
            '.le = []\n.te = ()\n.re = {=}\n.de = {:}\n.x = {.items = (); .n = 1}\n'
            '.vl = [1, 2]\n.vl2 = .vl\n.vt = (1, "a")\n.vt2 = .vt\n.vd = {"k": None, "j": None}\n.vd2 = .vd\n.vr = {.v = True; .n = 2}\n.vr2 = .vr\n')
    expect = {"l1": [1], "l2": [1, 2], "l3": [1, 2, 3], "t2": [1, "a"], "t3": [1, 2, 3], "r1": {"x": 1}, "r2": {"x": 1, "y": "z"}, "r3": {"x": 1, "y": 2, "z": 3},
              "d1": {"k": 1}, "d2": {"k": 1, "l": 2}, "n": [[1, 2], [3, 4]], "m": {"a": [1, 2], "b": [3, {"c": "d"}]},
              "le": [], "te": [], "re": {}, "de": {}, "x": {"items": [], "n": 1},
              "vl": [1, 2], "vl2": [1, 2], "vt": [1, "a"], "vt2": [1, "a"], "vd": {"k": None, "j": None}, "vd2": {"k": None, "j": None},
              "vr": {"v": True, "n": 2}, "vr2": {"v": True, "n": 2}}
    for ob in viol:
        if not exe:
            ob.update(verdict=INCONCLUSIVE, reason="no end-to-end replay available (erg did not build): " + ob["reason"])
            continue
        got, raw, note = transpile(s, exe, "struct_battery", prog)
        if note.startswith("no output file"):
            ob.update(verdict=INCONCLUSIVE, reason="the replay battery did not compile (%s): %s" % (note[:120], ob["reason"]))
            differs = None
            continue
        differs = got != expect
        ob["end_to_end"] = {"program": prog, "output": raw[:900], "json.loads": note or "ok", "expected": expect, "differs": differs}
        if not differs:
            ob["verdict"] = INCONCLUSIVE
            ob["reason"] = "the structure differs from the reference, but the replay battery transpiles to the expected JSON (%s)" % ob["reason"]
    log("  e2e structure battery: %s" % ("no erg" if not exe else (note or ("differs" if differs else "same values"))))
    return exe
