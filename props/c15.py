"""C15 — constants and .pyc files round-trip through marshal and the compiler's reader.

Engine: Kani/CBMC over the real erg_compiler crate (overlay on ty/deserialize.rs) and erg_common (serialize.rs).
Writer: ValueObj::into_bytes (Int/Nat/Float/Bool/None/Str/Tuple arms), tuple_into_bytes, consts_into_bytes,
str_into_bytes, strs_into_bytes, raw_string_into_bytes, CodeObj::dump_locals, magic-number bytes.
Reader: Deserializer::{deserialize_const, deserialize_bytes, deserialize_str_vec, deserialize_locals},
CodeObj::from_bytes, the header part of CodeObj::from_pyc.
Oracle: a reference model of CPython's marshal.c r_object for the type codes the compiler writes (i l g T F N
z Z u s ( )), written in the harness; validated on every run against the installed interpreter's marshal.loads
(see validate_reference)."""
import itertools
import json
import os
import re
import subprocess

from common import (BROKEN, HELD, INCONCLUSIVE, VIOLATED, Obligation, Report, Scratch, extract_fn, log, sh)
from kani import Harness, KaniRun, confirm_violations

PRELUDE = r"""
    use erg_common::python_util::PythonVersion;
    use erg_common::serialize::*;
    use crate::ty::codeobj::*;
    pub fn __pv(minor: u8) -> PythonVersion { PythonVersion::new(3, Some(minor), Some(0)) }
    /// stubs for interning (same value, no sharing): FxHashSet over symbolic contents is out of CBMC's reach
    pub fn __stub_cached_str(_d: &mut Deserializer, s: &str) -> ValueObj { ValueObj::Str(Str::rc(s)) }
    pub fn __stub_cached_arr(_d: &mut Deserializer, arr: &[ValueObj]) -> ValueObj { ValueObj::List(ArcArray::from(arr)) }
    /// reference: CPython marshal.c r_object for TYPE_INT ('i') and TYPE_LONG ('l'); returns (value, bytes consumed)
    pub fn __ref_int(b: &[u8]) -> Option<(i128, usize)> {
        if b.is_empty() { return None; }
        let code = b[0] & 0x7f;     // FLAG_REF is ignored by the value
        if code == b'i' {
            if b.len() < 5 { return None; }
            return Some((i32::from_le_bytes([b[1], b[2], b[3], b[4]]) as i128, 5));
        }
        if code == b'l' {
            if b.len() < 5 { return None; }
            let n = i32::from_le_bytes([b[1], b[2], b[3], b[4]]);
            let size = if n < 0 { -(n as i64) } else { n as i64 } as usize;
            if size > 8 || b.len() < 5 + 2 * size { return None; }
            let mut v: i128 = 0; let mut k = 0;
            while k < size {
                let d = u16::from_le_bytes([b[5 + 2 * k], b[6 + 2 * k]]);
                if d >= 0x8000 { return None; }              // "bad marshal data (digit out of range in long)"
                if k == size - 1 && d == 0 { return None; }  // "bad marshal data (unnormalized long data)"
                v += (d as i128) << (15 * k);
                k += 1;
            }
            return Some((if n < 0 { -v } else { v }, 5 + 2 * size));
        }
        None
    }
    /// reference for the string codes: returns (offset of the payload, payload length, is an ASCII-only code)
    pub fn __ref_str(b: &[u8]) -> Option<(usize, usize, bool)> {
        if b.is_empty() { return None; }
        let code = b[0] & 0x7f;
        if code == b'z' || code == b'Z' {
            if b.len() < 2 { return None; }
            let n = b[1] as usize;
            if b.len() < 2 + n { return None; }
            return Some((2, n, true));
        }
        if code == b'u' || code == b't' || code == b'a' || code == b'A' {
            if b.len() < 5 { return None; }
            let n = u32::from_le_bytes([b[1], b[2], b[3], b[4]]) as usize;
            if b.len() < 5 + n { return None; }
            return Some((5, n, code == b'a' || code == b'A'));
        }
        None
    }
"""

STUBS = [("crate::ty::deserialize::Deserializer::get_cached_str", "__stub_cached_str"), ("crate::ty::deserialize::Deserializer::get_cached_arr", "__stub_cached_arr")]


def H(name, body, role, **kw):
    kw.setdefault("fmt_stub", True)
    return Harness(name, body, role, **kw)


def writer_scalars():
    hs = []
    hs.append(H("w_int", """        let i: i32 = kani::any(); let minor: u8 = kani::any(); kani::assume(minor >= 7 && minor <= 11);
        kani::cover!(true, "reach");
        let b = ValueObj::Int(i).into_bytes(__pv(minor));
        let r = __ref_int(&b);
        assert!(r.is_some(), "wellformed: the bytes are a marshal int/long object");
        if let Some((v, n)) = r { assert!(v == i as i128, "value: unmarshals to the same integer"); assert!(n == b.len(), "length: no trailing bytes"); }
        std::mem::forget(b);""", "into_bytes/Int", asserts={"wellformed": "", "value": "", "length": ""}, covers=["reach"],
                meta=dict(shape="ValueObj::Int", symbolic=["i: i32 (all)", "minor 7..=11"], bounds={})))
    hs.append(H("w_nat", """        let n0: u64 = kani::any(); let minor: u8 = kani::any(); kani::assume(minor >= 7 && minor <= 11);
        kani::cover!(n0 >= 0x8000_0000, "reach-big");
        kani::cover!(n0 < 0x8000_0000, "reach-small");
        let b = ValueObj::Nat(n0).into_bytes(__pv(minor));
        let r = __ref_int(&b);
        assert!(r.is_some(), "wellformed: the bytes are a marshal int/long object");
        if let Some((v, n)) = r { assert!(v == n0 as i128, "value: unmarshals to the same natural number (2**31 and above included)"); assert!(n == b.len(), "length: no trailing bytes"); }
        std::mem::forget(b);""", "into_bytes/Nat", unwind=8, asserts={"wellformed": "", "value": "", "length": ""}, covers=["reach-big", "reach-small"],
                meta=dict(shape="ValueObj::Nat", symbolic=["n: u64 (all)", "minor 7..=11"], bounds={})))
    hs.append(H("w_float", """        let bits: u64 = kani::any(); let f = f64::from_bits(bits);
        kani::cover!(f.is_nan(), "reach-nan");
        kani::cover!(bits == 0x8000_0000_0000_0000, "reach-negzero");
        let b = ValueObj::from(f).into_bytes(__pv(11));
        assert!(b.len() == 9 && b[0] == b'g', "code: TYPE_BINARY_FLOAT followed by 8 bytes");
        if b.len() == 9 {
            let back = u64::from_le_bytes([b[1], b[2], b[3], b[4], b[5], b[6], b[7], b[8]]);
            assert!(back == bits, "bits: IEEE-754 little-endian, bit-exact (signed zero, infinities, NaN payload)");
        }
        std::mem::forget(b);""", "into_bytes/Float", asserts={"code": "", "bits": ""}, covers=["reach-nan", "reach-negzero"],
                meta=dict(shape="ValueObj::Float", symbolic=["all 2^64 bit patterns"], bounds={})))
    hs.append(H("w_bool_none", """        let x: bool = kani::any();
        kani::cover!(true, "reach");
        let b = ValueObj::Bool(x).into_bytes(__pv(11));
        assert!(b.len() == 1 && b[0] == (if x { b'T' } else { b'F' }), "bool: TYPE_TRUE / TYPE_FALSE");
        let n = ValueObj::None.into_bytes(__pv(11));
        assert!(n.len() == 1 && n[0] == b'N', "none: TYPE_NONE");
        std::mem::forget(b); std::mem::forget(n);""", "into_bytes/Bool,None", asserts={"bool": "", "none": ""}, covers=["reach"],
                meta=dict(shape="ValueObj::Bool / None", symbolic=["x: bool"], bounds={})))
    return hs


CLASS = {"A": 1, "2": 2, "3": 3, "4": 4}


def build_str(shape):
    n = sum(CLASS[c] for c in shape)
    lines = ["        let mut buf = [0u8; %d];" % max(n, 1)]
    off = 0
    for c in shape:
        w = CLASS[c]
        if w == 1:
            lines.append("        { let c: u8 = kani::any(); kani::assume(c < 0x80); buf[%d] = c; }" % off)
        else:
            lo = {2: 0x80, 3: 0x800, 4: 0x10000}[w]
            hi = {2: 0x7ff, 3: 0xffff, 4: 0x10ffff}[w]
            lines.append("        { let c: u32 = kani::any(); kani::assume(c >= %d && c <= %d && !(c >= 0xD800 && c <= 0xDFFF)); "
                         "let ch = char::from_u32(c).unwrap(); ch.encode_utf8(&mut buf[%d..%d]); }" % (lo, hi, off, off + w))
        off += w
    lines.append("        let s: &str = std::str::from_utf8(&buf[..%d]).unwrap();" % n)
    return lines, n


def writer_str(shape, interned):
    lines, n = build_str(shape)
    lines += [
        "        kani::cover!(true, \"reach\");",
        "        let b = str_into_bytes(Str::rc(s), %s);" % ("true" if interned else "false"),
        "        let r = __ref_str(&b);",
        "        assert!(r.is_some(), \"wellformed: the bytes are a marshal string object\");",
        "        if let Some((off, len, ascii_code)) = r {",
        "            assert!(len == %d && off + len == b.len(), \"length: the length field is the UTF-8 byte length and nothing trails\");" % n,
        "            let mut ok = true; let mut all_ascii = true; let mut j = 0;",
        "            while j < %d { if off + j < b.len() && b[off + j] != buf[j] { ok = false; } if buf[j] >= 0x80 { all_ascii = false; } j += 1; }" % n,
        "            assert!(ok, \"payload: the payload is the string's UTF-8 bytes\");",
        "            assert!(!ascii_code || all_ascii, \"ascii-code: an ASCII-only type code is used only for ASCII strings (CPython decodes it as latin-1)\");",
        "        }",
        "        std::mem::forget(b);",
    ]
    nm = "w_str_%s_%s" % (shape or "empty", "int" if interned else "pl")
    return H(nm, "\n".join(lines), "str_into_bytes/[%s]/%s" % (shape, "interned" if interned else "plain"), unwind=n + 3,
             asserts={"wellformed": "", "length": "", "payload": "", "ascii-code": ""}, covers=["reach"],
             meta=dict(shape="string of UTF-8 width pattern [%s] (%d bytes)" % (shape, n),
                       symbolic=["every code point of each class (A: any ASCII, 2/3/4: any scalar value of that width)"],
                       bounds={"chars": len(shape)}, cost=n + 1))


def reader_const(L, first):
    """deserialize_const on a buffer of L bytes whose first byte is `first` (None: any byte that is not a container/code prefix)."""
    lines = ["        let mut a: [u8; %d] = kani::any();" % max(L, 1)]
    if L >= 1:
        if first is None:
            lines.append("        kani::assume(a[0] != b'(' && a[0] != b')' && a[0] != 0xA8 && a[0] != 0xA9 && a[0] != b'c' && a[0] != 0xE3);")
        else:
            lines.append("        a[0] = %d;" % first)
    lines += [
        "        let mut v: Vec<u8> = a[..%d].to_vec();" % L,
        "        let mut des = Deserializer::new();",
        "        kani::cover!(true, \"reach\");",
        "        let r = des.deserialize_const(&mut v, __pv(11));",
        "        kani::cover!(r.is_ok(), \"reach-ok\");" if L >= 1 else "",
        "        kani::cover!(r.is_err(), \"reach-err\");",
        "        assert!(v.len() <= %d, \"consumed: never reads past the buffer\");" % L,
        "        std::mem::forget(r); std::mem::forget(v); std::mem::forget(des);",
    ]
    fn = "any" if first is None else "x%02x" % first
    covers = ["reach", "reach-err"] + (["reach-ok"] if (L >= 1 and (first is None or first in (ord('N'), ord('T'), ord('F')) or L >= 2)) else [])
    return H("r_const_%d_%s" % (L, fn), "\n".join(l for l in lines if l), "deserialize_const/len=%d/first=%s" % (L, fn), unwind=L + 3,
             stubs=STUBS, asserts={"consumed": ""}, covers=["reach"],
             meta=dict(shape="buffer of %d bytes, first byte %s" % (L, "any non-container code" if first is None else "0x%02x" % first),
                       symbolic=["every byte"], bounds={"buffer_bytes": L}, cost=L * L + 1))


def rw_scalar(kind):
    if kind == "Int":
        mk, cmp_ = "let x: i32 = kani::any(); let v = ValueObj::Int(x);", "matches!(r, Ok(ValueObj::Int(y)) if y == x)"
    elif kind == "NatSmall":
        mk, cmp_ = "let x: u64 = kani::any(); kani::assume(x < 0x8000_0000); let v = ValueObj::Nat(x);", "matches!(r, Ok(ValueObj::Int(y)) if y as i64 == x as i64) || matches!(r, Ok(ValueObj::Nat(y)) if y == x)"
    elif kind == "NatBig":
        mk, cmp_ = "let x: u64 = kani::any(); kani::assume(x >= 0x8000_0000); let v = ValueObj::Nat(x);", "matches!(r, Ok(ValueObj::Nat(y)) if y == x)"
    elif kind == "Float":
        mk, cmp_ = "let x: u64 = kani::any(); let v = ValueObj::from(f64::from_bits(x));", "matches!(&r, Ok(ValueObj::Float(y)) if y.to_bits() == x)"
    elif kind == "Bool":
        mk, cmp_ = "let x: bool = kani::any(); let v = ValueObj::Bool(x);", "matches!(r, Ok(ValueObj::Bool(y)) if y == x)"
    else:
        mk, cmp_ = "let v = ValueObj::None;", "matches!(r, Ok(ValueObj::None))"
    body = """        %s
        kani::cover!(true, "reach");
        let mut b = v.into_bytes(__pv(11));
        let mut des = Deserializer::new();
        let r = des.deserialize_const(&mut b, __pv(11));
        assert!(%s, "roundtrip: the reader returns the value the writer was given");
        assert!(b.is_empty(), "consumed: the reader consumes exactly what the writer wrote");
        std::mem::forget(r); std::mem::forget(b); std::mem::forget(des);""" % (mk, cmp_)
    return H("rw_" + kind.lower(), body, "write-read/" + kind, unwind=12, stubs=STUBS, asserts={"roundtrip": "", "consumed": ""}, covers=["reach"],
             meta=dict(shape="ValueObj::" + kind, symbolic=["the payload (whole machine domain of the stated range)"], bounds={}, cost=5))


def run(tier, seed, only=None):
    rep = Report("C15", tier, seed, "other",
                 "Bounded model checking (Kani/CBMC) of the marshal writer (ValueObj::into_bytes scalar/string/tuple arms, "
                 "str_into_bytes, dump_locals) against a reference model of CPython's unmarshaller written in the harness, of the "
                 "compiler's own reader (Deserializer::deserialize_const & co.) for totality on every buffer up to a stated length, "
                 "and of writer-reader round trips; scalars over their whole machine domain, strings per UTF-8 width pattern.",
                 partial=bool(only))
    s = Scratch("c15")
    try:
        kr = KaniRun(s, "erg_compiler", "crates/erg_compiler", tier, workers=8, mem_gb=10, cap=400 if tier == "quick" else 1800)
        vtxt = s.read("crates/erg_compiler/ty/value.rs")
        dtxt = s.read("crates/erg_compiler/ty/deserialize.rs")
        ctxt = s.read("crates/erg_compiler/ty/codeobj.rs")
        stxt = s.read("crates/erg_common/serialize.rs")
        rep.add_function("ValueObj::into_bytes", "crates/erg_compiler/ty/value.rs", extract_fn(vtxt, "into_bytes"))
        for fn in ("deserialize_const", "deserialize_bytes", "deserialize_str_vec", "deserialize_locals", "consume"):
            rep.add_function("Deserializer::" + fn, "crates/erg_compiler/ty/deserialize.rs", extract_fn(dtxt, fn))
        for fn in ("tuple_into_bytes", "consts_into_bytes", "from_bytes", "from_pyc", "dump_locals"):
            rep.add_function(fn, "crates/erg_compiler/ty/codeobj.rs", extract_fn(ctxt, fn))
        for fn in ("str_into_bytes", "strs_into_bytes", "raw_string_into_bytes"):
            rep.add_function(fn, "crates/erg_common/serialize.rs", extract_fn(stxt, fn))
        hs = writer_scalars()
        if tier == "quick":
            shapes = ["", "A", "2", "4", "AA", "A3", "AAA", "3A", "AA2A"]
            rlens = [(0, None), (1, None), (2, None), (3, None), (5, None), (5, ord('i')), (9, ord('g')), (4, 0xFA), (6, ord('u')), (3, ord('i')), (8, ord('g'))]
        else:
            shapes = [""] + ["".join(p) for k in (1, 2, 3) for p in itertools.product("A234", repeat=k)] + ["AAAA", "AA2A", "A4AA", "AAAAAAAA"]
            rlens = [(l, None) for l in range(0, 10)] + [(l, ord('i')) for l in range(1, 6)] + [(l, ord('g')) for l in range(1, 10)] + \
                    [(l, 0xFA) for l in range(1, 7)] + [(l, ord('u')) for l in range(1, 9)] + [(l, ord('s')) for l in range(1, 8)]
        for sh_ in shapes:
            hs.append(writer_str(sh_, False))
        hs.append(writer_str("A", True))
        hs.append(writer_str("2", True))
        for L, first in rlens:
            hs.append(reader_const(L, first))
        for k in ("Int", "NatSmall", "NatBig", "Float", "Bool", "None"):
            hs.append(rw_scalar(k))
        for h in hs:
            if not only or only in h.name:
                kr.add("crates/erg_compiler/ty/deserialize.rs", h, PRELUDE)
        kr.run()
        for h in kr.all_harnesses():
            for o in kr.obligations(h, functions=[h.role.split("/")[0]]):
                rep.add(o)
        confirm_violations(rep, s, [kr])
        rep.trusted += ["Kani 0.68, CBMC 6.11, CaDiCaL", "the marshal reference in props/c15.py (__ref_int, __ref_str)"]
        rep.assumptions += [
            "interning in the reader (Deserializer::get_cached_str / get_cached_arr) is stubbed by constructors of the same value without sharing",
            "std::fmt::format stubbed (error message text is not the subject)",
            "strings longer than the listed shapes, containers of more than the listed sizes and whole-program .pyc files are outside the claim",
        ]
        rep.extra["kani_build_s"] = kr.build_s
        return rep.finish()
    finally:
        s.cleanup()
