"""C32 — refinement predicate combinators denote set operations.

`Predicate::and`, `Predicate::or`, `Predicate::invert` (and the derived constructors `gt`, `lt`, `ge`, `le`, `eq`, `ne`) are
executed symbolically from their rustc MIR (engine mirsem) on operand shapes — atoms `I == n`, `I >= n`, `I <= n`, `I != n`
with unbounded symbolic `n` and symbolic kind, `True/False` with a symbolic truth value, `And`, `Or`, `Not` of those — and the
predicate each path *builds* is read back structurally; z3 decides, at an arbitrary integer i0,

        denotation(result)(i0)  ==  denotation(lhs)(i0) AND / OR denotation(rhs)(i0)   /   NOT denotation(operand)(i0).

The recursive uses (`*r & other`, `gt` = `ge and ne`) are inlined from the same MIR dump; in mode `rule` the sub-predicates are
opaque and the recursive call is replaced by its specification (one inductive step).  A counterexample is a concrete pair of
predicates and an integer; it is rebuilt natively, run through the real function and evaluated by a reference evaluator in the
replay binary.  The encoding is validated on every run: on concrete operands the real result's truth value at each integer of
a window must be the one the symbolic execution predicts."""
import itertools
import random
import re
import time

import z3

import mir2smt as M
import mirsem as S
from c03 import (ATOMS, DENF, HELPERS_BASE, I0, SHORT, VAL, World, atom_sp, conc_constraints, conc_den, conc_erg, conc_from_model, conc_rust,
                 rel, shape_name)
from common import (BROKEN, HELD, INCONCLUSIVE, VIOLATED, Obligation, Report, Scratch, extract_fn, log)
from mirflow import DISC, Ref, Unsupported, const, fun
from native import NativeRun


class W32(World):
    def __init__(self, fns, vidx, mode):
        World.__init__(self, fns, vidx, mode)
        self.depth = 0

    def pfn(self, short, param0=None):
        c = [f for f in self.fns.values() if f.short == short and "predicate::<impl" in f.name
             and (param0 is None or (f.params and param0 in f.params[0][1]))]
        if len({f.name for f in c}) != 1:
            raise Unsupported("Predicate::%s not found uniquely in the MIR dump" % short)
        return c[0]

    def known(self, P, v):
        v = self.flow.deref_all(P, v)
        if self.as_atom(v):
            return True
        if isinstance(v, tuple) and v[0] == "agg":
            last = v[1].split("::")[-1]
            if last == "Value":
                return True
            if last in ("And", "Not"):
                return all(self.known(P, self.unbox(b)) for b in v[2])
            if last == "Or":
                return all(self.known(P, e) for e in v[2][0][1])
        return False

    def models(self):
        W = self
        base = World.models(self)
        used = self.models_used

        def m(name):
            def deco(f):
                def g(flow, P, callee, args):
                    used.add(name)
                    return f(flow, P, callee, args)
                return g
            return deco

        def combine(flow, P, args, op):
            """the recursive use of and / or: inlined while the operands are fully known (depth-bounded), else its specification"""
            if W.mode == "concrete" and W.depth < 3 and all(W.known(P, a) for a in args):
                W.depth += 1
                try:
                    return flow.inline(P, W.pfn(op), args)
                finally:
                    W.depth -= 1
            r = flow.fresh("comb")
            comb = z3.And if op == "and" else z3.Or
            P.pc.append(DENF(r, I0) == comb(W.den(P, args[0]), W.den(P, args[1])))
            return r

        @m("Predicate::and / <Predicate as BitAnd>::bitand on sub-predicates: inlined (mode concrete) or replaced by its specification (mode rule)")
        def p_and(flow, P, callee, args):
            return combine(flow, P, args, "and")

        @m("Predicate::or / <Predicate as BitOr>::bitor on sub-predicates: inlined (mode concrete) or replaced by its specification (mode rule)")
        def p_or(flow, P, callee, args):
            return combine(flow, P, args, "or")

        @m("Predicate::{eq, ne, ge, le, gt, lt}: inlined from the MIR dump")
        def ctor(flow, P, callee, args):
            return flow.inline(P, W.pfn(callee.rsplit("::", 1)[-1], param0="Str"), args)

        @m("Box::new: a fresh place  (std contract)")
        def box_new(flow, P, callee, args):
            return W.box(flow.new_place(P, "pbox", args[0]))

        @m("<Box<T> as AsRef<T>>::as_ref: the reference inside the box  (std contract)")
        def box_as_ref(flow, P, callee, args):
            return W.unbox(flow.deref_all(P, args[0]))

        @m("<Box<T> as Drop>::drop: no effect on the values observed")
        def box_drop(flow, P, callee, args):
            return const("unit")

        @m("Clone::clone of Str / TyParam / Predicate: the same value")
        def clone(flow, P, callee, args):
            return flow.deref_all(P, args[0])

        @m("<Str as PartialEq>::eq on subjects: all predicates speak about the same variable (true)")
        def str_eq(flow, P, callee, args):
            return S.TRUE

        @m("<TyParam as PartialEq>::eq: integer literals are equal iff their values are")
        def tp_eq(flow, P, callee, args):
            a, b = flow.deref_all(P, args[0]), flow.deref_all(P, args[1])
            e = VAL(flow.term(a)) == VAL(flow.term(b))
            return flow.mkbool(P, e if callee.endswith("::eq") else z3.Not(e))

        @m("TyParam::cheap_cmp on integer literals: Some(Less | Equal | Greater), exactly (validated natively)")
        def cheap_cmp(flow, P, callee, args):
            a, b = VAL(flow.term(flow.deref_all(P, args[0]))), VAL(flow.term(flow.deref_all(P, args[1])))
            o = flow.fresh("opt")
            od = fun("field0", 1)(fun("as_Some", 1)(o))
            P.pc.append(DISC(o) == 1)
            P.pc.append(DISC(od) == z3.If(a < b, W.oidx["Less"], z3.If(a == b, W.oidx["Equal"], W.oidx["Greater"])))
            return o

        @m("erg_common::Set::{new, insert, union}: a set is the list of its elements (duplicates do not change a disjunction)")
        def set_new(flow, P, callee, args):
            return ("set", [])

        def set_insert(flow, P, callee, args):
            r = args[0]
            st = flow.read(P, r.local, list(r.path))
            if not (isinstance(st, tuple) and st[0] == "set"):
                raise Unsupported("insert into %r" % (st,))
            flow.write(P, r.local, list(r.path), ("set", list(st[1]) + [flow.new_place(P, "pel", args[1])]))
            return flow.fresh("ins")

        def set_union(flow, P, callee, args):
            a, b = flow.deref_all(P, args[0]), flow.deref_all(P, args[1])
            return ("set", list(a[1]) + list(b[1]))

        extra = [
            (r"^<&?(ty::)?predicate::Predicate as PartialEq>::eq$", [f for pat, f in base if "Predicate as PartialEq" in pat][0]),
            (r"^predicate::Predicate::and$|^<predicate::Predicate as (std::ops::)?BitAnd>::bitand$", p_and),
            (r"^predicate::Predicate::or$|^<predicate::Predicate as (std::ops::)?BitOr>::bitor$", p_or),
            (r"^predicate::Predicate::(eq|ne|ge|le|gt|lt)$", ctor),
            (r"^Box::<predicate::Predicate>::new$", box_new),
            (r"^<Box<predicate::Predicate> as AsRef<predicate::Predicate>>::as_ref$", box_as_ref),
            (r"^<Box<predicate::Predicate> as Drop>::drop$", box_drop),
            (r"^<(erg_common::Str|typaram::TyParam|predicate::Predicate) as Clone>::clone$", clone),
            (r"^<erg_common::Str as PartialEq>::eq$", str_eq),
            (r"^<typaram::TyParam as PartialEq>::(eq|ne)$", tp_eq),
            (r"typaram::TyParam::cheap_cmp$|^TyParam::cheap_cmp$", cheap_cmp),
            (r"set::Set::<predicate::Predicate>::new$", set_new),
            (r"set::Set::<predicate::Predicate>::insert$", set_insert),
            (r"set::Set::<predicate::Predicate>::union$", set_union),
        ]
        return extra + base

    def run_fn(self, fn, specs, scalars=None):
        """execute fn on by-value operands of the given shapes (or raw scalar terms); returns (flow, operand refs, paths)"""
        flow = S.SemFlow(self.fns, fn, None, self.vidx)
        flow.models = self.models()
        flow.named_consts = {
            "ty::predicate::Predicate::FALSE": ("agg", "predicate::Predicate::Value", [("agg", "value::ValueObj::Bool", [S.FALSE])]),
            "ty::predicate::Predicate::TRUE": ("agg", "predicate::Predicate::Value", [("agg", "value::ValueObj::Bool", [S.TRUE])]),
        }
        self.flow = flow
        P0 = S.Path()
        P0.pc = list(S.BASE_AXIOMS)
        refs = []
        pre = {}
        for i, sp in enumerate(specs):
            r = self.build(P0, sp, "LR"[i] if len(specs) <= 2 else "X%d" % i)
            refs.append(r)
        pre.update(P0.locals)
        for i, r in enumerate(refs):
            pre["_%d" % (i + 1)] = P0.locals[r.local]
        for k, v in (scalars or {}).items():
            pre[k] = v
        outs = flow.run("bb0", stop_at=(), pre=pre, pc=P0.pc)
        return flow, refs, [(Q, Q.locals.get("_0")) for Q, end in outs if end == "return"]


NATIVE_HELPERS = HELPERS_BASE + r"""
    fn win(p: &Predicate) -> String { (-4i64..=4).map(|i| if den(p, i) { '1' } else { '0' }).collect() }
"""
WINDOW = list(range(-4, 5))


def operand_shapes(tier):
    a, p, B = atom_sp(), ("leaf",), ("bool",)
    conc = [a, B, ("and", a, a), ("or", [a, a])]
    rule = [("and", p, p), ("or", [p, p])]
    if tier == "thorough":
        conc += [("and", a, ("and", a, a)), ("or", [a, a, a]), ("and", a, ("or", [a, a])), ("or", [a, ("and", a, a)]), ("not", a)]
        rule += [("and", p, ("and", p, p)), ("or", [p, p, p])]
    return conc, rule


def run(tier, seed, only=None):
    rep = Report("C32", tier, seed, "other",
                 "Symbolic execution (engine mirsem) of the rustc MIR of Predicate::and / or / invert and of the derived constructors gt / lt / ge / le / eq / ne "
                 "on operand shapes over one integer variable (atoms ==, >=, <=, != with unbounded symbolic bounds and symbolic kind; True/False; And, Or, Not of "
                 "those up to depth 2, thorough 3): the predicate built on each path is read back and z3 decides that its set of integers is exactly the "
                 "intersection / union / complement of the operands' sets.  Recursive uses are inlined from the same MIR dump, or replaced by their specification "
                 "on opaque sub-predicates (mode rule, one inductive step).  Counterexamples are replayed on the real functions; the encoding is validated on every "
                 "run against the real functions on concrete operands over a window of integers.", partial=bool(only))
    rep.trusted += ["rustc nightly -Zunpretty=mir as the semantics of the source", "engines/mirsem.py + engines/mirflow.py", "z3 " + z3.get_version_string()]
    s = Scratch("c32")
    try:
        psrc = s.read("crates/erg_compiler/ty/predicate.rs")
        tsrc = s.read("crates/erg_compiler/ty/typaram.rs")
        vsrc = s.read("crates/erg_compiler/ty/value.rs")
        vidx = {"Predicate": M.rust_enum_variants(psrc, "Predicate"), "TyParamOrdering": M.rust_enum_variants(tsrc, "TyParamOrdering"),
                "ValueObj": M.rust_enum_variants(vsrc, "ValueObj"), "Option": ["None", "Some"]}
        for f in ("and", "or", "invert", "gt", "lt"):
            rep.add_function("Predicate::" + f, "crates/erg_compiler/ty/predicate.rs", extract_fn(psrc, f))
        if None in vidx.values() or any(k not in vidx["Predicate"] for k in ATOMS + ["And", "Or", "Not", "Value"]):
            rep.add(Obligation(key="source/enums", verdict=BROKEN, reason="Predicate / ValueObj variants could not be read from the source"))
            return rep.finish()
        text, dt, err, rc = M.dump_mir(s, "erg_compiler", overflow_checks=True, extra_cargo=["--lib"])
        if rc != 0 or len(text) < 1000:
            log("MIR dump failed:\n" + err[-3000:])
            rep.add(Obligation(key="mir-dump", verdict=BROKEN, reason="cargo +nightly rustc -Zunpretty=mir failed"))
            return rep.finish()
        log("  MIR dump erg_compiler: %.0fs, %d MB" % (dt, len(text) >> 20))
        fns = M.parse_mir(text, want=["predicate.rs:", "typaram.rs:"])
        del text
        solver = z3.Solver()
        solver.set("timeout", 60000)
        nq = [0]

        def check(conds):
            solver.push()
            solver.add(*conds)
            r = solver.check()
            mdl = solver.model() if r == z3.sat else None
            solver.pop()
            nq[0] += 1
            return str(r), mdl

        conc, rule = operand_shapes(tier)
        jobs = []          # (key, mode, fn short, operand specs, spec(W, Q, refs) -> z3 Bool expected denotation, python reference on concrete operands)
        for k1 in ATOMS:
            for k2 in ATOMS:
                for op in ("and", "or"):
                    jobs.append(("%s/%s,%s" % (op, SHORT[k1], SHORT[k2]), "concrete", op, [atom_sp(k1), atom_sp(k2)]))
        for op in ("and", "or"):
            for X in conc:
                for Y in conc:
                    jobs.append(("%s/%s,%s" % (op, shape_name(X), shape_name(Y)), "concrete", op, [X, Y]))
            for X in rule + [atom_sp()]:
                for Y in rule + [atom_sp()]:
                    if X[0] == "atom" and Y[0] == "atom":
                        continue
                    jobs.append(("%s/%s,%s@rule" % (op, shape_name(X), shape_name(Y)), "rule", op, [X, Y]))
        for X in [atom_sp(k) for k in ATOMS] + [("bool",), ("not", atom_sp()), ("and", atom_sp(), atom_sp()), ("or", [atom_sp(), atom_sp()]), ("not", ("leaf",)), ("and", ("leaf",), ("leaf",)), ("or", [("leaf",), ("leaf",)])]:
            jobs.append(("invert/%s" % shape_name(X), "rule" if "p" in shape_name(X) else "concrete", "invert", [X]))
        for c in ("eq", "ne", "ge", "le", "gt", "lt"):
            jobs.append(("ctor/%s" % c, "concrete", c, []))
        CMP = {"eq": lambda i, n: i == n, "ne": lambda i, n: i != n, "ge": lambda i, n: i >= n, "le": lambda i, n: i <= n,
               "gt": lambda i, n: i > n, "lt": lambda i, n: i < n}
        to_replay = []
        runs = {}
        models_used, inlined = set(), set()
        t_all = time.time()
        for key, mode, op, specs in jobs:
            if only and not any(o in key for o in only.split(",")):
                continue
            base = dict(engine="mirsem (MIR -> z3 %s)" % z3.get_version_string(), solver="z3", functions=["Predicate::" + op],
                        shape="%s ; mode %s" % (key, mode),
                        symbolic=["every integer bound (unbounded z3 Int)", "the kind of every atom written `a`", "truth value of Bool", "the integer i0 at which both sides are evaluated"]
                        + (["the sub-predicates `p` (opaque; recursive uses replaced by their specification)"] if mode == "rule" else []),
                        bounds={"depth": 2 if tier == "quick" else 3})
            ob = Obligation(base, key=key)
            t0 = time.time()
            nqs = nq[0]
            try:
                W = W32(fns, vidx, mode)
                if op in CMP:
                    n = const("bound")
                    fn = W.pfn(op, param0="Str")
                    flow, refs, paths = W.run_fn(fn, [], {"_1": const("subject"), "_2": n})
                    want = lambda Q: CMP[op](I0, VAL(n))
                else:
                    flow, refs, paths = W.run_fn(W.pfn(op), specs)
                    if op == "invert":
                        want = lambda Q: z3.Not(W.den(Q, refs[0]))
                    else:
                        comb = z3.And if op == "and" else z3.Or
                        want = lambda Q: comb(W.den(Q, refs[0]), W.den(Q, refs[1]))
                models_used |= W.models_used
                inlined |= flow.inlined
                npaths, verdict, reason, cex = 0, HELD, "", None
                for Q, rv in paths:
                    if rv is None:
                        raise Unsupported("path without a return value")
                    if check(Q.pc)[0] != "sat":
                        continue
                    npaths += 1
                    r1, mdl = check(Q.pc + [W.den(Q, rv) != want(Q)])
                    if r1 == "sat" and cex is None:
                        i0 = mdl.eval(I0, model_completion=True).as_long()
                        if op in CMP:
                            cex = ([("raw", mdl.eval(VAL(n), model_completion=True).as_long())], i0)
                        else:
                            cex = ([conc_from_model(W, mdl, sp, "LR"[i]) for i, sp in enumerate(specs)], i0)
                        verdict = VIOLATED
                    elif r1 not in ("sat", "unsat") and verdict == HELD:
                        verdict, reason = INCONCLUSIVE, "solver " + r1
                runs[key] = (W, flow, paths, specs, op, mode)
                ob["queries"] = nq[0] - nqs + flow.queries
                ob["detail"] = {"paths": npaths}
                if npaths == 0:
                    verdict, reason = BROKEN, "no feasible path (vacuous encoding)"
                if verdict == HELD:
                    reason = "on all %d paths the predicate built denotes exactly the %s of the operands' sets" % (
                        npaths, {"and": "intersection", "or": "union", "invert": "complement"}.get(op, "comparison `%s`" % op))
                elif verdict == VIOLATED:
                    cs, i0 = cex
                    if None not in cs:
                        txt = ", ".join(("%d" % c[1]) if c[0] == "raw" else "{I | %s}" % conc_erg(c) for c in cs)
                        ob["model"] = {"operands": txt, "i0": i0}
                        reason = "Predicate::%s(%s) is wrong at the integer %d" % (op, txt, i0)
                        to_replay.append((ob, op, cs, i0))
                    else:
                        ob["model"] = {"i0": i0, "note": "opaque sub-predicates: see the concrete twin"}
                        reason = "the construction is wrong for opaque sub-predicates (induction step fails)"
                ob.update(verdict=verdict, reason=reason, solver_s=round(time.time() - t0, 2))
            except Unsupported as e:
                ob.update(verdict=INCONCLUSIVE, reason="unsupported-construct: " + str(e)[:200], solver_s=round(time.time() - t0, 2))
            rep.add(ob)
        log("  symbolic stage: %d obligations, %.0fs, %d z3 queries" % (len(rep.obls), time.time() - t_all, nq[0]))
        byk = {o["key"]: o for o in rep.obls}
        for o in rep.obls:
            if o["key"].endswith("@rule") and o["verdict"] == VIOLATED:
                op_, shp = o["key"][:-5].split("/", 1)
                twin = byk.get(op_ + "/" + shp.replace("p", "a"))
                if twin is None or twin["verdict"] != VIOLATED:
                    o["verdict"] = INCONCLUSIVE
                    o["reason"] = "induction step fails only for sub-predicates no atom realises (concrete twin: %s)" % (twin and twin["verdict"])
                else:
                    o["twin"] = twin["key"]

        # ---- native stage
        nr = NativeRun(s, "erg_compiler", "crates/erg_compiler/ty/predicate.rs", helpers=NATIVE_HELPERS)
        rnd = random.Random(seed * 7919 + 5)
        vvals = [-1, 0, 2]

        def inst(sp):
            if sp[0] == "atom":
                return ("atom", sp[1] or rnd.choice(ATOMS), rnd.choice(vvals))
            if sp[0] == "bool":
                return ("bool", rnd.random() < 0.5)
            if sp[0] == "and":
                return ("and", inst(sp[1]), inst(sp[2]))
            if sp[0] == "not":
                return ("not", inst(sp[1]))
            return ("or", [inst(x) for x in sp[1]])

        def call(op, cs):
            if op in CMP:
                return "Predicate::%s(erg_common::Str::ever(\"I\"), tpv(%d))" % (op, cs[0][1])
            return "Predicate::%s(%s)" % (op, ", ".join(conc_rust(c) for c in cs))
        tv = []
        for key, (W, flow, paths, specs, op, mode) in sorted(runs.items()):
            if mode == "rule" or byk[key]["verdict"] not in (HELD, VIOLATED):
                continue
            seen = set()
            want_n = 3 if len(specs) == 2 and all(sp[0] == "atom" and sp[1] for sp in specs) else 4
            for _ in range(20):
                cs = [("raw", rnd.choice([-2, 0, 3]))] if op in CMP else [inst(sp) for sp in specs]
                if repr(cs) in seen:
                    continue
                seen.add(repr(cs))
                tv.append((key, op, cs))
                if len(seen) >= want_n:
                    break
        ints = [-3, -1, 0, 1, 2, 7]
        for a in ints:
            for b in ints:
                nr.add("k.%d.%d" % (a + 10, b + 10), "format!(\"{:?} {}\", tpv(%d).cheap_cmp(&tpv(%d)), tpv(%d) == tpv(%d))" % (a, b, a, b))
        for i, (key, op, cs) in enumerate(tv):
            nr.add("t.%d" % i, "let p = %s; win(&p)" % call(op, cs))
        for i, (ob, op, cs, i0) in enumerate(to_replay):
            nr.add("r.%d" % i, "let p = %s; format!(\"{}\", den(&p, %d))" % (call(op, cs), i0))
        res, dtn = nr.run()
        log("  native stage: %d cases, %.0fs" % (len(nr.cases), dtn))
        if res is None:
            rep.add(Obligation(key="translation/validated", verdict=BROKEN, reason="the native validation binary did not build or run"))
            return rep.finish()
        kbad = []
        for a in ints:
            for b in ints:
                got = res.get("k.%d.%d" % (a + 10, b + 10), "")
                want_ = "Some(%s) %s" % ("Less" if a < b else "Equal" if a == b else "Greater", str(a == b).lower())
                if got != want_:
                    kbad.append("(%d, %d): %s, contract %s" % (a, b, got, want_))
        rep.add(Obligation(dict(engine="native (cargo test on the scratch copy)", functions=["TyParam::cheap_cmp", "TyParam::eq"]), key="contracts/validated", nontrivial=False,
                           verdict=BROKEN if kbad else HELD,
                           reason=("callee contract differs from the real code: " + "; ".join(kbad[:3])) if kbad else
                           "TyParam::cheap_cmp / TyParam equality agree with the assumed contracts on %d integer-literal pairs" % (len(ints) ** 2)))
        tbad, tn, timprecise = [], 0, []
        for i, (key, op, cs) in enumerate(tv):
            got = res.get("t.%d" % i, "")
            W, flow, paths, specs, op, _mode = runs[key]
            W.flow = flow
            if op in CMP:
                pins = [VAL(const("bound")) == cs[0][1]]
            else:
                pins = [c for j, sp in enumerate(specs) for c in conc_constraints(W, cs[j], sp, "LR"[j])]
            pred = ""
            for iv in WINDOW:
                outs = set()
                for Q, rv in paths:
                    d = W.den(Q, rv)
                    if check(Q.pc + pins + [I0 == iv, d])[0] == "sat":
                        outs.add("1")
                    if check(Q.pc + pins + [I0 == iv, z3.Not(d)])[0] == "sat":
                        outs.add("0")
                pred += outs.pop() if len(outs) == 1 else "?"
            tn += 1
            rep.replayed += 1
            if "?" in pred and all(a == b or b == "?" for a, b in zip(got, pred)) and len(got) == len(pred):
                timprecise.append(key)
            elif got != pred:
                tbad.append("%s on %s: real %s, encoding %s" % (key, [c if c[0] == "raw" else conc_erg(c) for c in cs], got, pred))
        rep.add(Obligation(dict(engine="mirsem vs native", functions=["Predicate::and", "Predicate::or", "Predicate::invert"]), key="translation/validated",
                           nontrivial=False, verdict=BROKEN if tbad else INCONCLUSIVE if timprecise else HELD,
                           reason=("the encoding disagrees with the real functions: " + " | ".join(tbad[:4])) if tbad else
                           ("the encoding leaves the result open on %d concrete operand tuples (an unmodelled callee): %s" % (len(timprecise), sorted(set(timprecise))[:4])) if timprecise else
                           "on %d concrete operand tuples the predicate the real function returns has, at each integer of -4..4, the truth value the symbolic execution predicts" % tn))
        for i, (ob, op, cs, i0) in enumerate(to_replay):
            got = res.get("r.%d" % i)
            rep.replayed += 1
            if op in CMP:
                wantv = CMP[op](i0, cs[0][1])
            elif op == "invert":
                wantv = not conc_den(cs[0], i0)
            elif op == "and":
                wantv = conc_den(cs[0], i0) and conc_den(cs[1], i0)
            else:
                wantv = conc_den(cs[0], i0) or conc_den(cs[1], i0)
            ob["native_replay"] = {"call": call(op, cs), "integer": i0, "real result contains it": got, "set operation contains it": str(wantv).lower()}
            if got not in ("true", "false") or (got == "true") == wantv:
                ob["verdict"] = BROKEN
                ob["reason"] = "counterexample did not reproduce natively (%s): %s" % (got, ob["reason"])
        for o in rep.obls:
            if o.get("twin") and byk[o["twin"]]["verdict"] == BROKEN:
                o["verdict"] = BROKEN
                o["reason"] = "concrete twin did not reproduce"
        rep.assumptions += sorted(models_used) + [
            "bounds of all predicates are integer literals and all predicates speak about the same variable",
            "denotation: Value(Bool b) = b, Equal/GreaterEqual/LessEqual/NotEqual = the comparison, And = conjunction, Or(set) = disjunction of its elements, Not = negation",
            "panics / unwinding paths are not modelled",
        ]
        rep.extra["inlined_from_mir"] = sorted(inlined)
        rep.extra["z3_queries"] = nq[0]
        return rep.finish()
    finally:
        s.cleanup()
