"""Shared decision procedure for C26 and C02: the Python runtime classes (lib/core/_erg_{int,nat,float,bool}.py) executed
symbolically by engines/py2smt.py.

For every operator and every pair of operand classes (concrete per obligation) the numeric values of the operands are
solver variables (unbounded Int, any binary64).  Reference: the same operator applied to the *underlying builtin values*
(plain int / float) — "compute the same values as the Python built-ins they wrap" — evaluated by the same primitive
models, so the comparison decides the wrappers' plumbing (which method runs, operand order, re-wrapping, conversions).

Assertion classes (role key <op>/(<A>,<B>)/<class>):
  value        C26  result value equals the builtin's (ints exactly, floats as the same IEEE value, same numeric kind)
  class        C26  result is an instance of the class the Erg declaration promises (table DECLARED below)
  nat-nonneg   C26  no Nat / NatMut instance with a negative value is produced
  raises       C02  no TypeError / AttributeError / NameError / ValueError / OverflowError escapes where the builtin
                    operation on the same values raises nothing (ZeroDivisionError must coincide with the builtin's)
Every violated obligation that is not a listed known finding is replayed with the real modules under the installed
interpreters before it is reported."""
import glob
import json
import os
import re

import z3

import py2smt as P
from common import (BROKEN, HELD, INCONCLUSIVE, VIOLATED, Obligation, Report, Scratch, extract_fn, log, sh, VERIF)

MODULES = ["_erg_control", "_erg_result", "_erg_type", "_erg_int", "_erg_nat", "_erg_float", "_erg_bool"]
CORE = "crates/erg_compiler/lib/core"
TOWER = ["Bool", "Nat", "Int", "Float"]
MUT_OF = {"IntMut": "Int", "NatMut": "Nat", "FloatMut": "Float", "BoolMut": "Bool"}
BIN_OPS = ["add", "sub", "mul", "floordiv", "truediv", "mod", "pow"]
CMP_OPS = ["eq", "ne", "lt", "le", "gt", "ge"]
PYSYM = {"add": "+", "sub": "-", "mul": "*", "floordiv": "//", "truediv": "/", "mod": "%", "pow": "**",
         "eq": "==", "ne": "!=", "lt": "<", "le": "<=", "gt": ">", "ge": ">=", "neg": "-", "pos": "+", "abs": "abs"}
TWO53 = 2 ** 53

# Declared result classes, derived from crates/erg_compiler/context/initialize/classes.rs; each row names the text it
# was read from (re-grepped on every run: if a line is gone the rows depending on it become inconclusive).
DECL_LINES = {
    "nat_closed": "let op_t = fn1_met(Nat, Nat, Nat);",
    "nat_sub": "let op_t_ = fn1_met(Nat, Nat, Int);",
    "nat_div": "fn1_met(Nat, Nat, Float),",
    "int_closed": "let op_t = fn1_met(Int, Int, Int);",
    "int_div": "fn1_met(Int, Int, Float),",
}


def join(a, b):
    return TOWER[max(TOWER.index(a), TOWER.index(b))]


def declared(op, A, B):
    """declared result class for immutable operand classes (None = not declared / not checked)"""
    j = join(A, B) if B else A
    if op in ("add", "mul"):
        return ("Nat" if j == "Bool" else j), ("nat_closed" if j in ("Bool", "Nat") else "int_closed" if j == "Int" else None)
    if op == "sub":
        return ("Int" if j in ("Bool", "Nat") else j), ("nat_sub" if j in ("Bool", "Nat") else "int_closed" if j == "Int" else None)
    if op in ("floordiv", "mod"):
        return ("Nat" if j == "Bool" else j), ("nat_closed" if j in ("Bool", "Nat") else "int_closed" if j == "Int" else None)
    if op == "truediv":
        return "Float", ("nat_div" if j in ("Bool", "Nat") else "int_div" if j == "Int" else None)
    if op == "pow":
        if j == "Float":
            return "Float", None
        if B in ("Nat", "Bool"):
            return ("Nat" if A in ("Nat", "Bool") else "Int"), None
        return None, None
    if op == "neg":
        return ("Int" if A in ("Bool", "Nat") else A), None
    if op in ("pos", "abs"):
        return ("Nat" if (op == "abs" and A == "Int") else A), None
    return None, None


class Maker:
    def __init__(self):
        self.n = 0

    def value(self, cls, name, bounded=False):
        """(symbolic value, assumptions, description of the variable)"""
        if cls in ("int", "Int"):
            t = z3.Int(name)
            return P.VInt(cls, t), ([t >= -TWO53, t <= TWO53] if bounded else []), t
        if cls == "Nat":
            t = z3.Int(name)
            return P.VInt(cls, t), [t >= 0] + ([t <= TWO53] if bounded else []), t
        if cls == "Bool":
            t = z3.Int(name)
            return P.VInt(cls, t), [t >= 0, t <= 1], t
        if cls in ("float", "Float"):
            t = z3.FP(name, P.FP)
            return P.VFloat(cls, t), [], t
        if cls in MUT_OF:
            inner, c, t = self.value(MUT_OF[cls], name, bounded)
            o = P.VObj(cls)
            o.attrs["value"] = inner
            return o, c, t
        raise ValueError(cls)


def underlying(v):
    """the builtin value a wrapper instance wraps"""
    if isinstance(v, P.VObj) and "value" in v.attrs:
        return underlying(v.attrs["value"])
    if isinstance(v, P.VInt):
        return P.VInt("int", v.t)
    if isinstance(v, P.VFloat):
        return P.VFloat("float", v.t)
    return v


def lemmas(terms):
    """true facts about the uninterpreted primitives, instantiated for the terms that occur (listed in the evidence)"""
    out = []
    seen = set()

    def walk(t):
        if t.get_id() in seen:
            return
        seen.add(t.get_id())
        for c in t.children():
            walk(c)
        if z3.is_app(t):
            n = t.decl().name()
            if n == "py_int_to_float":
                x = t.arg(0)
                out.append(z3.Not(z3.fpIsNaN(t)))
                out.append(z3.Implies(z3.And(x >= -TWO53, x <= TWO53), z3.Not(z3.fpIsInf(t))))
                out.append(z3.Implies(x == 0, z3.And(z3.fpIsZero(t), z3.fpIsPositive(t))))
                out.append(z3.Implies(x > 0, z3.And(z3.fpIsPositive(t), z3.Not(z3.fpIsZero(t)))))
                out.append(z3.Implies(x < 0, z3.And(z3.fpIsNegative(t), z3.Not(z3.fpIsZero(t)))))
                for k in range(-4, 5):      # exact on small constants, so that models over small ints replay natively
                    out.append(z3.Implies(x == k, t == z3.FPVal(float(k), P.FP)))
            elif n == "py_int_truediv":
                x, y = t.arg(0), t.arg(1)
                out.append(z3.Not(z3.fpIsNaN(t)))
                out.append(z3.Implies(z3.And(x >= -TWO53, x <= TWO53, y != 0), z3.Not(z3.fpIsInf(t))))
                out.append(z3.Implies(z3.And(x > 0, y > 0), z3.And(z3.fpIsPositive(t), z3.Not(z3.fpIsZero(t)))))
                out.append(z3.Implies(z3.And(x < 0, y < 0), z3.And(z3.fpIsPositive(t), z3.Not(z3.fpIsZero(t)))))
                out.append(z3.Implies(z3.And(x > 0, y < 0), z3.And(z3.fpIsNegative(t), z3.Not(z3.fpIsZero(t)))))
                out.append(z3.Implies(z3.And(x < 0, y > 0), z3.And(z3.fpIsNegative(t), z3.Not(z3.fpIsZero(t)))))
                out.append(z3.Implies(x == 0, z3.fpIsZero(t)))
                for kx in range(-3, 4):
                    for ky in (-3, -2, -1, 1, 2, 3):
                        out.append(z3.Implies(z3.And(x == kx, y == ky), t == z3.FPVal(kx / ky, P.FP)))
            elif n == "py_float_trunc":
                f = t.arg(0)
                zero = z3.FPVal(0.0, P.FP)
                out.append(z3.Implies(z3.fpGEQ(f, zero), t >= 0))
                out.append(z3.Implies(z3.fpLEQ(f, zero), t <= 0))
                for k in range(-4, 5):
                    out.append(z3.Implies(f == z3.FPVal(float(k), P.FP), t == k))
                    out.append(z3.Implies(f == z3.FPVal(k + 0.5, P.FP), t == (k if k >= 0 else k + 1)))
            elif n == "py_int_pow":
                x, y = t.arg(0), t.arg(1)
                out.append(z3.Implies(z3.And(x >= 0, y >= 0), t >= 0))
                out.append(z3.Implies(y == 0, t == 1))
                out.append(z3.Implies(y == 1, t == x))
                out.append(z3.Implies(y == 2, t == x * x))
                out.append(z3.Implies(y == 3, t == x * x * x))
    for t in terms:
        walk(t)
    return out


def terms_of(v, acc):
    if isinstance(v, (P.VInt, P.VFloat)):
        acc.append(v.t)
    elif isinstance(v, P.VObj):
        for x in v.attrs.values():
            terms_of(x, acc)
    elif isinstance(v, P.VStr) and v.length is not None:
        acc.append(v.length)


class Decider:
    def __init__(self, rep, scratch, tier):
        self.rep, self.s, self.tier = rep, scratch, tier
        self.src = {m: scratch.read("%s/%s.py" % (CORE, m)) for m in MODULES}
        for m, t in self.src.items():
            rep.add_function(m + ".py", "%s/%s.py" % (CORE, m), t)
        self.I = P.Interp(self.src)
        self.mk = Maker()
        ctxt = scratch.read("crates/erg_compiler/context/initialize/classes.rs")
        self.decl_ok = {k: (line in ctxt) for k, line in DECL_LINES.items()}
        self.to_replay = []

    # one exploration: implementation paths x reference paths
    def explore_pair(self, thunk, ref_thunk, assume):
        I = self.I
        I.base_extra = []
        impl = I.explore(thunk, assume)
        ref = I.explore(ref_thunk, assume) if ref_thunk else None
        extra = list(I.base_extra)
        return impl, ref, extra

    def sat(self, conds):
        terms = []
        for c in conds:
            terms.append(c)
        lem = lemmas(terms)
        self.I.base = []
        self.I.pc = []
        r, m = self.I.check(list(conds) + lem)
        return r, m

    def decide_op(self, op, A, B, kind):
        """kind: 'bin' | 'cmp' | 'unary'"""
        rep, I = self.rep, self.I
        mixed_float = ("Float" in (A, B, MUT_OF.get(A), MUT_OF.get(B)) or "float" in (A, B)) and not (
            (A in ("Float", "FloatMut", "float")) and (B in ("Float", "FloatMut", "float", None)))
        bounded = mixed_float or op in ("truediv", "pow")
        a, ca, ta = self.mk.value(A, "a", bounded)
        if B:
            b, cb, tb = self.mk.value(B, "b", bounded)
        else:
            b, cb, tb = None, [], None
        assume = ca + cb
        role = "%s/(%s%s)" % (op, A, "," + B if B else "")
        if kind == "bin":
            thunk = lambda: I.binop(a, b, op)
            refth = lambda: I.binop(underlying(a), underlying(b), op)
        elif kind == "cmp":
            import ast as _ast
            node = {"eq": _ast.Eq, "ne": _ast.NotEq, "lt": _ast.Lt, "le": _ast.LtE, "gt": _ast.Gt, "ge": _ast.GtE}[op]
            thunk = lambda: I.compare(a, b, node)
            refth = lambda: I.compare(underlying(a), underlying(b), node)
        else:
            import ast as _ast
            if op == "abs":
                thunk = lambda: P.g_abs(I, [a])
                refth = lambda: P.g_abs(I, [underlying(a)])
            else:
                node = {"neg": _ast.USub, "pos": _ast.UAdd}[op]
                thunk = lambda: I.unary(a, node)
                refth = lambda: I.unary(underlying(a), node)
        base = dict(engine="py2smt (ast -> z3 %s)" % z3.get_version_string(), functions=["%s.%s" % (A, "__%s__" % op)],
                    shape="%s %s %s" % (A, PYSYM[op], B or ""),
                    symbolic=["a: value of a %s (%s)" % (A, "binary64" if "Float" in A else ("|a| <= 2^53" if bounded else "unbounded int"))] +
                             (["b: value of a %s" % B] if B else []),
                    bounds={"int_operands_bounded_to_2^53": bounded}, solver="z3")
        q0, s0 = I.queries, I.solver_s
        try:
            impl, ref, extra = self.explore_pair(thunk, refth, assume)
        except P.Unsupported as e:
            for cls in ("value", "class", "nat-nonneg", "raises"):
                rep.add(Obligation(base, key="%s/%s" % (role, cls), verdict=INCONCLUSIVE, reason="unsupported-construct: %s" % e))
            return
        except RecursionError:
            for cls in ("value", "class", "nat-nonneg", "raises"):
                rep.add(Obligation(base, key="%s/%s" % (role, cls), verdict=INCONCLUSIVE, reason="recursion limit in the interpreter"))
            return
        found = {}
        unknown = []
        reach = 0
        plain = {"int": "Int", "float": "Float"}
        decl, decl_src = (declared(op, plain.get(A, MUT_OF.get(A, A)), plain.get(B, MUT_OF.get(B, B)) if B else None) if kind != "cmp" else ("bool", None))
        is_mut = A in MUT_OF

        small = [z3.And(t >= -3, t <= 3) for t in (ta, tb) if t is not None and z3.is_int(t)]

        def witness(cls, why, conds):
            r, m = ("unsat", None)
            if small:       # prefer a model over small ints, where the conversion lemmas are exact and the model replays natively
                r, m = self.sat(conds + small)
            if r != "sat":
                r, m = self.sat(conds)
            if r == "sat":
                found.setdefault(cls, (why, m))
            elif r != "unsat":
                unknown.append(cls)

        for pci, outi, _ in impl:
            r, _m = self.sat(assume + extra + pci)
            if r != "sat":
                continue
            reach += 1
            # class / nat-nonneg on the implementation's own outcome
            if outi[0] == "value":
                v = outi[1]
                inner = v.attrs.get("value") if isinstance(v, P.VObj) else v
                for x in (v, inner):
                    if isinstance(x, P.VInt) and not isinstance(x, P.VBool) and I.issub(x.cls, "Nat"):
                        witness("nat-nonneg", "a %s instance with a negative value is produced" % x.cls, assume + extra + pci + [x.t < 0])
                if decl and kind != "cmp":
                    # "an instance of the class the declaration promises": the declared wrapper class or the builtin type it
                    # wraps (compiled code dispatches methods of builtin-typed values statically, so a plain float where
                    # Float is promised is not observable; the numeric kind and Nat's invariant are) — see DESIGN.md C26
                    want_float = decl == "Float"
                    res = inner if isinstance(v, P.VObj) else v
                    if want_float:
                        okc = isinstance(res, P.VFloat)
                    else:
                        okc = isinstance(res, P.VInt)
                    if isinstance(v, P.VObj) and v.cls in MUT_OF and res is not None:
                        # a mutable wrapper must wrap a value of its own kind
                        okc = okc and (isinstance(res, P.VFloat) == (MUT_OF[v.cls] == "Float"))
                    if not okc:
                        found.setdefault("class", ("result is a %s%s, the declaration promises %s" % (
                            getattr(v, "cls", type(v).__name__), (" wrapping a " + getattr(res, "cls", "?")) if isinstance(v, P.VObj) else "", decl), _m))
                    elif decl in ("Nat", "Bool") and isinstance(res, P.VInt):
                        witness("class", "result declared %s is negative" % decl, assume + extra + pci + [res.t < 0])
                if kind == "cmp" and not isinstance(v, P.VBool):
                    found.setdefault("class", ("comparison result is not a bool: %r" % (v,), _m))
            for pcr, outr, _ in ref:
                conds = assume + extra + pci + pcr
                r2, m2 = self.sat(conds)
                if r2 != "sat":
                    continue
                if outi[0] == "raise":
                    e = outi[1]
                    if outr[0] == "raise" and outr[1].cls == e.cls:
                        continue
                    found.setdefault("raises", ("%s%s raised where the builtin operation %s" % (e.cls, (": " + e.msg) if e.msg else "",
                                                "returns a value" if outr[0] == "value" else "raises " + outr[1].cls), m2))
                    if outr[0] == "value":
                        found.setdefault("value", ("%s is raised where the builtin returns a value" % e.cls, m2))
                    continue
                if outr[0] == "raise":
                    found.setdefault("value", ("a value is returned where the builtin operation raises " + outr[1].cls, m2))
                    continue
                vi, vr = underlying(outi[1]), underlying(outr[1])
                if isinstance(vi, P.VFloat) != isinstance(vr, P.VFloat) or isinstance(vi, P.VInt) != isinstance(vr, P.VInt):
                    found.setdefault("value", ("result is %s where the builtin gives %s" % (type(vi).__name__[1:], type(vr).__name__[1:]), m2))
                    continue
                if isinstance(vi, (P.VInt, P.VFloat)):
                    witness("value", "value differs from the builtin's", conds + [vi.t != vr.t])
                elif vi is not vr:
                    found.setdefault("value", ("result %r where the builtin gives %r" % (vi, vr), m2))
        qn, qs = I.queries - q0, round(I.solver_s - s0, 3)
        if reach == 0:
            rep.add(Obligation(base, key=role + "/*", verdict=BROKEN, reason="no implementation path is reachable (vacuous)"))
            return
        for cls in ("value", "class", "nat-nonneg", "raises"):
            if cls == "class" and (not decl or (decl_src and not self.decl_ok.get(decl_src, True))):
                if decl_src and not self.decl_ok.get(decl_src, True):
                    rep.add(Obligation(base, key="%s/class" % role, verdict=INCONCLUSIVE,
                                       reason="the declaration line this row was derived from is no longer in classes.rs: " + DECL_LINES[decl_src]))
                continue
            if cls in found:
                why, m = found[cls]
                mv = self.model_values(m, A, B, ta, tb)
                o = Obligation(base, key="%s/%s" % (role, cls), verdict=VIOLATED, model=mv, queries=qn, solver_s=qs,
                               reason="%s, e.g. %s" % (why, self.show(op, A, B, mv)))
                o["replay_expr"] = (op, kind, A, B, mv, cls, decl)
                rep.add(o)
            elif cls in unknown:
                rep.add(Obligation(base, key="%s/%s" % (role, cls), verdict=INCONCLUSIVE, reason="solver unknown", queries=qn, solver_s=qs))
            else:
                rep.add(Obligation(base, key="%s/%s" % (role, cls), verdict=HELD, queries=qn, solver_s=qs,
                                   reason={"value": "every result equals the builtin's on all %d implementation paths" % reach,
                                           "class": "every result is an instance of %s" % decl,
                                           "nat-nonneg": "no negative Nat is produced",
                                           "raises": "only the exceptions the builtin operation raises"}[cls],
                                   vacuity={"impl_paths_reachable": reach, "ref_paths": len(ref)}))

    @staticmethod
    def model_values(m, A, B, ta, tb):
        def val(t, cls):
            if t is None:
                return None
            v = m.eval(t, model_completion=True)
            if z3.is_int_value(v):
                return v.as_long()
            if z3.is_fp(v):
                # bit pattern
                bv = m.eval(z3.fpToIEEEBV(t), model_completion=True)
                return {"f64_bits": bv.as_long()}
            return str(v)
        return {"a": val(ta, A), "b": val(tb, B)}

    @staticmethod
    def show(op, A, B, mv):
        def lit(cls, v):
            if isinstance(v, dict):
                import struct
                f = struct.unpack("<d", struct.pack("<Q", v["f64_bits"]))[0]
                return "%s(%r)" % (cls, f)
            return "%s(%s)" % (cls, v)
        if B:
            return "%s %s %s" % (lit(A, mv["a"]), PYSYM[op], lit(B, mv["b"]))
        return "%s %s" % (PYSYM[op], lit(A, mv["a"]))


METHODS = [
    # (receiver class, method, argument spec, what must hold afterwards)
    ("Int", "succ", [], "ret == a + 1"), ("Int", "pred", [], "ret == a - 1"),
    ("Nat", "succ", [], "ret == a + 1"), ("Nat", "pred", [], "ret == a - 1"),
    ("Nat", "saturating_sub", ["Nat"], "ret == max(a - b, 0)"),
    ("IntMut", "inc", ["Int"], "cell == a + b"), ("IntMut", "dec", ["Int"], "cell == a - b"),
    ("IntMut", "inc", [], "cell == a + 1"), ("IntMut", "dec", [], "cell == a - 1"),
    ("NatMut", "inc", ["Nat"], "cell == a + b"), ("NatMut", "dec", ["Nat"], "cell == a - b"), ("NatMut", "dec", [], "cell == a - 1"),
    ("IntMut", "update", ["fn->Int"], "cell == r"), ("NatMut", "update", ["fn->Int"], "cell == r"),
    ("FloatMut", "update", ["fn->Float"], "cell == r"),
    ("IntMut", "succ", [], "ret == a + 1"), ("IntMut", "pred", [], "ret == a - 1"),
    ("IntMut", "copy", [], "ret == a"), ("NatMut", "copy", [], "ret == a"), ("FloatMut", "copy", [], "ret == a"),
]


def decide_methods(D, rep):
    """state-after-call obligations for the methods of the wrappers (role key <Class>.<method>(<args>)/<assertion>):
    the result / the cell content is what the name says, a Nat / Nat! never holds a negative value afterwards, and a call that
    raises leaves the cell unchanged."""
    I = D.I
    for cls, meth, spec, post in METHODS:
        a, ca, ta = D.mk.value(cls, "a")
        args, assume, tb, tr = [], list(ca), None, None
        for sp in spec:
            if sp.startswith("fn->"):
                rc = sp[4:]
                rv, _c, tr = D.mk.value(rc, "r")      # the callback's result: any value of its class (no Nat promise)
                args.append(P.VOpaqueFn(lambda _args, rv=rv: rv))
            else:
                bv, cb, tb = D.mk.value(sp, "b")
                assume += cb
                args.append(bv)
        role = "%s.%s(%s)" % (cls, meth, ",".join(spec))
        base = dict(engine="py2smt (ast -> z3 %s)" % z3.get_version_string(), functions=["%s.%s" % (cls, meth)], shape=role,
                    symbolic=["a: receiver value"] + (["b: argument value"] if tb is not None else []) + (["r: callback result (any value of its class)"] if tr is not None else []),
                    bounds={}, solver="z3")
        before = a.attrs.get("value") if isinstance(a, P.VObj) else None

        def thunk():
            if isinstance(a, P.VObj):
                a.attrs["value"] = before     # fresh state for every explored path
            return I.call(I.getattr_(a, meth), args)
        q0, s0 = I.queries, I.solver_s
        try:
            I.base_extra = []
            # cell states are read inside the exploration: record (outcome, cell) per path
            results = []

            def run_and_snapshot():
                try:
                    v = thunk()
                    results.append(("value", v, a.attrs.get("value") if isinstance(a, P.VObj) else None))
                    return v
                except P.PyRaise as e:
                    results.append(("raise", e, a.attrs.get("value") if isinstance(a, P.VObj) else None))
                    raise
            results.clear()
            paths = I.explore(run_and_snapshot, assume)
        except (P.Unsupported, RecursionError) as e:
            rep.add(Obligation(base, key=role + "/*", verdict=INCONCLUSIVE, reason="unsupported-construct: %s" % e))
            continue
        found = {}
        reach = 0
        # explore() appends one result per *completed* path in order; aborted paths append too, so align by re-walking
        snaps = [r for r in results]
        if len(snaps) != len(paths):
            rep.add(Obligation(base, key=role + "/*", verdict=INCONCLUSIVE, reason="path bookkeeping mismatch (%d vs %d)" % (len(snaps), len(paths))))
            continue
        for (pc, outc, _), (kind, val, cell) in zip(paths, snaps):
            r, m = D.sat(assume + pc)
            if r != "sat":
                continue
            reach += 1
            if outc[0] == "raise":
                if outc[1].cls not in ("ValueError",) or cls != "NatMut":
                    found.setdefault("raises", ("%s raised" % outc[1].cls, m))
                elif cell is not before and cell is not None:
                    r2, m2 = D.sat(assume + pc + [underlying(cell).t != ta])
                    if r2 == "sat":
                        found.setdefault("state", ("the cell changed although the call raised", m2))
                continue
            want_ret = None
            if post.startswith("ret =="):
                rv = underlying(val)
                exp = {"ret == a + 1": ta + 1, "ret == a - 1": ta - 1, "ret == a": ta,
                       "ret == max(a - b, 0)": (z3.If(ta - tb >= 0, ta - tb, 0) if tb is not None else None)}[post]
                if not isinstance(rv, (P.VInt, P.VFloat)):
                    found.setdefault("value", ("result is %r" % (rv,), m))
                else:
                    r2, m2 = D.sat(assume + pc + [rv.t != exp])
                    if r2 == "sat":
                        found.setdefault("value", ("result differs from %s" % post[7:], m2))
                if cls in ("Nat", "NatMut") and isinstance(val, P.VInt) and I.issub(val.cls, "Nat"):
                    r2, m2 = D.sat(assume + pc + [val.t < 0])
                    if r2 == "sat":
                        found.setdefault("nat-nonneg", ("a negative %s is returned" % val.cls, m2))
            else:
                cv = underlying(cell) if cell is not None else None
                exp = {"cell == a + b": (ta + tb) if tb is not None else None, "cell == a - b": (ta - tb) if tb is not None else None,
                       "cell == a + 1": ta + 1, "cell == a - 1": ta - 1, "cell == r": tr}[post]
                if not isinstance(cv, (P.VInt, P.VFloat)):
                    found.setdefault("state", ("the cell holds %r" % (cv,), m))
                else:
                    r2, m2 = D.sat(assume + pc + [cv.t != exp])
                    if r2 == "sat":
                        found.setdefault("state", ("the cell content differs from %s" % post[8:], m2))
                if cls == "NatMut" and isinstance(cv, P.VInt):
                    r2, m2 = D.sat(assume + pc + [cv.t < 0])
                    if r2 == "sat":
                        found.setdefault("nat-nonneg", ("the Nat! cell holds a negative value afterwards", m2))
        qn, qs = I.queries - q0, round(I.solver_s - s0, 3)
        if reach == 0:
            rep.add(Obligation(base, key=role + "/*", verdict=BROKEN, reason="no path reachable"))
            continue
        names = ["value" if post.startswith("ret") else "state", "raises"] + (["nat-nonneg"] if cls in ("Nat", "NatMut") else [])
        for nme in names:
            if nme in found:
                why, m = found[nme]
                vals = {k: (m.eval(t, model_completion=True).as_long() if z3.is_int(t) else str(m.eval(t, model_completion=True)))
                        for k, t in (("a", ta), ("b", tb), ("r", tr)) if t is not None}
                o = Obligation(base, key="%s/%s" % (role, nme), verdict=VIOLATED, model=vals, queries=qn, solver_s=qs,
                               reason="%s, e.g. %s" % (why, vals))
                o["method_replay"] = (cls, meth, spec, vals, nme, post)
                rep.add(o)
            else:
                rep.add(Obligation(base, key="%s/%s" % (role, nme), verdict=HELD, queries=qn, solver_s=qs,
                                   reason={"value": "the result is " + post[7:], "state": "afterwards " + post, "raises": "no exception except NatMut's documented ValueError on a negative value",
                                           "nat-nonneg": "no negative Nat / Nat! afterwards"}[nme], vacuity={"paths_reachable": reach}))


METHOD_REPLAY_PY = r'''
import sys, json
sys.path.insert(0, sys.argv[1])
from _erg_int import Int, IntMut
from _erg_nat import Nat, NatMut
from _erg_float import Float, FloatMut
CLS = {"Int": Int, "Nat": Nat, "Float": Float, "IntMut": IntMut, "NatMut": NatMut, "FloatMut": FloatMut}
def mk(c, v):
    if c.endswith("Mut"): return CLS[c](CLS[c[:-3]](v))
    return CLS[c](v)
def under(x):
    while hasattr(x, "value") and not isinstance(x, (int, float)): x = x.value
    return x
out = []
for case in json.load(open(sys.argv[2])):
    cls, meth, spec, vals, nme, post = case["expr"]
    res = {"key": case["key"]}
    try:
        a = mk(cls, vals["a"]); args = []
        for sp in spec:
            if sp.startswith("fn->"):
                r = CLS[sp[4:]](vals["r"]) if sp[4:] != "Float" else Float(float(vals["r"]))
                args.append(lambda _x, r=r: r)
            else:
                args.append(mk(sp, vals["b"]))
        before = under(a)
        try:
            ret = getattr(a, meth)(*args); exc = None
        except Exception as e:
            ret = None; exc = type(e).__name__
        after = under(a)
        res.update(ret=repr(ret), exc=exc, before=repr(before), after=repr(after))
        A = vals["a"]; B = vals.get("b"); R = vals.get("r")
        exp = {"ret == a + 1": lambda: A + 1, "ret == a - 1": lambda: A - 1, "ret == a": lambda: A, "ret == max(a - b, 0)": lambda: max(A - B, 0),
               "cell == a + b": lambda: A + B, "cell == a - b": lambda: A - B, "cell == a + 1": lambda: A + 1, "cell == a - 1": lambda: A - 1, "cell == r": lambda: R}[post]()
        if nme == "raises": res["reproduced"] = exc is not None and not (cls == "NatMut" and exc == "ValueError")
        elif nme == "value": res["reproduced"] = exc is None and under(ret) != exp
        elif nme == "state": res["reproduced"] = (exc is None and after != exp) or (exc is not None and after != before)
        elif nme == "nat-nonneg": res["reproduced"] = exc is None and ((isinstance(a, NatMut) and after < 0) or (isinstance(ret, (Nat,)) and ret < 0))
    except Exception as e:
        res["error"] = repr(e); res["reproduced"] = None
    out.append(res)
print("PYRT-REPLAY " + json.dumps(out))
'''


REPLAY_PY = r'''
import sys, json, struct, operator
sys.path.insert(0, sys.argv[1])
from _erg_int import Int, IntMut
from _erg_nat import Nat, NatMut
from _erg_float import Float, FloatMut
from _erg_bool import Bool, BoolMut
CLS = {"Int": Int, "Nat": Nat, "Float": Float, "Bool": Bool, "IntMut": IntMut, "NatMut": NatMut, "FloatMut": FloatMut, "BoolMut": BoolMut,
       "int": int, "float": float, "bool": bool}
BASE = {"Int": int, "Nat": int, "Bool": bool, "Float": float, "IntMut": int, "NatMut": int, "FloatMut": float, "BoolMut": bool, "int": int, "float": float, "bool": bool}
OPS = {"add": operator.add, "sub": operator.sub, "mul": operator.mul, "floordiv": operator.floordiv, "truediv": operator.truediv,
       "mod": operator.mod, "pow": operator.pow, "eq": operator.eq, "ne": operator.ne, "lt": operator.lt, "le": operator.le,
       "gt": operator.gt, "ge": operator.ge, "neg": operator.neg, "pos": operator.pos, "abs": abs}
def raw(cls, v):
    if isinstance(v, dict):
        return struct.unpack("<d", struct.pack("<Q", v["f64_bits"]))[0]
    return BASE[cls](v)
def mk(cls, v):
    r = raw(cls, v)
    if cls.endswith("Mut"):
        inner = CLS[cls[:-3]](r)
        return CLS[cls](inner)
    return CLS[cls](r)
def under(x):
    while hasattr(x, "value") and not isinstance(x, (int, float)):
        x = x.value
    if isinstance(x, bool): return bool(x)
    if isinstance(x, int): return int(x)
    if isinstance(x, float): return float(x)
    return x
def same(x, y):
    if isinstance(x, float) and isinstance(y, float):
        return struct.pack("<d", x) == struct.pack("<d", y) or (x != x and y != y)
    return type(x) == type(y) and x == y
def describe(x):
    d = {"type": type(x).__name__}
    if hasattr(x, "value") and not isinstance(x, (int, float)):
        d["inner_type"] = type(x.value).__name__
    u = under(x)
    if isinstance(u, bool): d["value"] = int(u); d["kind"] = "int"
    elif isinstance(u, int): d["value"] = u; d["kind"] = "int"
    elif isinstance(u, float): d["value"] = struct.unpack("<Q", struct.pack("<d", u))[0]; d["kind"] = "float"; d["nan"] = (u != u)
    else: d["kind"] = "other"
    return d
out = []
cases = json.load(open(sys.argv[2]))
if len(sys.argv) > 3 and sys.argv[3] == "eval":
    for case in cases:
        op, A, B, mv = case["expr"]
        res = {"key": case["key"]}
        try:
            a = mk(A, mv["a"]); b = mk(B, mv["b"]) if B else None
            args = (a, b) if B else (a,)
            try:
                res["result"] = describe(OPS[op](*args)); res["exc"] = None
            except Exception as e:
                res["exc"] = type(e).__name__
        except Exception as e:
            res["error"] = repr(e)
        out.append(res)
    print("PYRT-REPLAY " + json.dumps(out))
    sys.exit(0)
for case in cases:
    op, kind, A, B, mv, cls, decl = case["expr"]
    res = {"key": case["key"]}
    try:
        a = mk(A, mv["a"]); b = mk(B, mv["b"]) if B else None
        args = (a, b) if B else (a,)
        rargs = (raw(A, mv["a"]), raw(B, mv["b"])) if B else (raw(A, mv["a"]),)
        try:
            got = OPS[op](*args); gexc = None
        except Exception as e:
            got = None; gexc = type(e).__name__
        try:
            want = OPS[op](*rargs); wexc = None
        except Exception as e:
            want = None; wexc = type(e).__name__
        res.update(got=repr(got), got_type=type(got).__name__, got_exc=gexc, want=repr(want), want_exc=wexc)
        if cls == "raises":
            res["reproduced"] = gexc is not None and gexc != wexc
        elif cls == "value":
            res["reproduced"] = (gexc is None and wexc is not None) or (gexc is not None and wexc is None) or (gexc is None and wexc is None and not same(under(got), want))
        elif cls == "class":
            if kind == "cmp":
                res["reproduced"] = gexc is None and not isinstance(got, bool)
            else:
                d = CLS[decl]
                if A.endswith("Mut"):
                    ok = (hasattr(got, "value") and isinstance(got.value, d)) or isinstance(got, d)
                else:
                    ok = isinstance(got, d)
                res["reproduced"] = gexc is None and not ok
        elif cls == "nat-nonneg":
            res["reproduced"] = gexc is None and isinstance(under(got), int) and (isinstance(got, (Nat, NatMut))) and under(got) < 0
    except Exception as e:
        res["error"] = repr(e)
        res["reproduced"] = None
    out.append(res)
print("PYRT-REPLAY " + json.dumps(out))
'''


def pythons():
    out = []
    for v in (11, 7):
        p = sorted(glob.glob("/root/.pyenv/versions/3.%d.*/bin/python" % v))
        if p:
            out.append(p[-1])
    return out or ["python3"]


def replay(rep, scratch, props_filter=None):
    """native replay of unlisted violated obligations (and of everything with VERIF_REPLAY_KNOWN=1 / thorough)"""
    todo = []
    all_known = os.environ.get("VERIF_REPLAY_KNOWN") == "1" or rep.tier == "thorough"
    for o in rep.obls:
        if o.get("verdict") == VIOLATED and "replay_expr" in o:
            if all_known or not rep.known.lookup(rep.prop, o["key"]):
                todo.append(o)
    if todo:
        d = os.path.join(scratch.root, "pyreplay")
        os.makedirs(d, exist_ok=True)
        with open(os.path.join(d, "replay.py"), "w") as f:
            f.write(REPLAY_PY)
        with open(os.path.join(d, "cases.json"), "w") as f:
            json.dump([{"key": o["key"], "expr": list(o["replay_expr"])} for o in todo], f)
        results = {}
        for py in pythons()[:1 if rep.tier == "quick" else 2]:
            rc, out, _ = sh([py, os.path.join(d, "replay.py"), scratch.path(CORE), os.path.join(d, "cases.json")], timeout=300)
            m = re.search(r"PYRT-REPLAY (.*)", out)
            if not m:
                log("python replay failed under %s: %s" % (py, out[-800:]))
                continue
            for r in json.loads(m.group(1)):
                results.setdefault(r["key"], []).append((py, r))
        for o in todo:
            rs = results.get(o["key"], [])
            rep.replayed += 1
            o["native_replay"] = [{"python": py, **r} for py, r in rs]
            if not rs:
                o["replay_note"] = "native replay unavailable"
                continue
            if not any(r.get("reproduced") for _, r in rs):
                o["verdict"] = BROKEN
                o["reason"] = "counterexample did not reproduce with the real modules: " + o.get("reason", "")
            else:
                rd = os.path.join(VERIF, "replays", rep.prop)
                os.makedirs(rd, exist_ok=True)
                import hashlib
                rp = os.path.join(rd, hashlib.sha256(o["key"].encode()).hexdigest()[:10] + ".json")
                with open(rp, "w") as f:
                    json.dump({"key": o["key"], "expr": list(o["replay_expr"]), "native": o["native_replay"], "reason": o["reason"]}, f, indent=1, default=str)
                o["replay"] = rp
    mtodo = [o for o in rep.obls if o.get("verdict") == VIOLATED and "method_replay" in o and (all_known or not rep.known.lookup(rep.prop, o["key"]))]
    if mtodo:
        d = os.path.join(scratch.root, "pyreplay_m")
        os.makedirs(d, exist_ok=True)
        with open(os.path.join(d, "replay.py"), "w") as f:
            f.write(METHOD_REPLAY_PY)
        with open(os.path.join(d, "cases.json"), "w") as f:
            json.dump([{"key": o["key"], "expr": list(o["method_replay"])} for o in mtodo], f)
        rc, out, _ = sh([pythons()[0], os.path.join(d, "replay.py"), scratch.path(CORE), os.path.join(d, "cases.json")], timeout=300)
        m = re.search(r"PYRT-REPLAY (.*)", out)
        res = {r["key"]: r for r in json.loads(m.group(1))} if m else {}
        for o in mtodo:
            r = res.get(o["key"])
            rep.replayed += 1
            o["native_replay"] = r
            if not r or not r.get("reproduced"):
                o["verdict"] = BROKEN
                o["reason"] = "counterexample did not reproduce with the real modules (%s): %s" % (r, o.get("reason", ""))
            else:
                rd = os.path.join(VERIF, "replays", rep.prop)
                os.makedirs(rd, exist_ok=True)
                import hashlib
                rp = os.path.join(rd, hashlib.sha256(o["key"].encode()).hexdigest()[:10] + ".json")
                with open(rp, "w") as f:
                    json.dump({"key": o["key"], "expr": list(o["method_replay"]), "native": r, "reason": o["reason"]}, f, indent=1, default=str)
                o["replay"] = rp
    for o in rep.obls:
        o.pop("replay_expr", None)
        o.pop("method_replay", None)


VAL_INTS = [-3, -1, 0, 1, 2, 3]
VAL_FLOATS = [0.0, -0.0, 1.0, -1.5, 2.5, float("inf"), float("nan")]


def f64_bits(f):
    import struct
    return struct.unpack("<Q", struct.pack("<d", f))[0]


def validate(rep, D, scratch, ps, seed, per_pair):
    """Translator validation (Serval-style): concrete operand vectors go through the real modules (one python3.11 process)
    and through the interpreter with the inputs fixed; class of the result, exception class and — where the primitive is
    interpreted or pinned by a lemma — the value must agree.  Any disagreement is an ENCODING-ERROR (exit 2)."""
    import random
    rnd = random.Random(seed)
    cases = []
    for op, A, B, kind in ps:
        for k in range(per_pair):
            mv = {}
            for nm, cls in (("a", A), ("b", B)):
                if cls is None:
                    mv[nm] = None
                    continue
                base = {"float": "Float", "int": "Int"}.get(cls, MUT_OF.get(cls, cls))
                if base == "Float":
                    mv[nm] = {"f64_bits": f64_bits(rnd.choice(VAL_FLOATS))}
                elif base == "Nat":
                    mv[nm] = rnd.choice([v for v in VAL_INTS if v >= 0])
                elif base == "Bool":
                    mv[nm] = rnd.choice([0, 1])
                else:
                    mv[nm] = rnd.choice(VAL_INTS)
            cases.append({"key": "%s/(%s%s)#%d" % (op, A, "," + B if B else "", k), "expr": [op, A, B, mv], "kind": kind})
    d = os.path.join(scratch.root, "pyvalidate")
    os.makedirs(d, exist_ok=True)
    with open(os.path.join(d, "replay.py"), "w") as f:
        f.write(REPLAY_PY)
    with open(os.path.join(d, "cases.json"), "w") as f:
        json.dump(cases, f)
    rc, out, _ = sh([pythons()[0], os.path.join(d, "replay.py"), scratch.path(CORE), os.path.join(d, "cases.json"), "eval"], timeout=600)
    m = re.search(r"PYRT-REPLAY (.*)", out)
    if not m:
        rep.add(Obligation(key="translator-validation/*", engine="py2smt vs python3.11", verdict=BROKEN, reason="native run failed: " + out[-400:]))
        return
    native = {r["key"]: r for r in json.loads(m.group(1))}
    import ast as _ast
    I = D.I
    bad = []
    n_ok = 0
    for c in cases:
        op, A, B, mv = c["expr"]
        nat = native.get(c["key"])
        if not nat or "error" in nat:
            bad.append((c["key"], "native error %s" % (nat,)))
            continue

        def conc(cls, v):
            base = MUT_OF.get(cls, cls)
            if base in ("Float", "float"):
                inner = P.VFloat(base, z3.fpBVToFP(z3.BitVecVal(v["f64_bits"], 64), P.FP))
            else:
                inner = P.VInt(base, z3.IntVal(v))
            if cls in MUT_OF:
                o = P.VObj(cls)
                o.attrs["value"] = inner
                return o
            return inner
        a = conc(A, mv["a"])
        b = conc(B, mv["b"]) if B else None
        if c["kind"] == "bin":
            th = lambda: I.binop(a, b, op)
        elif c["kind"] == "cmp":
            node = {"eq": _ast.Eq, "ne": _ast.NotEq, "lt": _ast.Lt, "le": _ast.LtE, "gt": _ast.Gt, "ge": _ast.GtE}[op]
            th = lambda: I.compare(a, b, node)
        elif op == "abs":
            th = lambda: P.g_abs(I, [a])
        else:
            node = {"neg": _ast.USub, "pos": _ast.UAdd}[op]
            th = lambda: I.unary(a, node)
        try:
            I.base_extra = []
            paths = I.explore(th, [])
        except (P.Unsupported, RecursionError) as e:
            continue    # reported as inconclusive by the symbolic run of the same pair
        # with concrete inputs exactly one path must be feasible under the lemmas
        feas = []
        for pc, outc, _ in paths:
            r, mdl = D.sat(pc)
            if r == "sat":
                feas.append((pc, outc))
        if len(feas) != 1:
            # an uninterpreted primitive left a branch open (e.g. NaN-ness of py_float_pow): not comparable
            continue
        pc, outc = feas[0]
        if outc[0] == "raise":
            if nat.get("exc") != outc[1].cls:
                bad.append((c["key"], "interpreter raises %s, real modules: %s" % (outc[1].cls, nat)))
            else:
                n_ok += 1
            continue
        if nat.get("exc"):
            bad.append((c["key"], "interpreter returns %r, real modules raise %s" % (outc[1], nat["exc"])))
            continue
        v = outc[1]
        res = nat["result"]
        tname = "bool" if isinstance(v, P.VBool) else getattr(v, "cls", type(v).__name__)
        if tname != res["type"]:
            bad.append((c["key"], "interpreter result class %s, real modules %s" % (tname, res["type"])))
            continue
        inner = v.attrs.get("value") if isinstance(v, P.VObj) else v
        if isinstance(v, P.VObj) and "inner_type" in res and getattr(inner, "cls", None) != res["inner_type"]:
            bad.append((c["key"], "interpreter wraps a %s, real modules a %s" % (getattr(inner, "cls", None), res["inner_type"])))
            continue
        if isinstance(inner, P.VInt) and res["kind"] == "int":
            r, _m = D.sat(pc + [inner.t != res["value"]])
            r2, _m2 = D.sat(pc + [inner.t == res["value"]])
            if r == "unsat" and r2 == "sat":
                n_ok += 1
            elif r2 == "unsat":
                bad.append((c["key"], "interpreter value %s, real modules %s" % (z3.simplify(inner.t), res["value"])))
            else:
                n_ok += 1     # value left open by an uninterpreted primitive; class and kind agreed
        elif isinstance(inner, P.VFloat) and res["kind"] == "float":
            want = z3.fpBVToFP(z3.BitVecVal(res["value"], 64), P.FP)
            cond = z3.fpIsNaN(inner.t) if res.get("nan") else (inner.t == want)
            r2, _m2 = D.sat(pc + [cond])
            if r2 == "unsat":
                bad.append((c["key"], "interpreter float value differs from the real modules' %r" % (res,)))
            else:
                n_ok += 1
        elif (isinstance(inner, P.VInt) and res["kind"] != "int") or (isinstance(inner, P.VFloat) and res["kind"] != "float"):
            bad.append((c["key"], "numeric kind differs: %r vs %r" % (inner, res)))
        else:
            n_ok += 1
    rep.replayed += n_ok
    rep.extra["translator_validation"] = {"vectors": len(cases), "agreed": n_ok, "disagreed": len(bad)}
    if bad:
        for k, why in bad[:10]:
            rep.add(Obligation(key="translator-validation/" + k, engine="py2smt vs python3.11 on concrete vectors", verdict=BROKEN, reason=why))
    else:
        rep.add(Obligation(key="translator-validation/all", engine="py2smt vs python3.11 on concrete vectors", verdict=HELD, nontrivial=False,
                           reason="%d concrete vectors: the interpreter and the real modules agree on exception class, result class and value" % n_ok))


def pairs(tier):
    imm = ["Nat", "Int", "Float", "Bool"]
    out = []
    for A in imm:
        for B in imm:
            for op in BIN_OPS:
                if op == "pow" and not (B in ("Nat", "Bool")) or (op == "pow" and "Float" in (A, B)):
                    continue      # float ** (complex results, OverflowError) and negative integer exponents have no exact reference here
                out.append((op, A, B, "bin"))
            for op in CMP_OPS:
                out.append((op, A, B, "cmp"))
        for op in ("neg", "pos", "abs"):
            out.append((op, A, None, "unary"))
    muts = [("IntMut", ["Int", "Nat", "IntMut", "NatMut"]), ("NatMut", ["Nat", "NatMut", "Int"]), ("FloatMut", ["Float", "FloatMut", "Int", "Nat"])]
    for A, Bs in muts:
        for B in Bs:
            for op in BIN_OPS:
                if op in ("pow", "mod"):
                    continue      # `%` and `**` with a mutable cell on the left are rejected by the type checker (see run_for)
                out.append((op, A, B, "bin"))
            for op in CMP_OPS:
                out.append((op, A, B, "cmp"))
        out.append(("neg", A, None, "unary"))
        out.append(("pos", A, None, "unary"))
    # a plain Python value on the left (literals, results of Python APIs): the wrappers' reflected methods
    for A, Bs in (("int", ["Int", "Nat", "Bool"]), ("float", ["Float"])):
        for B in Bs:
            for op in BIN_OPS:
                if op == "pow" and (B not in ("Nat", "Bool") or A == "float"):
                    continue
                out.append((op, A, B, "bin"))
            for op in ("eq", "lt", "ge"):
                out.append((op, A, B, "cmp"))
    # reflected: immutable on the left, mutable on the right
    for A, B in (("Int", "IntMut"), ("Nat", "NatMut"), ("Float", "FloatMut"), ("Int", "NatMut")):
        for op in ("add", "sub", "mul"):
            out.append((op, A, B, "bin"))
        for op in ("eq", "lt"):
            out.append((op, A, B, "cmp"))
    return out


def run_for(prop, tier, seed, only, classes, explanation):
    rep = Report(prop, tier, seed, "other", explanation, partial=bool(only))
    s = Scratch(prop.lower())
    try:
        D = Decider(rep, s, tier)
        ps = pairs(tier)
        if only:
            ps = [p for p in ps if only in "%s/(%s%s)" % (p[0], p[1], "," + p[2] if p[2] else "")]
        for op, A, B, kind in ps:
            D.decide_op(op, A, B, kind)
        if not only or "." in only:
            decide_methods(D, rep)
            if only and "." in only:
                rep.obls = [o for o in rep.obls if only in o["key"]]
        validate(rep, D, s, ps, seed, 2 if tier == "quick" else 6)
        # keep only this property's assertion classes
        rep.obls = [o for o in rep.obls if o["key"].rsplit("/", 1)[-1] in classes or o["key"].endswith("/*") or o["key"].startswith("translator-validation/")
                    or ("." in o["key"].split("/")[0] and (o["key"].rsplit("/", 1)[-1] in (("value", "state", "nat-nonneg") if prop == "C26" else ("raises",))))]
        if prop == "C02":
            # C02 speaks about programs the type checker accepts: `%` and `**` with a mutable cell on the left are
            # rejected by the checker ("the type of `%`::lhs is mismatched"; confirmed with the built compiler), so those
            # operand pairs are not in its domain
            rep.obls = [o for o in rep.obls if not (o["key"].split("/")[0] in ("mod", "pow") and o["key"].split("/")[1].startswith(("(IntMut", "(NatMut", "(FloatMut")))]
        replay(rep, s)
        rep.trusted += ["engines/py2smt.py (Python data-model dispatch and the int/float primitive models)", "z3 " + z3.get_version_string(),
                        "the declared-result table in props/pyrt.py (derived from context/initialize/classes.rs, lines re-checked on every run)"]
        rep.assumptions += [
            "operand classes are concrete per obligation; Nat/NatMut operands satisfy their invariant (value >= 0); Bool operands are 0 or 1",
            "int->float conversion, int true division, float // % **, int ** and float->int truncation are uninterpreted functions "
            "constrained by sign/finiteness lemmas (props/pyrt.py lemmas()); implementation and reference share them, so equality decides operand order and plumbing, not the arithmetic of the primitive itself",
            "int operands are bounded to |x| <= 2^53 wherever a float conversion or true division is involved",
            "Str, List, Dict, Set, Range, Bytes wrappers, `times`, hashing, `update(f)` (higher-order) are outside the claim",
        ]
        rep.extra["interp_queries"] = D.I.queries
        return rep.finish()
    finally:
        s.cleanup()
