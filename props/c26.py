"""C26 — runtime classes agree with Python and with their declared types (py2smt over lib/core/_erg_*.py)."""
import pyrt


def run(tier, seed, only=None):
    return pyrt.run_for("C26", tier, seed, only, ("value", "class", "nat-nonneg"),
                        "Symbolic execution (py2smt: ast -> z3) of the real lib/core/_erg_{int,nat,float,bool}.py wrappers: per operator and "
                        "per pair of operand classes, for every operand value (unbounded ints, all binary64), the result equals the Python "
                        "builtin's on the underlying values, is an instance of the class the Erg declaration promises, and no Nat is negative. "
                        "Counterexamples are replayed with the real modules under python3.11 (and 3.7 in the thorough tier).")
