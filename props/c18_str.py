"""C18, stage 3 — the string kernel of the JSON writer.

The function G that the writer F calls for `ValueObj::Str` (discovered on F's MIR) is executed symbolically on its rustc MIR
(engine mirsem + a small model of String building): the input is a string of k characters, each an arbitrary Unicode scalar
value (a z3 integer constrained to 0..=0x10FFFF minus the surrogates); `str::chars`/`Chars::next` walk those characters,
`String::push` / `push_str` append code points (symbolic or from literals), `HEX[i]` with a symbolic index is an ite-chain
over the table read from the source.  Every feasible path returns a concrete *sequence* of code-point terms; a reference
decoder for RFC 8259 strings, written here over such sequences, parses it: each step that needs a fact about a symbolic code
point (`>= 0x20`, not a quote, not a backslash, is a hex digit ...) is an entailment query to z3 under the path condition; the
decoded characters must equal the input characters.  One failed query gives a concrete string, which is replayed against the
real function (cargo test) and read back with python's json module.  Bound: k characters (0..2 quick, 3 thorough); the kernel
treats characters one at a time with no state but the output buffer, so longer strings repeat the same per-character paths."""
import json
import os
import re
import time

import z3

import mir2smt as M
import mirsem as S
from common import (BROKEN, HELD, INCONCLUSIVE, VIOLATED, Obligation, extract_fn, log, sh)
from mirflow import DISC, Flow, Ref, Unsupported, const
from native import NativeRun


def rust_unescape(body):
    """text of a Rust string/char literal body as printed by rustc's MIR pretty printer"""
    out, i = [], 0
    while i < len(body):
        c = body[i]
        if c != "\\":
            out.append(c)
            i += 1
            continue
        e = body[i + 1]
        if e in "\\\"'":
            out.append(e)
            i += 2
        elif e in "nrt0":
            out.append({"n": "\n", "r": "\r", "t": "\t", "0": "\0"}[e])
            i += 2
        elif e == "x":
            out.append(chr(int(body[i + 2:i + 4], 16)))
            i += 4
        elif e == "u":
            j = body.index("}", i)
            out.append(chr(int(body[i + 3:j], 16)))
            i = j + 1
        else:
            raise Unsupported("escape in literal: " + body)
    return "".join(out)


class StrFlow(S.SemFlow):
    tables = {}
    STRUCTURED = ("strbuf",)

    def operand(self, P, txt):
        t = txt.strip()
        m = re.fullmatch(r"const '(.*)'", t, re.S)
        if m:
            s = rust_unescape(m.group(1))
            if len(s) == 1:
                return ("int", ord(s))
        m = re.fullmatch(r'const "(.*)"', t, re.S)
        if m:
            return ("strlit", rust_unescape(m.group(1)))
        m = re.fullmatch(r'const b"(.*)"', t, re.S)
        if m:
            return ("bytes", list(rust_unescape(m.group(1)).encode("latin-1")))
        m = re.fullmatch(r"const (-?\d+)_i32", t)
        if m:
            return ("int", int(m.group(1)))
        if re.fullmatch(r"[A-Za-z_]\w*", t) and any(f.short == t for f in self.fns.values()):
            return ("fnitem", t)                # a function of the same module passed by name (`.map(value_to_json)`)
        return S.SemFlow.operand(self, P, txt)

    def rvalue(self, P, txt):
        txt = txt.strip()
        m = re.match(r"^(Shr|BitAnd)\((.*)\)$", txt)
        if m:
            parts = M.split_top(m.group(2))
            a, b = self.operand(P, parts[0]), self.operand(P, parts[1])
            if self.is_num(a) and self.is_int(b):
                if m.group(1) == "Shr":
                    return ("int", a[1] >> b[1]) if self.is_int(a) else ("sint", self.num(a) / (1 << b[1]))       # non-negative: floor division
                if b[1] & (b[1] + 1) == 0:
                    return ("int", a[1] & b[1]) if self.is_int(a) else ("sint", self.num(a) % (b[1] + 1))
            raise Unsupported("bit operation " + txt[:60])
        m = re.match(r"^(?:copy|move) \(\*(_\d+)\)\[(_\d+)\]$", txt)
        if m:
            base, idx = self.read(P, m.group(1), []), self.read(P, m.group(2), [])
            if isinstance(base, tuple) and base and base[0] == "vec" and self.is_int(idx):
                if 0 <= idx[1] < len(base[1]):
                    return base[1][idx[1]]
                raise Unsupported("constant index past the modelled slice")
            if isinstance(base, tuple) and base and base[0] == "bytes" and self.is_num(idx):
                if self.is_int(idx):
                    return ("int", base[1][idx[1]])
                e = z3.IntVal(base[1][-1])
                for i in range(len(base[1]) - 2, -1, -1):
                    e = z3.If(idx[1] == i, z3.IntVal(base[1][i]), e)
                P.pc.append(z3.And(idx[1] >= 0, idx[1] < len(base[1])))          # the bounds assertion just before (a panic is not a wrong text)
                return ("sint", e)
            raise Unsupported("indexing " + txt[:60])
        m = re.match(r"^(.*) as char \(IntToInt\)$", txt)
        if m:
            v = self.operand(P, m.group(1))
            if self.is_num(v):
                return v
        return S.SemFlow.rvalue(self, P, txt)

    def project(self, P, v, p):
        if p[0] == "deref" and isinstance(v, tuple) and v and v[0] in ("agg", "int", "sint", "strbuf", "strlit", "vec"):
            return v                 # container models hand out `&T` as the value itself
        return S.SemFlow.project(self, P, v, p)

    def write(self, P, local, proj, val):
        """field writes into aggregates keep the aggregate (mirflow turns them into a functional-update term)"""
        if proj and proj[0] != ("deref",):
            old = self.init_value(P, local)

            def upd(v, ps):
                if not ps:
                    return val
                p0 = ps[0]
                if isinstance(v, tuple) and v and v[0] == "agg":
                    if p0[0] == "field" and p0[1] < len(v[2]):
                        f = list(v[2])
                        f[p0[1]] = upd(f[p0[1]], ps[1:])
                        return ("agg", v[1], f)
                    if p0[0] == "variant" and v[1].split("::")[-1] == p0[1]:
                        return upd(v, ps[1:])
                if isinstance(v, Ref) and p0 == ("deref",):
                    self.write(P, v.local, list(v.path) + list(ps[1:]), val)
                    return v
                raise KeyError
            try:
                P.locals[local] = upd(old, list(proj))
                return
            except KeyError:
                pass
        return S.SemFlow.write(self, P, local, proj, val)

    def term(self, v):
        if isinstance(v, tuple) and v and v[0] in ("strlit", "strbuf", "chariter", "bytes", "byteiter", "vec", "viter", "fmtarg", "fmtarg_hex", "fmtargs", "nameref", "dict", "mapped", "sliceiter"):
            k = self._opaque.setdefault(id(v), len(self._opaque))
            self._keep.append(v)
            return const("opaque_%s_%d" % (v[0], k))
        return S.SemFlow.term(self, v)


def fmt_models(as_items):
    """`format!` with `{}` placeholders: the template bytes of fmt::Arguments::new are read from the MIR constant (a run of literal bytes is
    length-prefixed, 0xC0 is a placeholder with default formatting, 0x00 ends the template; anything else is unsupported)"""
    def new_display(flow, P, callee, args):
        return ("fmtarg", flow.deref_all(P, args[0]))

    def new_lower_hex(flow, P, callee, args):
        return ("fmtarg_hex", flow.deref_all(P, args[0]))

    def args_new(flow, P, callee, args):
        tpl = flow.deref_all(P, args[0])
        arr = flow.deref_all(P, args[1])
        if not (isinstance(tpl, tuple) and tpl[0] == "bytes") or not (isinstance(arr, tuple) and arr[0] == "agg" and arr[1].startswith("array")):
            raise Unsupported("fmt::Arguments::new(%r, %r)" % (tpl, arr))
        return ("fmtargs", tpl[1], list(arr[2]))

    def fmt_format(flow, P, callee, args):
        a = flow.deref_all(P, args[0])
        if not (isinstance(a, tuple) and a[0] == "fmtargs"):
            raise Unsupported("fmt::format(%r)" % (a,))
        tpl, fa = a[1], list(a[2])
        out, i, k = [], 0, 0
        while i < len(tpl):
            b = tpl[i]
            if b == 0:
                break
            if b < 0x80:
                out += [z3.IntVal(ord(c)) for c in bytes(tpl[i + 1:i + 1 + b]).decode("utf-8")]
                i += 1 + b
            elif b == 0xC0:
                if k >= len(fa) or not (isinstance(fa[k], tuple) and fa[k][0] == "fmtarg"):
                    raise Unsupported("format placeholder without a Display argument")
                out += as_items(flow, P, fa[k][1])
                k += 1
                i += 1
            elif 0xC1 <= b <= 0xC7 and k < len(fa) and isinstance(fa[k], tuple) and fa[k][0] == "fmtarg_hex" and flow.is_num(fa[k][1]):
                # a placeholder with options: bit 0 -> a u32 of flags follows (fill in the low 21 bits, bit 24 = zero padding), bit 1 -> a u16 width, bit 2 -> a u16 precision
                j, flags, width = i + 1, 0, 0
                if b & 1:
                    flags = int.from_bytes(bytes(tpl[j:j + 4]), "little")
                    j += 4
                if b & 2:
                    width = int.from_bytes(bytes(tpl[j:j + 2]), "little")
                    j += 2
                if b & 4:
                    raise Unsupported("format precision")
                if width and not (flags >> 24) & 1:
                    raise Unsupported("format width without zero padding")
                pending = (len(out), flow.num(fa[k][1]), max(width, 1))
                if any(isinstance(x, tuple) and x[0] == "hexslot" for x in out):
                    raise Unsupported("two formatted numbers in one format string")
                out.append(("hexslot", pending[1], pending[2]))
                k += 1
                i = j
            else:
                raise Unsupported("format template byte 0x%02x (a non-default format spec)" % b)
        if k != len(fa):
            raise Unsupported("format arguments left over")
        slot = [n for n, x in enumerate(out) if isinstance(x, tuple) and x[0] == "hexslot"]
        if not slot:
            return ("strbuf", out)
        # `{:0Nx}` of a solver integer: one alternative per number of digits
        n, v, w = slot[0], out[slot[0]][1], out[slot[0]][2]
        dig = lambda d: z3.If(d < 10, 48 + d, 87 + d)
        alts = []
        for nd in range(w, 9):
            lo = 0 if nd == w else 16 ** (nd - 1)
            pc = [v >= lo, v < 16 ** nd]
            digits = [dig((v / (16 ** e)) % 16) for e in range(nd - 1, -1, -1)]
            alts.append((pc, ("strbuf", out[:n] + digits + out[n + 1:]), {}))
        return ("fork", alts)

    def ident(flow, P, callee, args):
        return args[0]

    return [(r"Argument::<'_>::new_display::<", new_display), (r"Argument::<'_>::new_lower_hex::<", new_lower_hex), (r"Arguments::<'_>::new::<", args_new),
            (r"^std::fmt::format$|alloc::fmt::format$", fmt_format), (r"^must_use::<String>$", ident)]


INPUT = const("the_input")


def models(chars):
    def wr(flow, P, r, val):
        if not isinstance(r, Ref):
            raise Unsupported("String receiver is not a local reference")
        flow.write(P, r.local, list(r.path), val)

    def s_new(flow, P, callee, args):
        return ("strbuf", [])

    def s_push(flow, P, callee, args):
        buf = flow.deref_all(P, args[0])
        if not (isinstance(buf, tuple) and buf[0] == "strbuf") or not flow.is_num(args[1]):
            raise Unsupported("String::push on %r" % (buf,))
        wr(flow, P, args[0], ("strbuf", buf[1] + [flow.num(args[1])]))
        return const("unit")

    def s_push_str(flow, P, callee, args):
        buf = flow.deref_all(P, args[0])
        lit = flow.deref_all(P, args[1])
        if not (isinstance(buf, tuple) and buf[0] == "strbuf") or not (isinstance(lit, tuple) and lit[0] in ("strlit", "strbuf")):
            raise Unsupported("String::push_str of something that is neither a literal nor built text")
        wr(flow, P, args[0], ("strbuf", buf[1] + ([z3.IntVal(ord(c)) for c in lit[1]] if lit[0] == "strlit" else list(lit[1]))))
        return const("unit")

    def s_len(flow, P, callee, args):
        n = z3.Int("bytelen_%d" % flow.ctr.next())
        P.pc.append(z3.And(n >= 0, n <= 4 * len(chars)))
        return ("sint", n)

    def s_chars(flow, P, callee, args):
        return ("chariter", 0, False)

    def c_enumerate(flow, P, callee, args):
        it = flow.deref_all(P, args[0])
        if not (isinstance(it, tuple) and it[0] == "chariter"):
            raise Unsupported("enumerate on %r" % (it,))
        return ("chariter", it[1], True)

    def s_as_bytes(flow, P, callee, args):
        """the UTF-8 bytes of the input: one alternative per vector of encoded widths (the shape of the byte slice must be concrete)"""
        v = flow.deref_all(P, args[0])
        if not (z3.is_expr(v) and v.eq(INPUT)):
            raise Unsupported("str::as_bytes of something else than the input")
        if len(chars) > 4:
            raise Unsupported("str::as_bytes on more than four characters")
        import itertools
        alts = []
        for ws in itertools.product((1, 2, 3, 4), repeat=len(chars)):
            pc, out = [], []
            for c, w in zip(chars, ws):
                if z3.is_int_value(c):
                    cw = 1 if c.as_long() < 0x80 else 2 if c.as_long() < 0x800 else 3 if c.as_long() < 0x10000 else 4
                    if cw != w:
                        pc = None
                        break
                else:
                    pc.append({1: c < 0x80, 2: z3.And(c >= 0x80, c < 0x800), 3: z3.And(c >= 0x800, c < 0x10000), 4: c >= 0x10000}[w])
                if w == 1:
                    bs = [c]
                elif w == 2:
                    bs = [0xC0 + c / 64, 0x80 + c % 64]
                elif w == 3:
                    bs = [0xE0 + c / 4096, 0x80 + (c / 64) % 64, 0x80 + c % 64]
                else:
                    bs = [0xF0 + c / 262144, 0x80 + (c / 4096) % 64, 0x80 + (c / 64) % 64, 0x80 + c % 64]
                out += [("sint", b) for b in bs]
            if pc is not None:
                alts.append((pc, ("vec", out), {}))
        if len(alts) == 1 and not alts[0][0]:
            return alts[0][1]
        return ("fork", alts)

    def sl_get(flow, P, callee, args):
        v = flow.deref_all(P, args[0])
        if not (isinstance(v, tuple) and v and v[0] == "vec") or not flow.is_int(args[1]):
            raise Unsupported("slice::get(%r, %r)" % (v, args[1]))
        i = args[1][1]
        return ("agg", "Option::Some", [v[1][i]]) if 0 <= i < len(v[1]) else ("agg", "Option::None", [])

    def sl_len(flow, P, callee, args):
        v = flow.deref_all(P, args[0])
        if isinstance(v, tuple) and v and v[0] == "vec":
            return ("int", len(v[1]))
        raise Unsupported("len of %r" % (v,))

    def closure_of(flow, callee):
        mm = re.search(r"\{closure@([^}]*)\}", callee)
        if not mm:
            raise Unsupported("closure type in " + callee)
        loc = mm.group(1).strip()
        cf = [f for f in flow.fns.values() if "{closure#" in f.short and f.params and loc in f.params[0][1]]
        if len({f.name for f in cf}) != 1:
            raise Unsupported("closure at %s not found uniquely" % loc)
        return cf[0]

    def is_some_and(flow, P, callee, args):
        o = flow.deref_all(P, args[0])
        if not (isinstance(o, tuple) and o and o[0] == "agg"):
            raise Unsupported("is_some_and on %r" % (o,))
        if o[1].endswith("None"):
            return S.FALSE
        return flow.inline(P, closure_of(flow, callee), [args[1], o[2][0]])

    def is_ascii_digit(flow, P, callee, args):
        b = flow.deref_all(P, args[0])
        if not flow.is_num(b):
            raise Unsupported("is_ascii_digit(%r)" % (b,))
        x = flow.num(b)
        return flow.mkbool(P, z3.And(x >= 48, x <= 57))

    def is_control(flow, P, callee, args):
        c = flow.deref_all(P, args[0])
        if not flow.is_num(c):
            raise Unsupported("is_control(%r)" % (c,))
        x = flow.num(c)
        return flow.mkbool(P, z3.Or(x < 0x20, z3.And(x >= 0x7f, x <= 0x9f)))      # general category Cc

    def ident(flow, P, callee, args):
        return args[0]

    def c_next(flow, P, callee, args):
        it = flow.deref_all(P, args[0])
        if not (isinstance(it, tuple) and it[0] == "chariter"):
            raise Unsupported("Chars::next on %r" % (it,))
        if it[1] >= len(chars):
            return ("agg", "Option::None", [])
        wr(flow, P, args[0], ("chariter", it[1] + 1, it[2]))
        if it[2]:
            return ("agg", "Option::Some", [("agg", "tuple2", [("int", it[1]), ("sint", chars[it[1]])])])
        return ("agg", "Option::Some", [("sint", chars[it[1]])])

    def as_items(flow, P, x):
        v = flow.deref_all(P, x)
        if isinstance(v, tuple) and v and v[0] == "strlit":
            return [z3.IntVal(ord(c)) for c in v[1]]
        if isinstance(v, tuple) and v and v[0] == "strbuf":
            return list(v[1])
        if z3.is_expr(v) and v.eq(INPUT):
            return list(chars)
        raise Unsupported("not a string value: %r" % (v,))

    def s_bytes(flow, P, callee, args):
        v = flow.deref_all(P, args[0])
        if not (z3.is_expr(v) and v.eq(INPUT)):
            raise Unsupported("str::bytes of something else than the input")
        return ("byteiter",)

    def utf8(c):
        """(byte term, present) for the up to four UTF-8 bytes of the scalar value c"""
        w = z3.If(c < 0x80, 1, z3.If(c < 0x800, 2, z3.If(c < 0x10000, 3, 4)))
        b0 = z3.If(w == 1, c, z3.If(w == 2, 0xC0 + c / 64, z3.If(w == 3, 0xE0 + c / 4096, 0xF0 + c / 262144)))
        b1 = z3.If(w == 2, 0x80 + c % 64, z3.If(w == 3, 0x80 + (c / 64) % 64, 0x80 + (c / 4096) % 64))
        b2 = z3.If(w == 3, 0x80 + c % 64, 0x80 + (c / 64) % 64)
        b3 = 0x80 + c % 64
        return [(b0, z3.BoolVal(True)), (b1, w >= 2), (b2, w >= 3), (b3, w >= 4)]

    def b_quant(flow, P, callee, args):
        it = flow.deref_all(P, args[0])
        if not (isinstance(it, tuple) and it and it[0] == "byteiter"):
            raise Unsupported("any/all on %r" % (it,))
        mm = re.search(r"\{closure@([^}]*)\}", callee)
        if not mm:
            raise Unsupported("closure type in " + callee)
        loc = mm.group(1).strip()
        cf = [f for f in flow.fns.values() if "{closure#" in f.short and f.params and loc in f.params[0][1]]
        if len({f.name for f in cf}) != 1:
            raise Unsupported("closure at %s not found uniquely" % loc)
        is_any = callee.rsplit("::", 1)[-1].startswith("any") or "::any::<" in callee
        terms = []
        for c in chars:
            for b, present in utf8(c):
                r = flow.inline(P, cf[0], [args[1], ("sint", b)])
                if isinstance(r, tuple) and r and r[0] == "fork":
                    raise Unsupported("closure with structured result")
                t = S.truth(flow, r)
                terms.append(z3.And(present, t) if is_any else z3.Implies(present, t))
        e = (z3.Or(terms) if is_any else z3.And(terms)) if terms else z3.BoolVal(not is_any)
        return flow.mkbool(P, e)

    def s_deref(flow, P, callee, args):
        return flow.deref_all(P, args[0])

    return fmt_models(as_items) + [(r"<String as Deref>::deref$|String::as_str$", s_deref), (r"str::<impl str>::bytes$", s_bytes), (r"Bytes<'_> as Iterator>::(any|all)::<", b_quant),
            (r"String::with_capacity$|String::new$", s_new), (r"String::push$", s_push), (r"String::push_str$", s_push_str),
            (r"str::<impl str>::len$", s_len), (r"str::<impl str>::chars$", s_chars),
            (r"<Chars<'_> as IntoIterator>::into_iter$|<Enumerate<Chars<'_>> as IntoIterator>::into_iter$", ident),
            (r"<Chars<'_> as Iterator>::next$|<Enumerate<Chars<'_>> as Iterator>::next$", c_next),
            (r"<Chars<'_> as Iterator>::enumerate$", c_enumerate), (r"str::<impl str>::as_bytes$", s_as_bytes),
            (r"slice::<impl \[u8\]>::get::<usize>$", sl_get), (r"slice::<impl \[u8\]>::len$", sl_len),
            (r"^Option::<&u8>::is_some_and::<", is_some_and), (r"<impl u8>::is_ascii_digit$|<impl char>::is_ascii_digit$", is_ascii_digit),
            (r"<impl char>::is_control$", is_control)]


HEXV = lambda t: z3.If(z3.And(t >= 48, t <= 57), t - 48, z3.If(z3.And(t >= 97, t <= 102), t - 87, z3.If(z3.And(t >= 65, t <= 70), t - 55, z3.IntVal(-1))))
SIMPLE = {34: 34, 92: 92, 47: 47, 98: 8, 102: 12, 110: 10, 114: 13, 116: 9}


class Decoder:
    """RFC 8259 section 7 over a sequence of code-point terms, under a path condition"""

    def __init__(self, pc):
        self.s = z3.Solver()
        self.s.set("timeout", 30000)
        self.s.add(*pc)
        self.q = 0

    def refute(self, e):
        """None when the path condition entails e, else a model in which e is false"""
        self.q += 1
        self.s.push()
        self.s.add(z3.Not(e))
        r = self.s.check()
        m = self.s.model() if r == z3.sat else None
        self.s.pop()
        if r == z3.unknown:
            raise Unsupported("z3: unknown")
        return m

    def concrete(self, t):
        if z3.is_int_value(t):
            return t.as_long()
        self.q += 1
        if self.s.check() != z3.sat:
            raise Unsupported("infeasible path reached the decoder")
        v = self.s.model().eval(t, model_completion=True)
        if self.refute(t == v) is None:
            return v.as_long()
        return None

    def hex4(self, items, at, end):
        if at + 4 > end:
            return None, ("a \\u escape is cut short", None)
        hs = [HEXV(items[at + j]) for j in range(4)]
        m = self.refute(z3.And([h >= 0 for h in hs]))
        if m is not None:
            return None, ("a \\u escape is not followed by four hex digits", m)
        return z3.simplify(4096 * hs[0] + 256 * hs[1] + 16 * hs[2] + hs[3]), None

    def decode(self, items):
        """(decoded terms, None) or (None, (what, model-or-None, inconclusive?))"""
        n = len(items)
        if n < 2 or self.concrete(items[0]) != 34 or self.concrete(items[n - 1]) != 34:
            return None, ("the text is not enclosed in double quotes", None, False)
        out, i = [], 1
        while i < n - 1:
            x = items[i]
            cx = self.concrete(x)
            if cx is None:
                m = self.refute(z3.And(x >= 0x20, x != 34, x != 92))
                if m is not None:
                    return None, ("a quote, backslash or control character is written unescaped", m, False)
                out.append(x)
                i += 1
                continue
            if cx == 34 or cx < 0x20:
                return None, ("an unescaped %s inside the literal" % ("quote" if cx == 34 else "control character U+%04X" % cx), None, False)
            if cx != 92:
                out.append(z3.IntVal(cx))
                i += 1
                continue
            if i + 1 >= n - 1:
                return None, ("a lone backslash ends the literal", None, False)
            e = self.concrete(items[i + 1])
            if e is None:
                return None, ("the character after a backslash depends on the input", None, True)
            if e in SIMPLE:
                out.append(z3.IntVal(SIMPLE[e]))
                i += 2
                continue
            if e != 117:
                return None, ("invalid escape \\%s" % chr(e), None, False)
            cp, err = self.hex4(items, i + 2, n - 1)
            if err:
                return None, (err[0], err[1], False)
            adv = 6
            if self.refute(z3.Or(cp < 0xD800, cp > 0xDFFF)) is not None:
                if self.refute(z3.And(cp >= 0xD800, cp <= 0xDBFF)) is not None:
                    return None, ("a \\u escape may denote a lone low surrogate", None, True)
                if i + 7 >= n - 1 or self.concrete(items[i + 6]) != 92 or self.concrete(items[i + 7]) != 117:
                    return None, ("a high surrogate escape is not followed by a low surrogate escape", None, False)
                lo, err = self.hex4(items, i + 8, n - 1)
                if err:
                    return None, (err[0], err[1], False)
                m = self.refute(z3.And(lo >= 0xDC00, lo <= 0xDFFF))
                if m is not None:
                    return None, ("a high surrogate escape is followed by something else than a low surrogate", m, False)
                cp = 0x10000 + (cp - 0xD800) * 1024 + (lo - 0xDC00)
                adv = 12
            out.append(cp)
            i += adv
        return out, None


def py_json_string_ok(text, want):
    try:
        return json.loads(text) == want, ""
    except ValueError as e:
        return False, str(e)


def rust_str_lit(s):
    return '"' + "".join("\\u{%x}" % ord(c) for c in s) + '"'


NUMS = {
    "Int": ["0", "-3", "7", "i32::MAX", "i32::MIN", "1000"],
    "Nat": ["0u64", "1000u64", "4294967296u64", "u64::MAX"],
    "Float": ["-2.25f64", "2.25f64", "2.0000000000001f64", "-0.5f64", "1.0e21f64", "1.0e-7f64", "2.0f64", "-1.0e300f64", "0.1f64", "123456.789f64",
              "f64::MAX", "f64::MIN_POSITIVE", "-3.0f64", "0.30000000000000004f64"],
}


def number_symbolic(rep, base, fns, mains, F, vvariants):
    """F on Int / Nat / Float values: is the text std's rendering of the machine number, or somebody's Display?"""
    obs, cand = {}, {}
    for kind in NUMS:
        ob = Obligation(dict(base, functions=[F], shape="ValueObj::%s(x)" % kind, symbolic=["x (opaque)"], bounds={}), key="writer/number/%s" % kind)
        rep.add(ob)
        obs[kind] = ob
        try:
            if len(mains) != 1:
                raise Unsupported("%s not found uniquely" % F)
            flow = S.SemFlow(fns, mains[0], [], {"ValueObj": vvariants, "Option": ["None", "Some"]})
            x = const("the_number")
            pre = {"p_V": ("agg", "ty::value::ValueObj::%s" % kind, [x]), "_1": Ref("p_V")}
            outs = flow.run("bb0", stop_at=(), pre=pre, pc=list(S.BASE_AXIOMS))
            np_, via, other = 0, set(), set()
            for Q, end in outs:
                if end != "return" or not flow.feasible(Q.pc):
                    continue
                fin = [c for c in Q.calls if c[0].endswith("is_finite")]
                if fin and z3.is_expr(fin[-1][2]):
                    sol = z3.Solver()
                    sol.add(*Q.pc)
                    sol.add(DISC(S.SV(fin[-1][2])) != 0)
                    if sol.check() != z3.sat:
                        continue                       # the non-finite path: no JSON notation exists, outside the property
                np_ += 1
                rt = flow.term(Q.locals.get("_0"))
                rec = next((c for c in Q.calls if c[2] is not None and z3.is_expr(c[2]) and c[2].eq(rt)), None)
                name = rec[0] if rec is not None else str(rt)[:80]
                has_x = z3.is_expr(rt) and any(t.eq(x) for t in _subterms(rt))
                if rec is not None and has_x and "ValueObj" not in name and re.search(r"ToString>::to_string$|fmt::format$|must_use::<String>$", name):
                    via.add(re.sub(r"^.*?(<\w+ as ToString>::to_string|fmt::format|must_use::<String>)$", r"\1", name))
                else:
                    other.add(name)
            ob["queries"] = flow.queries
            if np_ == 0:
                ob.update(verdict=BROKEN, reason="no path of %s returns for a %s value (vacuous encoding)" % (F, kind))
            elif other:
                cand[kind] = sorted(other)[0]
                ob.update(verdict=VIOLATED, reason="a %s is not written by std's rendering of the machine number but by `%s`" % (kind, sorted(other)[0][:120]))
            else:
                ob.update(verdict=HELD, reason="on all %d paths a %s is written by std's rendering of the number itself (%s); contract: that text is a JSON number denoting the value (sampled natively on %d values)" % (
                    np_, kind, ", ".join(sorted(via)), len(NUMS[kind])))
        except Unsupported as e:
            ob.update(verdict=INCONCLUSIVE, reason="unsupported-construct: " + str(e)[:200])
    return obs, cand


def number_cases(nat, F):
    for kind, vals in NUMS.items():
        for i, v in enumerate(vals):
            ctor = {"Int": "ValueObj::Int(%s)", "Nat": "ValueObj::Nat(%s)", "Float": "ValueObj::from(%s)"}[kind] % v
            nat.add("n%s%d" % (kind, i), "format!(\"{} {}\", %s(&%s), %s)" % (F, ctor, {"Int": "(%s) as i128" % v, "Nat": "(%s) as i128" % v, "Float": "format!(\"{:016x}\", (%s).to_bits())" % v}[kind]))


def number_finish(res, obs, cand):
    """native: the real writer's text for each sample, read by python's json, must be the number"""
    import struct
    for kind, vals in NUMS.items():
        ob = obs.get(kind)
        if ob is None or ob.get("verdict") not in (HELD, VIOLATED):
            continue
        bad = None
        for i, v in enumerate(vals):
            got = (res or {}).get("n%s%d" % (kind, i))
            if got is None or got.startswith("PANIC"):
                bad = bad or (v, got, "no result")
                continue
            text, ref = got.rsplit(" ", 1)
            try:
                val = json.loads(text)
                if kind == "Float":
                    want = struct.unpack(">d", bytes.fromhex(ref))[0]
                    ok = isinstance(val, (int, float)) and float(val) == want
                else:
                    ok = isinstance(val, int) and not isinstance(val, bool) and val == int(ref)
            except ValueError as e:
                ok, val = False, "json.loads: %s" % e
            if not ok:
                bad = bad or (v, text, val)
        ob["end_to_end"] = {"samples": len(vals), "first mismatch": None if not bad else {"value": bad[0], "text written": bad[1], "read back": str(bad[2])}}
        if ob["verdict"] == VIOLATED and not bad:
            ob.update(verdict=INCONCLUSIVE, reason="%s; on the %d sampled values the text still reads back as the number" % (ob["reason"], len(vals)))
        elif ob["verdict"] == VIOLATED:
            ob["reason"] += ": %s is written `%s`" % (bad[0], bad[1])
            ob["model"] = {"value": bad[0], "text": bad[1]}
        elif bad:
            ob.update(verdict=VIOLATED, reason="std's rendering does not read back: %s is written `%s` (read back %s)" % bad)


def stage(rep, s, tsrc, F, tier, only, text=None):
    """decides G; returns nothing (verdicts are final: replayed here)"""
    t0 = time.time()
    kmax = 2 if tier == "quick" else 4
    keyD = "writer/Str/dispatch"
    keys = [keyD] + ["string-kernel/chars=%d" % k for k in range(kmax + 1)] + ["string-kernel/translation"] + ["writer/number/" + k for k in NUMS]
    if only and not any(o in k for o in only.split(",") for k in keys):
        return
    base = dict(engine="mirsem (MIR -> z3 %s)" % z3.get_version_string(), solver="z3")
    obD = Obligation(dict(base, functions=[F], shape="ValueObj::Str(s)", symbolic=["s (opaque)"], bounds={}), key=keyD)
    rep.add(obD)
    vsrc = s.read("crates/erg_compiler/ty/value.rs")
    vvariants = M.rust_enum_variants(vsrc, "ValueObj")
    rc = 0
    if text is None:
        text, dt, err, rc = M.dump_mir(s, "erg_compiler", overflow_checks=True, extra_cargo=["--lib"])
    if rc != 0 or len(text) < 1000 or not vvariants:
        obD.update(verdict=BROKEN, reason="MIR dump failed or enum ValueObj not read")
        return
    fns = M.parse_mir(text, want=["fn " + F, F])
    mains = [f for f in fns.values() if f.short == F]
    local_fns = set(re.findall(r"^\s*(?:pub(?:\([^)]*\))?\s+)?fn (\w+)", tsrc, re.M))
    G = None
    try:
        if len(mains) != 1:
            raise Unsupported("%s not found uniquely in the MIR dump (%d)" % (F, len(mains)))
        flow = S.SemFlow(fns, mains[0], [], {"ValueObj": vvariants, "Option": ["None", "Some"]})
        sval = const("the_str")
        pre = {"p_V": ("agg", "ty::value::ValueObj::Str", [sval]), "_1": Ref("p_V")}
        outs = flow.run("bb0", stop_at=(), pre=pre, pc=list(S.BASE_AXIOMS))
        np_, cands = 0, set()
        for Q, end in outs:
            if end != "return":
                continue
            if not flow.feasible(Q.pc):
                continue
            np_ += 1
            rt = flow.term(Q.locals.get("_0"))
            rec = next((c for c in Q.calls if c[2] is not None and z3.is_expr(c[2]) and c[2].eq(rt)), None)
            nm = re.sub(r"::<.*$", "", rec[0]).rsplit("::", 1)[-1] if rec is not None else None
            ok = False
            if rec is not None and nm in local_fns and len(rec[1]) == 1:
                a = rec[1][0]
                at = flow.term(flow.referent(Q, a)) if isinstance(a, (Ref, tuple)) else a
                ok = z3.is_expr(at) and any(x.eq(sval) for x in _subterms(at))
            cands.add(nm if ok else "!" + str(rec[0] if rec is not None else rt)[:100])
        obD["queries"] = flow.queries
        if np_ == 0:
            obD.update(verdict=BROKEN, reason="no path of %s returns for a Str value (vacuous encoding)" % F)
        elif len(cands) == 1 and not next(iter(cands)).startswith("!"):
            G = next(iter(cands))
            obD.update(verdict=HELD, reason="for ValueObj::Str(s), %s returns %s(s) on all %d paths" % (F, G, np_))
        else:
            obD.update(verdict=INCONCLUSIVE, reason="for ValueObj::Str(s) the text is produced by %s: not a single crate-local string kernel this stage can execute" % sorted(cands))
    except Unsupported as e:
        obD.update(verdict=INCONCLUSIVE, reason="unsupported-construct: " + str(e)[:200])
    numobs, numcand = number_symbolic(rep, base, fns, mains, F, vvariants)
    if not G:
        nat = NativeRun(s, "erg_compiler", "crates/erg_compiler/transpile.rs")
        number_cases(nat, F)
        res, dt = nat.run()
        number_finish(res, numobs, numcand)
        return
    gsrc = extract_fn(tsrc, G) or ""
    rep.add_function(G, "crates/erg_compiler/transpile.rs", gsrc)
    gfns = M.parse_mir(text, want=["fn " + G, G])
    gf = [f for f in gfns.values() if f.short == G]
    del text
    tables = {}
    for mm in re.finditer(r"const (\w+): &\[u8; \d+\] = b\"([^\"]*)\";", gsrc):
        tables[mm.group(1)] = ("bytes", list(rust_unescape(mm.group(2)).encode("latin-1")))
    obs = {}
    for k in range(kmax + 1):
        obs[k] = Obligation(dict(base, functions=[G], shape="a string of %d character(s)" % k,
                                 symbolic=["each character: any Unicode scalar value (0..=0x10FFFF without surrogates)"], bounds={"chars": k}), key="string-kernel/chars=%d" % k)
        rep.add(obs[k])
    obT = Obligation(dict(base, functions=[G], engine="native replay vs. the encoding", bounds={}), key="string-kernel/translation", nontrivial=False)
    rep.add(obT)
    if len(gf) != 1 or not re.search(r"fn %s\(\w+: &str\) -> String" % G, gsrc):
        for ob in list(obs.values()) + [obT]:
            ob.update(verdict=INCONCLUSIVE, reason="%s is not a `fn(&str) -> String` found uniquely in the MIR dump" % G)
        return
    results = {}       # k -> [(pc, items)]
    cex = []           # (k, ob, what, chars)
    for k in range(kmax + 1):
        ob = obs[k]
        if only and not any(o in ob["key"] or o in "string-kernel/translation" for o in only.split(",")):
            ob.update(verdict=INCONCLUSIVE, reason="filtered out")
            continue
        chars = [z3.Int("c%d" % i) for i in range(k)]
        dom = [z3.And(c >= 0, c <= 0x10FFFF, z3.Or(c < 0xD800, c > 0xDFFF)) for c in chars]
        try:
            flow = StrFlow(gfns, gf[0], models(chars), {"Option": ["None", "Some"]}, max_steps=20000)
            for name, tb in tables.items():
                flow.named_consts["transpile::%s::%s" % (G, name)] = tb
            pre = {"_1": const("the_input")}
            outs = flow.run("bb0", stop_at=(), pre=pre, pc=list(S.BASE_AXIOMS) + dom)
            nq, npaths, bad, inconc = flow.queries, 0, None, None
            paths = []
            for Q, end in outs:
                if end != "return":
                    continue
                if not flow.feasible(Q.pc):
                    continue
                r = Q.locals.get("_0")
                if not (isinstance(r, tuple) and r and r[0] == "strbuf"):
                    raise Unsupported("the result is not a built String: %r" % (r,))
                npaths += 1
                paths.append((Q.pc, r[1]))
                d = Decoder(Q.pc)
                dec, err = d.decode(r[1])
                if err is None:
                    if len(dec) != k:
                        err = ("the literal denotes %d character(s) for an input of %d" % (len(dec), k), None, False)
                    else:
                        for j in range(k):
                            m = d.refute(dec[j] == chars[j])
                            if m is not None:
                                err = ("character %d of the denoted string differs from the input" % j, m, False)
                                break
                nq += d.q
                if err:
                    what, m, soft = err
                    if soft:
                        inconc = inconc or what
                        continue
                    if m is None:
                        d.s.check()
                        m = d.s.model()
                    vals = [m.eval(c, model_completion=True).as_long() for c in chars]
                    bad = bad or (what, vals)
            results[k] = paths
            ob["queries"] = nq
            ob["detail"] = {"paths": npaths}
            if flow.notes:
                ob["notes"] = sorted(flow.notes)
            if npaths == 0:
                ob.update(verdict=BROKEN, reason="no feasible path returns (vacuous encoding)")
            elif bad:
                ob["model"] = {"characters": ["U+%04X" % v for v in bad[1]]}
                ob.update(verdict=VIOLATED, reason="%s: input %s" % (bad[0], json.dumps("".join(chr(v) for v in bad[1]))))
                cex.append((k, ob, bad[0], bad[1]))
            elif inconc:
                ob.update(verdict=INCONCLUSIVE, reason="reference decoder: " + inconc)
            else:
                ob.update(verdict=HELD, reason="on all %d paths the text is one RFC 8259 string literal that decodes to the input, for every choice of the %d character(s)" % (npaths, k))
        except Unsupported as e:
            ob.update(verdict=INCONCLUSIVE, reason="unsupported-construct: " + str(e)[:200])
    # ---- native replay: counterexamples, and translation validation on fixed vectors
    vectors = ["", "a", "\"", "\\", "\n", "\r", "\t", "\x00", "\x01", "\x1f", " ", "/", "\x7f", "é", "あ", "😀", "a\"", "\\n", "\x08\x0c", "é\x02"]
    vectors = [v for v in vectors if len(v) <= kmax]
    nat = NativeRun(s, "erg_compiler", "crates/erg_compiler/transpile.rs",
                    helpers="fn __hexs(s: String) -> String { s.bytes().map(|b| format!(\"{:02x}\", b)).collect::<Vec<_>>().join(\"\") }")
    for i, v in enumerate(vectors):
        nat.add("v%d" % i, "__hexs(%s(%s))" % (G, rust_str_lit(v)))
    for n, (k, ob, what, vals) in enumerate(cex):
        nat.add("x%d" % n, "__hexs(%s(%s))" % (G, rust_str_lit("".join(chr(v) for v in vals))))
    number_cases(nat, F)
    res, dt = nat.run()
    number_finish(res, numobs, numcand)
    if res is None:
        obT.update(verdict=BROKEN, reason="native run failed")
        for k, ob, what, vals in cex:
            ob.update(verdict=INCONCLUSIVE, reason="no native replay available: " + ob["reason"])
        return
    for n, (k, ob, what, vals) in enumerate(cex):
        want = "".join(chr(v) for v in vals)
        raw = bytes.fromhex(res.get("x%d" % n, "")).decode("utf-8", "replace") if not res.get("x%d" % n, "PANIC").startswith("PANIC") else None
        okj, note = py_json_string_ok(raw, want) if raw is not None else (False, "panicked")
        ob["end_to_end"] = {"input": want, "real %s output" % G: raw, "json.loads": "equal" if okj else (note or "different value")}
        if okj:
            ob.update(verdict=BROKEN, reason="counterexample did not reproduce natively: " + ob["reason"])
    mism = []
    nval = 0
    for i, v in enumerate(vectors):
        got = res.get("v%d" % i)
        k = len(v)
        if got is None or got.startswith("PANIC") or k not in results:
            continue
        real = bytes.fromhex(got).decode("utf-8")
        sub = [(z3.Int("c%d" % j), z3.IntVal(ord(ch))) for j, ch in enumerate(v)]
        pred = None
        for pc, items in results[k]:
            sol = z3.Solver()
            sol.add(*pc)
            sol.add(*[a == b for a, b in sub])
            if sol.check() == z3.sat:
                mdl = sol.model()
                pred = "".join(chr(mdl.eval(t, model_completion=True).as_long()) for t in items)
                break
        nval += 1
        if pred != real:
            mism.append((v, pred, real))
    if mism:
        obT.update(verdict=BROKEN, reason="the encoding disagrees with the real %s on %s: predicted %r, real %r" % (G, json.dumps(mism[0][0]), mism[0][1], mism[0][2]))
        for ob in obs.values():
            if ob.get("verdict") in (HELD, VIOLATED):
                ob.update(verdict=BROKEN, reason="translation validation failed; " + ob["reason"])
    else:
        obT.update(verdict=HELD, reason="%d fixed strings: the encoding's text equals the real %s's text byte for byte" % (nval, G))
        obT["detail"] = {"vectors": nval}
    log("  stage 3 (string kernel %s): %.0fs" % (G, time.time() - t0))


def _subterms(t, seen=None):
    seen = seen if seen is not None else set()
    if t.get_id() in seen:
        return
    seen.add(t.get_id())
    yield t
    for c in t.children():
        for x in _subterms(c, seen):
            yield x
