"""C06 — subtyping is a preorder with the documented bottom, top and tower (kernel-level: the monomorphic fragment).

Engine: E2 mir2smt — the rustc MIR (regenerated from /repo on every run) of `Context::subtype_of`, `Context::supertype_of`
and `Context::cheap_supertype_of` with everything they call on this fragment (`<Type as PartialEq>::eq`,
`Type::is_mono_value_class`, `Type::addr_eq`) is executed symbolically; the operands are `Type` values whose discriminant is
a solver variable over all fieldless variants of `enum Type` (read from the source), `self: &Context` is opaque.  z3 decides
the laws over all pairs / triples; on this fragment every path ends in the fast table with credibility `Absolutely`, so the
encoded function *is* the public `subtype_of`.  Counterexamples are replayed natively (cargo test on the scratch copy)."""
import re
import time

import z3

import mir2smt as M
from common import (BROKEN, HELD, INCONCLUSIVE, VIOLATED, Obligation, Report, Scratch, extract_fn, log)
from native import NativeRun

import c06_compound

PLACEHOLDERS = ("Failure", "Uninited")      # error placeholders: both top and bottom by design, excluded from the laws
TOWER = ["Bool", "Nat", "Int", "Ratio", "Float", "Complex"]


def run(tier, seed, only=None):
    rep = Report("C06", tier, seed, "other",
                 "Symbolic execution of the rustc MIR of Context::subtype_of / supertype_of / cheap_supertype_of (+ Type::eq, "
                 "is_mono_value_class) into SMT with the discriminants of two or three Type operands as solver variables over all "
                 "fieldless variants of enum Type; z3 decides that the judgement is definite, reflexive, transitive, has Never at the "
                 "bottom and Obj at the top, and orders the numeric tower, for all pairs/triples of the fragment.  Stage 2 (engine mirsem, compound/*): "
                 "the Or / And arms of structural_supertype_of on unions and intersections of opaque member types - soundness of each combination rule "
                 "given sound answers on the members, and the laws (T or U) :> T, T :> (T and U), commutativity and reflexivity.  Refinements, Not, "
                 "polymorphic, structural and nominal types are not decided.",
                 partial=bool(only))
    rep.trusted += ["rustc nightly -Zunpretty=mir as the semantics of the source", "engines/mir2smt.py", "z3 " + z3.get_version_string()]
    s = Scratch("c06")
    try:
        text, dt, err, rc = M.dump_mir(s, "erg_compiler", overflow_checks=True, extra_cargo=["--lib"])
        if rc != 0 or len(text) < 1000:
            log("MIR dump failed:\n" + err[-3000:])
            rep.add(Obligation(key="mir-dump", verdict=BROKEN, reason="cargo +nightly rustc -Zunpretty=mir failed"))
            return rep.finish()
        log("  MIR dump erg_compiler: %.0fs, %d MB" % (dt, len(text) >> 20))
        fns = M.parse_mir(text, want=["compare::", "ty::"])
        tsrc = s.read("crates/erg_compiler/ty/mod.rs")
        csrc = s.read("crates/erg_compiler/context/compare.rs")
        variants = M.rust_enum_variants(tsrc, "Type")
        cred = M.rust_enum_variants(csrc, "Credibility")
        # fieldless variants: those declared without payload
        m = re.search(r"pub enum Type \{(.*?)\n\}", tsrc, re.S)
        body = re.sub(r"//[^\n]*", "", m.group(1))
        unit = [v for v in variants if re.search(r"^\s*%s\s*,\s*$" % v, body, re.M)]
        frag = [v for v in unit if v not in PLACEHOLDERS]
        idx = {v: i for i, v in enumerate(variants)}
        for fn in ("subtype_of", "supertype_of", "cheap_supertype_of"):
            rep.add_function("Context::" + fn, "crates/erg_compiler/context/compare.rs", extract_fn(csrc, fn))
        rep.add_function("<Type as PartialEq>::eq", "crates/erg_compiler/ty/mod.rs", extract_fn(tsrc, "eq"))
        rep.add_function("Type::is_mono_value_class", "crates/erg_compiler/ty/mod.rs", extract_fn(tsrc, "is_mono_value_class"))
        enums = {"Type": variants, "Credibility": cred, "Option": ["None", "Some"]}

        def find(short, nparams):
            c = [f for f in fns.values() if f.short == short and "compare::" in f.name and len(f.params) == nparams]
            return c[0] if len(c) == 1 else None
        eqfn = [f for f in fns.values() if f.short == "eq" and len(f.params) == 2 and f.params[0][1] == "&ty::Type" and "ty::<impl" in f.name]
        f_sub, f_sup, f_cheap = find("subtype_of", 3), find("supertype_of", 3), find("cheap_supertype_of", 2)
        if not (f_sub and f_sup and f_cheap and len(eqfn) == 1):
            rep.add(Obligation(key="mir/functions", verdict=BROKEN, reason="subtype_of/supertype_of/cheap_supertype_of/Type::eq not found in the MIR dump"))
            return rep.finish()
        qn = [0]
        qs = [0.0]
        solver = z3.Solver()
        solver.set("timeout", 60000)

        AXIOMS = []

        def check(conds):
            t0 = time.time()
            solver.push()
            for c in list(conds) + AXIOMS:
                solver.add(c)
            r = solver.check()
            mdl = solver.model() if r == z3.sat else None
            solver.pop()
            qn[0] += 1
            qs[0] += time.time() - t0
            return str(r), mdl

        def deref(I, st, v):
            fr = I.frame_by_id(st, v.frame)
            return I.load_raw(st, fr, v.local, list(v.proj))

        def encode(fn, names, public):
            """run fn(self?, &l, &r) with fresh discriminants; returns (l, r, [(pc, definite?, judge)], unsupported)"""
            I = M.Interp(fns, enums)

            def m_refeq(I_, st, fr, callee, args, dty, work, at):
                return ("INLINE", eqfn[0], [deref(I_, st, args[0]), deref(I_, st, args[1])], None)

            def m_addr_eq(I_, st, fr, callee, args, dty, work, at):
                a, b = deref(I_, st, args[0]), deref(I_, st, args[1])
                I_.fresh_n += 1
                t = z3.Bool("addr_eq_%s_%d" % (names[0], I_.fresh_n))
                if isinstance(a, M.Enum) and isinstance(b, M.Enum):
                    # the same object has one discriminant.  A *global* axiom about the fresh boolean, not a path condition:
                    # inside a path condition it would make every path false (and the negated relation trivially satisfiable)
                    AXIOMS.append(z3.Implies(t, a.discr == b.discr))
                return M.Scalar(t, "bool")
            I.models[r"^<&ty::Type as PartialEq>::eq$"] = m_refeq
            I.models[r"^ty::Type::addr_eq$"] = m_addr_eq
            l, r = I.sym("ty::Type", names[0]), I.sym("ty::Type", names[1])
            assm = [z3.Or([l.discr == idx[v] for v in frag]), z3.Or([r.discr == idx[v] for v in frag])]
            args = [M.Ref(0, "_vl", ()), M.Ref(0, "_vr", ())]
            if public:
                args = [M.Opaque("&context::Context", "self")] + args
            outs = I.run(fn, args, assm, extra_locals={"_vl": l, "_vr": r})
            res, unsup = [], []
            for o in outs:
                if o.kind == "return":
                    v = o.value
                    if public:
                        res.append((o.pc, True, v.t))
                    else:
                        res.append((o.pc, v.fields[0].discr == idx_cred["Absolutely"], v.fields[1].t))
                elif o.kind == "panic":
                    unsup.append("panic: " + o.msg)
                else:
                    unsup.append(o.msg + " @" + o.where)
            return l, r, res, unsup, assm, I
        idx_cred = {v: i for i, v in enumerate(cred)}

        def rel(res):
            """the judgement as one formula over the discriminants: OR over paths (pc and judge)"""
            return z3.Or([z3.And(list(pc) + [j]) for pc, _d, j in res])

        base = dict(engine="mir2smt (MIR -> z3 %s)" % z3.get_version_string(), solver="z3",
                    functions=["Context::subtype_of", "Context::cheap_supertype_of", "<Type as PartialEq>::eq", "Type::is_mono_value_class"],
                    symbolic=["discriminants of the Type operands over the %d fieldless variants %s" % (len(frag), frag), "Type::addr_eq results (free booleans, true only for equal discriminants)"],
                    bounds={"fragment": "fieldless variants of enum Type except the error placeholders %s" % (PLACEHOLDERS,)},
                    stubs=["<&Type as PartialEq>::eq -> <Type as PartialEq>::eq (std's blanket impl)", "Type::addr_eq -> free boolean implied false for different discriminants", "self: &Context opaque"])

        def name_of(mdl, e):
            return variants[mdl.eval(e.discr, model_completion=True).as_long()]
        to_replay = []

        def report(key, verdict_conds, why, shape, ops, extra=None):
            """verdict_conds: the negated law; unsat = held"""
            r, mdl = check(verdict_conds)
            ob = Obligation(base, key=key, shape=shape, queries=1)
            if r == "unsat":
                ob.update(verdict=HELD, reason=why)
            elif r == "sat":
                names = [name_of(mdl, e) for e in ops]
                ob.update(verdict=VIOLATED, model=names, reason="%s fails for %s" % (why, " , ".join(names)))
                to_replay.append((ob, names, extra))
            else:
                ob.update(verdict=INCONCLUSIVE, reason="solver " + r)
            rep.add(ob)

        # --- the fast table: definite on the fragment, and the public entries agree with it
        l, r, res_c, unsup, assm, I0 = encode(f_cheap, ("l", "r"), False)
        if unsup:
            rep.add(Obligation(base, key="fragment/encodable", verdict=INCONCLUSIVE, reason="unsupported-construct: " + unsup[0][:200]))
            return rep.finish()
        # vacuity witnesses: the encoding must have paths, and the relation must be neither empty nor full on the fragment
        r_t, _ = check(assm + [rel(res_c)]) if res_c else ("unsat", None)
        r_f, _ = check(assm + [z3.Not(rel(res_c))]) if res_c else ("unsat", None)
        r_a, _ = check(assm)
        if not res_c or r_t != "sat" or r_f != "sat" or r_a != "sat" or len(frag) < 10:
            rep.add(Obligation(base, key="fragment/encodable", verdict=BROKEN,
                               reason="vacuous encoding: %d paths, fragment of %d variants, related pair %s, unrelated pair %s" % (len(res_c), len(frag), r_t, r_f)))
            return rep.finish()
        rep.add(Obligation(base, key="fragment/encodable", verdict=HELD, nontrivial=False,
                           reason="cheap_supertype_of: %d paths, all return; the judgement is satisfiable and refutable on the fragment" % len(res_c)))
        report("cheap_supertype_of/definite", assm + [z3.Or([z3.And(list(pc) + [z3.Not(d)]) for pc, d, j in res_c])],
               "the fast table answers Absolutely for every pair of the fragment (structural/nominal judgement is never consulted)", "all pairs", [l, r])
        for fn_, nm, swap in ((f_sup, "supertype_of", False), (f_sub, "subtype_of", True)):
            l2, r2, res_p, unsup_p, assm2, _ = encode(fn_, ("pl" + nm[:3], "pr" + nm[:3]), True)
            if unsup_p:
                rep.add(Obligation(base, key=nm + "/is-the-table", verdict=INCONCLUSIVE, reason="unsupported-construct: " + unsup_p[0][:200]))
                continue
            # same operands (swapped for subtype_of): the public answer equals the table's
            if swap:
                link = [l2.discr == r.discr, r2.discr == l.discr]
            else:
                link = [l2.discr == l.discr, r2.discr == r.discr]
            report(nm + "/is-the-table", assm + assm2 + link + [rel(res_p) != rel(res_c)],
                   "Context::%s(%s) equals cheap_supertype_of's judgement on the fragment" % (nm, "sub, sup" if swap else "sup, sub"), "all pairs", [l, r])

        S = rel(res_c)      # S(l, r): l :> r

        def sup_of(a_name, b_name):
            return z3.substitute(S, (l.discr, z3.BitVecVal(idx[a_name], 64)), (r.discr, z3.BitVecVal(idx[b_name], 64)))
        # --- laws
        report("reflexive", assm + [l.discr == r.discr, z3.Not(S)], "T <: T", "all T", [l, r])
        report("top", assm + [l.discr == idx["Obj"], z3.Not(S)], "T <: Obj for every T", "all T", [l, r])
        report("bottom", assm + [r.discr == idx["Never"], z3.Not(S)], "Never <: T for every T", "all T", [l, r])
        report("top-strict", assm + [r.discr == idx["Obj"], l.discr != idx["Obj"], S], "nothing but Obj is above Obj", "all T", [l, r])
        report("bottom-strict", assm + [l.discr == idx["Never"], r.discr != idx["Never"], S], "nothing but Never is below Never", "all T", [l, r])
        for i in range(len(TOWER) - 1):
            lo, hi = TOWER[i], TOWER[i + 1]
            report("tower/%s<:%s" % (lo, hi), assm + [l.discr == idx[hi], r.discr == idx[lo], z3.Not(S)], "%s <: %s" % (lo, hi), "one pair", [l, r])
            report("tower/not %s<:%s" % (hi, lo), assm + [l.discr == idx[lo], r.discr == idx[hi], S], "not %s <: %s" % (hi, lo), "one pair", [l, r])
        # the tower is a chain: every lower member is below every higher one, and nothing outside it is related to it except Obj/Never
        report("tower/chain", assm + [z3.Or([z3.And(l.discr == idx[TOWER[j]], r.discr == idx[TOWER[i]]) for i in range(len(TOWER)) for j in range(i, len(TOWER))]), z3.Not(S)],
               "Bool <: Nat <: Int <: Ratio <: Float <: Complex, transitively", "tower pairs", [l, r])
        outside = [v for v in frag if v not in TOWER and v not in ("Obj", "Never")]
        report("tower/closed", assm + [z3.Or([l.discr == idx[v] for v in TOWER]), z3.Or([r.discr == idx[v] for v in outside]), S],
               "no class outside the tower is below a tower class", "tower x others", [l, r])
        # transitivity over all triples: a :> b and b :> c => a :> c
        a, b, resab, u1, assm_ab, _ = encode(f_cheap, ("ta", "tb"), False)
        b2, c, resbc, u2, assm_bc, _ = encode(f_cheap, ("tb2", "tc"), False)
        a2, c2, resac, u3, assm_ac, _ = encode(f_cheap, ("ta2", "tc2"), False)
        report("transitive", assm_ab + assm_bc + assm_ac + [b2.discr == b.discr, a2.discr == a.discr, c2.discr == c.discr,
                                                           rel(resab), rel(resbc), z3.Not(rel(resac))],
               "A :> B and B :> C imply A :> C", "all triples", [a, b, c])
        l3, r3, res_rev, u4, assm_rev, _ = encode(f_cheap, ("rl", "rr"), False)
        report("antisymmetric", assm + assm_rev + [l3.discr == r.discr, r3.discr == l.discr, S, rel(res_rev), l.discr != r.discr],
               "A :> B and B :> A imply A = B", "all pairs", [l, r])

        # --- translation validation: the encoded judgement against the real function on every concrete pair of the fragment
        ccases, cfinish = c06_compound.stage(rep, s, text, tier, seed, only, tsrc)
        nr = NativeRun(s, "erg_compiler", "crates/erg_compiler/context/compare.rs", helpers=c06_compound.HELPERS)
        for cid_, expr_ in ccases:
            nr.add(cid_, expr_)
        for x in frag:
            for y in frag:
                nr.add("tv_%s_%s" % (x, y), 'format!("{:?}", Context::cheap_supertype_of(&Type::%s, &Type::%s))' % (x, y))
        cases_for_replay = {}
        unlisted = [(ob, names, ex) for ob, names, ex in to_replay if not rep.known.lookup(rep.prop, ob["key"])]
        for ob, names, ex in unlisted:
            for x in names:
                for y in names:
                    if x not in frag or y not in frag:
                        cid = "sup_%s_%s" % (x, y)
                        if cid not in cases_for_replay:
                            cases_for_replay[cid] = True
                            nr.add(cid, 'format!("{:?}", Context::cheap_supertype_of(&Type::%s, &Type::%s))' % (x, y))
        nat, dt_ = nr.run()
        if nat is None:
            rep.add(Obligation(base, key="translation-validation", verdict=BROKEN, reason="native build/run failed: " + nr.logs.get("dev", "")[-300:]))
        else:
            bad = []
            D = z3.Or([z3.And(list(pc) + [d]) for pc, d, j in res_c])
            for x in frag:
                for y in frag:
                    fix = [l.discr == idx[x], r.discr == idx[y]]
                    can_t, _ = check(fix + [S])
                    can_f, _ = check(fix + [z3.Not(S)])
                    def_t, _ = check(fix + [D])
                    def_f, _ = check(fix + [z3.Not(D)])
                    enc = "(%s, %s)" % ("Absolutely" if (def_t == "sat" and def_f == "unsat") else "Maybe" if (def_f == "sat" and def_t == "unsat") else "?",
                                        "true" if (can_t == "sat" and can_f == "unsat") else "false" if (can_f == "sat" and can_t == "unsat") else "?")
                    real = nat.get("tv_%s_%s" % (x, y))
                    if x == y and "?" in enc:
                        # identical operands: addr_eq may be either; both answers must still be (Absolutely, true)
                        enc = "(Absolutely, true)" if can_f == "unsat" and def_f == "unsat" else enc
                    if enc != real:
                        bad.append("%s :> %s: encoding %s, real %s" % (x, y, enc, real))
                    else:
                        rep.replayed += 1
            if bad:
                rep.add(Obligation(base, key="translation-validation", verdict=BROKEN, reason="; ".join(bad[:5])))
            else:
                rep.add(Obligation(base, key="translation-validation", verdict=HELD, nontrivial=False,
                                   reason="the encoded judgement equals the real cheap_supertype_of on all %d concrete pairs of the fragment (cargo test on the scratch copy)" % (len(frag) ** 2)))
        if nat is not None:
            cfinish(nat)
        # --- native replay of counterexamples
        if unlisted:
            res = nat
            if res is not None:
                res = dict(res)
                for k_, v_ in list(res.items()):
                    if k_.startswith("tv_"):
                        res["sup_" + k_[3:]] = v_
            for ob, names, ex in unlisted:
                rep.replayed += 1
                if res is None:
                    ob["replay_note"] = "native replay unavailable (build failed)"
                    continue
                tbl = {(x, y): res.get("sup_%s_%s" % (x, y)) for x in names for y in names}
                ob["native_replay"] = {"%s :> %s" % k: v for k, v in tbl.items()}
                # the native table must show the same failure the model shows: recompute the law on the concrete answers
                def sup(x, y):
                    return tbl[(x, y)] == "(Absolutely, true)"
                k = ob["key"]
                ok = None
                if k == "transitive":
                    ok = sup(names[0], names[1]) and sup(names[1], names[2]) and not sup(names[0], names[2])
                elif k in ("reflexive", "top", "bottom", "tower/chain") or k.startswith("tower/") and "not" not in k and k not in ("tower/closed",):
                    ok = not sup(names[0], names[1])
                elif k in ("top-strict", "bottom-strict", "tower/closed") or k.startswith("tower/not"):
                    ok = sup(names[0], names[1])
                elif k == "antisymmetric":
                    ok = sup(names[0], names[1]) and sup(names[1], names[0]) and names[0] != names[1]
                elif k == "cheap_supertype_of/definite":
                    ok = "Maybe" in (tbl[(names[0], names[1])] or "")
                if ok is False:
                    ob["verdict"] = BROKEN
                    ob["reason"] = "counterexample did not reproduce natively: " + ob["reason"]
        rep.assumptions += [
            "fragment: the fieldless variants of enum Type except the error placeholders Failure and Uninited (Failure is both top and bottom by design)",
            "self: &Context is opaque: on this fragment every path returns from the fast table before the context is consulted (decided: cheap_supertype_of/definite)",
            "stage 1 (mir2smt): singleton/enum below its class, refinements, polymorphic and nominal types are not decided; unions and intersections are decided in stage 2 (mirsem, compound/*)",
        ]
        rep.extra["fragment"] = frag
        rep.extra["z3_queries"] = qn[0]
        for o in rep.obls:
            o.setdefault("solver_s", round(qs[0] / max(qn[0], 1), 3))
        return rep.finish()
    finally:
        s.cleanup()
