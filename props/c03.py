"""C03 — refinement subtyping is sound for integer predicates (kernel: the predicate-implication judgement).

`{I: Int | P}` is accepted where `{I: Int | Q}` is required when `Context::is_super_pred_of(Q, P)` answers true (the refinement
arm of `structural_supertype_of` ends there).  The property is then: `is_super_pred_of(Q, P)` implies that every integer
satisfying P satisfies Q.

Engine: `mirsem` (engines/mirsem.py) — the rustc MIR of `is_super_pred_of` is executed symbolically on operand *shapes*
(atoms `I == n`, `I >= n`, `I <= n`, `I != n`, `True/False`, `And`, `Or` of those) whose bounds `n` are unbounded z3 integers
and whose atom kinds may themselves be solver variables.  Closures and the `TyParamOrdering` predicates are inlined from the
same MIR dump, the recursive calls on sub-predicates are inlined too (mode `concrete`) or replaced by the induction hypothesis
"a true answer implies inclusion" on opaque sub-predicates (mode `rule`: one inductive step).  For each path z3 decides

        path condition  AND  result is true  AND  i0 satisfies P  AND  NOT (i0 satisfies Q)        is unsatisfiable.

A satisfying assignment is a concrete pair of predicates and an integer; it is rebuilt as `Predicate` values and run through the
real `is_super_pred_of` on a real `Context` (and, in the thorough tier, through `erg check` / `erg run` of a generated program).
Contracts assumed for callees on the integer-literal domain (`try_cmp`, `supertype_of_tp`, `TyParam` equality, `has_*_bound`,
`reduce_preds`, std's `Option`/iterator adaptors, `erg_common::Set::get_by`) are validated natively on every run."""
import itertools
import os
import re
import time

import z3

import mir2smt as M
import mirsem as S
from common import (BROKEN, HELD, INCONCLUSIVE, VIOLATED, Obligation, Report, Scratch, extract_fn, log, sh)
from mirflow import DISC, Ref, Unsupported, V, const, fun
from native import NativeRun

ATOMS = ["Equal", "GreaterEqual", "LessEqual", "NotEqual"]
SHORT = {"Equal": "Eq", "GreaterEqual": "Ge", "LessEqual": "Le", "NotEqual": "Ne"}
VAL = z3.Function("VAL", V, z3.IntSort())
DENF = z3.Function("DEN", V, z3.IntSort(), z3.BoolSort())
I0 = z3.Int("i0")


def rel(kind, i, n):
    return {"Equal": i == n, "GreaterEqual": i >= n, "LessEqual": i <= n, "NotEqual": i != n}[kind]


# ---------------------------------------------------------------------------------------------
# shapes:  ("atom", kind|None) | ("leaf",) | ("bool",) | ("and", x, y) | ("or", [x, ...])

def shape_name(sp):
    if sp[0] == "atom":
        return SHORT[sp[1]] if sp[1] else "a"
    if sp[0] == "leaf":
        return "p"
    if sp[0] == "bool":
        return "Bool"
    if sp[0] == "and":
        return "And(%s,%s)" % (shape_name(sp[1]), shape_name(sp[2]))
    return "Or(%s)" % ",".join(shape_name(x) for x in sp[1])


class World:
    """one symbolic run: the operand values, their denotation at i0, the callee models"""

    def __init__(self, fns, vidx, mode, choices=()):
        self.fns, self.vidx, self.mode = fns, vidx, mode
        self.choices = list(choices)
        self.arity = []
        self.atoms = {}          # name -> z3 term
        self.bools = {}
        self.pidx = {v: i for i, v in enumerate(vidx["Predicate"])}
        self.oidx = {v: i for i, v in enumerate(vidx["TyParamOrdering"])}
        self.main = [f for f in fns.values() if f.short == "is_super_pred_of"]
        self.models_used = set()
        self.flow = None

    # ---- construction of operands
    def build(self, P, sp, name, under_and=False):
        pl = "p_" + name
        if sp[0] in ("atom", "leaf"):
            t = const(name)
            if sp[0] == "atom":
                kinds = [sp[1]] if sp[1] else ATOMS
                P.pc.append(z3.Or([DISC(t) == self.pidx[k] for k in kinds]))
                for k in ATOMS:
                    n = VAL(fun("field1", 1)(fun("as_" + k, 1)(t)))
                    P.pc.append(z3.Implies(DISC(t) == self.pidx[k], DENF(t, I0) == rel(k, I0, n)))
                self.atoms[name] = t
            else:
                P.pc.append(z3.And(DISC(t) >= 0, DISC(t) < len(self.pidx)))
                if under_and:
                    P.pc.append(DISC(t) != self.pidx["And"])
            P.locals[pl] = t
        elif sp[0] == "bool":
            b = const(name + "_b")
            P.pc.append(z3.Or(DISC(S.SV(b)) == 0, DISC(S.SV(b)) == 1))
            self.bools[name] = b
            P.locals[pl] = ("agg", "predicate::Predicate::Value", [("agg", "value::ValueObj::Bool", [b])])
        elif sp[0] == "and":
            l = self.build(P, sp[1], name + "l", True)
            r = self.build(P, sp[2], name + "r", True)
            P.locals[pl] = ("agg", "predicate::Predicate::And", [self.box(l), self.box(r)])
        elif sp[0] == "or":
            el = [self.build(P, x, "%so%d" % (name, i)) for i, x in enumerate(sp[1])]
            P.locals[pl] = ("agg", "predicate::Predicate::Or", [("set", el)])
        else:
            raise ValueError(sp)
        return Ref(pl)

    @staticmethod
    def box(ref):
        return ("agg", "Box", [("agg", "Unique", [ref])])

    @staticmethod
    def unbox(b):
        return b[2][0][2][0]

    # ---- denotation at i0
    def den(self, P, v):
        v = self.flow.deref_all(P, v)
        if z3.is_expr(v):
            return DENF(v, I0)
        if isinstance(v, tuple) and v[0] == "agg":
            last = v[1].split("::")[-1]
            if last == "And":
                return z3.And(self.den(P, self.unbox(v[2][0])), self.den(P, self.unbox(v[2][1])))
            if last == "Or":
                return z3.Or([self.den(P, e) for e in v[2][0][1]])
            if last == "Value":
                return S.truth(self.flow, v[2][0][2][0])
        raise Unsupported("denotation of %r" % (v,))

    def struct_eq(self, P, a, b):
        """(z3 Bool, exact?) for structural equality of two predicate values"""
        a, b = self.flow.deref_all(P, a), self.flow.deref_all(P, b)
        isatom = lambda x: z3.is_expr(x) and any(x.eq(t) for t in self.atoms.values())
        if isatom(a) and isatom(b):
            cs = []
            for k in ATOMS:
                f = lambda x: VAL(fun("field1", 1)(fun("as_" + k, 1)(x)))
                cs.append(z3.And(DISC(a) == self.pidx[k], DISC(b) == self.pidx[k], f(a) == f(b)))
            return z3.Or(cs), True
        agg = lambda x: isinstance(x, tuple) and x[0] == "agg"
        if (agg(a) and isatom(b)) or (isatom(a) and agg(b)):
            return z3.BoolVal(False), True
        if agg(a) and agg(b):
            la, lb = a[1].split("::")[-1], b[1].split("::")[-1]
            if la != lb:
                return z3.BoolVal(False), True
            if la == "Value":
                return S.truth(self.flow, a[2][0][2][0]) == S.truth(self.flow, b[2][0][2][0]), True
            if la == "And":
                e0, x0 = self.struct_eq(P, self.unbox(a[2][0]), self.unbox(b[2][0]))
                e1, x1 = self.struct_eq(P, self.unbox(a[2][1]), self.unbox(b[2][1]))
                if x0 and x1:
                    return z3.And(e0, e1), True
        e = z3.Bool("eq_%d" % self.flow.ctr.next())
        P.pc.append(z3.Implies(e, self.den(P, a) == self.den(P, b)))
        return e, False

    # ---- sets
    def mkset_refs(self, P, elems):
        """a Set<&Predicate>: one slot place per element, holding the reference"""
        return ("set", [self.flow.new_place(P, "pslot", e) for e in elems])

    def flatten_and(self, P, ref):
        v = self.flow.deref_all(P, ref)
        if isinstance(v, tuple) and v[0] == "agg" and v[1].endswith("::And"):
            return self.flatten_and(P, self.unbox(v[2][0])) + self.flatten_and(P, self.unbox(v[2][1]))
        return [self.lastref(P, ref)]

    def lastref(self, P, ref):
        """the innermost reference of a chain (a reference to the place that holds the predicate value)"""
        cur = ref
        for _ in range(8):
            v = self.flow.read(P, cur.local, list(cur.path))
            if isinstance(v, Ref):
                cur = v
            else:
                return cur
        raise Unsupported("reference chain")

    def choose(self, P, k):
        """non-empty subsets of k elements: the caller enumerates the choice vectors"""
        i = P.locals.get("#choice", 0)
        P.locals["#choice"] = i + 1
        n = (1 << k) - 1
        while len(self.arity) <= i:
            self.arity.append(n)
        self.arity[i] = max(self.arity[i], n)
        c = self.choices[i] if i < len(self.choices) else 0
        mask = (n - c) if c < n else n          # choice 0 = the full set
        return [j for j in range(k) if mask >> j & 1]

    def closure_fn(self, loc):
        c = [f for f in self.fns.values() if "{closure#" in f.short and f.params and loc in f.params[0][1]]
        if len({f.name for f in c}) != 1:
            raise Unsupported("closure at %s not found uniquely" % loc)
        return c[0]

    # ---- the models
    def models(self):
        W = self
        used = self.models_used

        def m(name):
            def deco(f):
                def g(flow, P, callee, args):
                    used.add(name)
                    return f(flow, P, callee, args)
                return g
            return deco

        @m("<&Predicate as PartialEq>::eq: structural equality (exact on atoms; otherwise only 'equal implies same denotation')")
        def pred_eq(flow, P, callee, args):
            e, _ = W.struct_eq(P, args[0], args[1])
            return flow.mkbool(P, e)

        @m("<&TyParam as PartialEq>::ne / eq: integer literals are equal iff their values are")
        def tp_ne(flow, P, callee, args):
            a, b = flow.deref_all(P, args[0]), flow.deref_all(P, args[1])
            e = VAL(a) != VAL(b)
            return flow.mkbool(P, e if callee.endswith("::ne") else z3.Not(e))

        @m("Context::try_cmp on integer literals: Some(Less | Equal | Greater), exactly")
        def try_cmp(flow, P, callee, args):
            a, b = VAL(flow.deref_all(P, args[1])), VAL(flow.deref_all(P, args[2]))
            opt = flow.fresh("opt")
            o = fun("field0", 1)(fun("as_Some", 1)(opt))
            P.pc.append(DISC(opt) == 1)
            P.pc.append(DISC(o) == z3.If(a < b, W.oidx["Less"], z3.If(a == b, W.oidx["Equal"], W.oidx["Greater"])))
            return opt

        @m("Context::supertype_of_tp on integer literals: true iff equal")
        def sup_tp(flow, P, callee, args):
            return flow.mkbool(P, VAL(flow.deref_all(P, args[1])) == VAL(flow.deref_all(P, args[2])))

        @m("TyParam::has_upper_bound / has_lower_bound: true for integer literals")
        def has_bound(flow, P, callee, args):
            return S.TRUE

        def closure_loc(callee):
            mm = re.search(r"\{closure@([^}]*)\}", callee)
            if not mm:
                raise Unsupported("closure type in " + callee)
            return mm.group(1).strip()

        @m("Option::is_some_and(f): Some(x) and f(x)  (std contract; the closure is inlined)")
        def is_some_and(flow, P, callee, args):
            opt = args[0]
            r = flow.inline(P, W.closure_fn(closure_loc(callee)), [const("zst_closure"), fun("field0", 1)(fun("as_Some", 1)(opt))])
            return flow.mkbool(P, z3.And(DISC(opt) == 1, S.truth(flow, r)))

        @m("Option::map(f): None -> None, Some(x) -> Some(f(x))  (std contract; the closure is inlined)")
        def opt_map(flow, P, callee, args):
            opt = args[0]
            r = flow.inline(P, W.closure_fn(closure_loc(callee)), [const("zst_closure"), fun("field0", 1)(fun("as_Some", 1)(opt))])
            mres = flow.fresh("optm")
            P.pc.append(DISC(mres) == DISC(opt))
            P.pc.append(fun("field0", 1)(fun("as_Some", 1)(mres)) == flow.term(r))
            return mres

        @m("Option::unwrap_or(d)  (std contract)")
        def unwrap_or(flow, P, callee, args):
            o, d = args
            r = flow.fresh("uw")
            P.pc.append(z3.If(DISC(o) == 1, r == fun("field0", 1)(fun("as_Some", 1)(o)), r == flow.term(d)))
            return r

        @m("TyParamOrdering::{is_*, canbe_*}: inlined from the MIR dump")
        def ordering(flow, P, callee, args):
            short = callee.rsplit("::", 1)[-1]
            fn = flow.find_fn(short, param0_contains="TyParamOrdering", name_contains="typaram::")
            if fn is None:
                raise Unsupported("TyParamOrdering::" + short)
            return flow.inline(P, fn, args)

        @m("is_super_pred_of on sub-predicates: inlined (mode concrete) or the induction hypothesis 'true implies inclusion' (mode rule)")
        def rec(flow, P, callee, args):
            a, b = flow.deref_all(P, args[1]), flow.deref_all(P, args[2])
            known = lambda x: (z3.is_expr(x) and any(x.eq(t) for t in W.atoms.values())) or (isinstance(x, tuple) and x[0] == "agg" and x[1].endswith("::Value"))
            if W.mode == "concrete" and known(a) and known(b):
                return flow.inline(P, W.main[0], args)
            s = z3.Bool("ih_%d" % flow.ctr.next())
            P.pc.append(z3.Implies(s, z3.Implies(W.den(P, b), W.den(P, a))))
            return flow.mkbool(P, s)

        @m("Predicate::ands: the conjuncts of nested And nodes (leaves of a shape are not And)")
        def ands(flow, P, callee, args):
            return W.mkset_refs(P, W.flatten_and(P, args[0]))

        @m("Predicate::ors: the elements of an Or, else the predicate itself")
        def ors(flow, P, callee, args):
            v = flow.deref_all(P, args[0])
            if isinstance(v, tuple) and v[0] == "agg" and v[1].endswith("::Or"):
                return W.mkset_refs(P, list(v[2][0][1]))
            return W.mkset_refs(P, [W.lastref(P, args[0])])

        @m("Context::reduce_preds(mode, S): a non-empty subset of S with the same intersection / union (every subset is explored)")
        def reduce_preds(flow, P, callee, args):
            mode = "and" if "and" in str(args[1]) else "or"
            st = flow.deref_all(P, args[2])
            elems = st[1]
            keep = [elems[j] for j in W.choose(P, len(elems))]
            comb = z3.And if mode == "and" else z3.Or
            P.pc.append(comb([W.den(P, e) for e in keep]) == comb([W.den(P, e) for e in elems]))
            return ("set", keep)

        @m("erg_common::Set::iter / IntoIterator::into_iter / Iterator::next over a set of known size (std contract)")
        def set_iter(flow, P, callee, args):
            st = flow.deref_all(P, args[0])
            if not (isinstance(st, tuple) and st[0] == "set"):
                raise Unsupported("iter over %r" % (st,))
            return ("iter", list(st[1]), 0)

        def into_iter(flow, P, callee, args):
            return args[0]

        def it_next(flow, P, callee, args):
            r = args[0]
            it = flow.read(P, r.local, list(r.path))
            if not (isinstance(it, tuple) and it[0] == "iter"):
                raise Unsupported("next on %r" % (it,))
            if it[2] < len(it[1]):
                flow.write(P, r.local, list(r.path), ("iter", it[1], it[2] + 1))
                return ("agg", "Option::Some", [it[1][it[2]]])
            return ("agg", "Option::None", [])

        @m("erg_common::Set::get_by(v, cmp): some element e with cmp(e, v)  (the closure is inlined per element)")
        def get_by(flow, P, callee, args):
            st = flow.deref_all(P, args[0])
            clo = args[2]
            fn = W.closure_fn(clo[1].split("@", 1)[1])
            place = flow.new_place(P, "pclo", clo)
            found = [S.truth(flow, flow.inline(P, fn, [place, e, args[1]])) for e in st[1]]
            return ("optflag", z3.Or(found) if found else z3.BoolVal(False))

        @m("Option::is_none  (std contract)")
        def is_none(flow, P, callee, args):
            o = flow.deref_all(P, args[0])
            if isinstance(o, tuple) and o[0] == "optflag":
                return flow.mkbool(P, z3.Not(o[1]))
            raise Unsupported("is_none on %r" % (o,))

        def quant(flow, P, callee, args, comb):
            r = args[0]
            it = flow.read(P, r.local, list(r.path))
            clo = args[1]
            fn = W.closure_fn(clo[1].split("@", 1)[1])
            place = flow.new_place(P, "pclo", clo)
            res = [S.truth(flow, flow.inline(P, fn, [place, e])) for e in it[1][it[2]:]]
            return flow.mkbool(P, comb(res) if res else z3.BoolVal(comb is z3.And))

        @m("Iterator::all(f) over a set of known size  (std contract; the closure is inlined per element)")
        def it_all(flow, P, callee, args):
            return quant(flow, P, callee, args, z3.And)

        @m("Iterator::any(f) over a set of known size  (std contract; the closure is inlined per element)")
        def it_any(flow, P, callee, args):
            return quant(flow, P, callee, args, z3.Or)

        @m("<&bool as Not>::not")
        def b_not(flow, P, callee, args):
            return flow.mkbool(P, z3.Not(S.truth(flow, flow.deref_all(P, args[0]))))

        return [
            (r"^<&(ty::)?predicate::Predicate as PartialEq>::eq$", pred_eq),
            (r"^<&(ty::)?typaram::TyParam as PartialEq>::(ne|eq)$", tp_ne),
            (r"::try_cmp$", try_cmp),
            (r"::supertype_of_tp$", sup_tp),
            (r"TyParam::has_(upper|lower)_bound$", has_bound),
            (r"^Option::<TyParamOrdering>::is_some_and::", is_some_and),
            (r"^Option::<TyParamOrdering>::map::", opt_map),
            (r"^Option::<bool>::unwrap_or$", unwrap_or),
            (r"^TyParamOrdering::(is|canbe)_\w+$", ordering),
            (r"::is_super_pred_of$", rec),
            (r"Predicate::ands$", ands),
            (r"Predicate::ors$", ors),
            (r"::reduce_preds$", reduce_preds),
            (r"set::Set::<.*>::iter$", set_iter),
            (r"as IntoIterator>::into_iter$", into_iter),
            (r"as Iterator>::next$", it_next),
            (r"set::Set::<.*>::get_by::", get_by),
            (r"^Option::<.*>::is_none$", is_none),
            (r"as Iterator>::all::", it_all),
            (r"as Iterator>::any::", it_any),
            (r"^<&bool as (std::ops::)?Not>::not$", b_not),
        ]

    # ---- one run
    def run(self, lsp, rsp):
        fn = self.main[0]
        flow = S.SemFlow(self.fns, fn, None, self.vidx)
        flow.models = self.models()
        self.flow = flow
        P0 = S.Path()
        P0.pc = list(S.BASE_AXIOMS)
        L = self.build(P0, lsp, "L")
        R = self.build(P0, rsp, "R")
        pre = dict(P0.locals)
        pre.update({"_1": const("ctx"), "_2": L, "_3": R})
        outs = flow.run("bb0", stop_at=(), pre=pre, pc=P0.pc)
        return flow, L, R, [(Q, Q.locals.get("_0")) for Q, end in outs if end == "return"]


# ---------------------------------------------------------------------------------------------
# concrete predicates (for replay, validation and the generated programs)

def conc_from_model(W, mdl, sp, name):
    ev = lambda e: mdl.eval(e, model_completion=True)
    if sp[0] == "atom":
        t = W.atoms[name]
        k = W.vidx["Predicate"][ev(DISC(t)).as_long()]
        n = ev(VAL(fun("field1", 1)(fun("as_" + k, 1)(t)))).as_long()
        return ("atom", k, n)
    if sp[0] == "bool":
        return ("bool", ev(DISC(S.SV(W.bools[name]))).as_long() != 0)
    if sp[0] == "and":
        l, r = conc_from_model(W, mdl, sp[1], name + "l"), conc_from_model(W, mdl, sp[2], name + "r")
        return None if l is None or r is None else ("and", l, r)
    if sp[0] == "or":
        el = [conc_from_model(W, mdl, x, "%so%d" % (name, i)) for i, x in enumerate(sp[1])]
        return None if None in el else ("or", el)
    return None          # an opaque leaf has no concrete instance


def conc_rust(c):
    if c[0] == "atom":
        return "atom(%d, %d)" % (ATOMS.index(c[1]), c[2])
    if c[0] == "bool":
        return "pbool(%s)" % str(c[1]).lower()
    if c[0] == "and":
        return "pand(%s, %s)" % (conc_rust(c[1]), conc_rust(c[2]))
    return "por(vec![%s])" % ", ".join(conc_rust(x) for x in c[1])


def conc_erg(c):
    if c[0] == "atom":
        return "I %s %d" % ({"Equal": "==", "GreaterEqual": ">=", "LessEqual": "<=", "NotEqual": "!="}[c[1]], c[2])
    if c[0] == "bool":
        return "True" if c[1] else "False"
    if c[0] == "and":
        return "(%s) and (%s)" % (conc_erg(c[1]), conc_erg(c[2]))
    return " or ".join("(%s)" % conc_erg(x) for x in c[1])


def conc_den(c, i):
    if c[0] == "atom":
        return {"Equal": i == c[2], "GreaterEqual": i >= c[2], "LessEqual": i <= c[2], "NotEqual": i != c[2]}[c[1]]
    if c[0] == "bool":
        return c[1]
    if c[0] == "and":
        return conc_den(c[1], i) and conc_den(c[2], i)
    return any(conc_den(x, i) for x in c[1])


def conc_constraints(W, c, sp, name):
    """z3 constraints that pin the symbolic operand `name` of shape sp to the concrete predicate c"""
    if sp[0] == "atom":
        t = W.atoms[name]
        return [DISC(t) == W.pidx[c[1]], VAL(fun("field1", 1)(fun("as_" + c[1], 1)(t))) == c[2]]
    if sp[0] == "bool":
        return [DISC(S.SV(W.bools[name])) == (1 if c[1] else 0)]
    if sp[0] == "and":
        return conc_constraints(W, c[1], sp[1], name + "l") + conc_constraints(W, c[2], sp[2], name + "r")
    out = []
    for i, x in enumerate(sp[1]):
        out += conc_constraints(W, c[1][i], x, "%so%d" % (name, i))
    return out


HELPERS = r"""
    thread_local! { static CTX: Context = Context::default_with_name("<module>"); }
    fn tpv(v: i64) -> TyParam { if v >= 0 { TyParam::value(v as usize) } else { TyParam::value(v as i32) } }
    fn atom(k: u8, v: i64) -> Predicate {
        let lhs = erg_common::Str::ever("I");
        let rhs = tpv(v);
        match k {
            0 => Predicate::Equal { lhs, rhs },
            1 => Predicate::GreaterEqual { lhs, rhs },
            2 => Predicate::LessEqual { lhs, rhs },
            _ => Predicate::NotEqual { lhs, rhs },
        }
    }
    fn pand(a: Predicate, b: Predicate) -> Predicate { Predicate::And(Box::new(a), Box::new(b)) }
    fn por(v: Vec<Predicate>) -> Predicate { Predicate::Or(v.into_iter().collect()) }
    fn pbool(b: bool) -> Predicate { Predicate::Value(ValueObj::Bool(b)) }
    fn ival(tp: &TyParam) -> i64 {
        match tp {
            TyParam::Value(ValueObj::Int(i)) => *i as i64,
            TyParam::Value(ValueObj::Nat(n)) => *n as i64,
            _ => panic!("non-integer bound"),
        }
    }
    fn den(p: &Predicate, i: i64) -> bool {
        match p {
            Predicate::Value(ValueObj::Bool(b)) => *b,
            Predicate::Equal { rhs, .. } => i == ival(rhs),
            Predicate::GreaterEqual { rhs, .. } => i >= ival(rhs),
            Predicate::LessEqual { rhs, .. } => i <= ival(rhs),
            Predicate::NotEqual { rhs, .. } => i != ival(rhs),
            Predicate::And(l, r) => den(l, i) && den(r, i),
            Predicate::Or(s) => s.iter().any(|q| den(q, i)),
            _ => panic!("shape"),
        }
    }
    fn sup(l: &Predicate, r: &Predicate) -> bool { CTX.with(|c| c.is_super_pred_of(l, r)) }
"""


def atom_sp(k=None):
    return ("atom", k)


def shape_pairs(tier):
    """[(mode, lhs shape, rhs shape)]"""
    a, p, B = atom_sp(), ("leaf",), ("bool",)
    out = []
    for k1 in ATOMS:
        for k2 in ATOMS:
            out.append(("concrete", atom_sp(k1), atom_sp(k2)))
    for k in ATOMS:
        out.append(("concrete", B, atom_sp(k)))
        out.append(("concrete", atom_sp(k), B))
    out.append(("concrete", B, B))
    for leaf, mode in ((a, "concrete"), (p, "rule")):
        A2, O2 = ("and", leaf, leaf), ("or", [leaf, leaf])
        comp = [A2, O2]
        if tier == "thorough":
            comp += [("and", leaf, ("and", leaf, leaf)), ("or", [leaf, leaf, leaf])]
        for X in comp:
            out.append((mode, a, X))
            out.append((mode, X, a))
            out.append((mode, B, X))
            out.append((mode, X, B))
        for X in comp:
            for Y in comp:
                out.append((mode, X, Y))
    if tier == "thorough":
        out.append(("concrete", ("and", a, ("or", [a, a])), ("and", a, a)))
        out.append(("concrete", ("and", a, a), ("and", a, ("or", [a, a]))))
        out.append(("concrete", ("or", [a, ("and", a, a)]), ("or", [a, a])))
        out.append(("concrete", ("or", [a, a]), ("or", [a, ("and", a, a)])))
    return out


MUST_ACCEPT = {"Ge:>Ge", "Ge:>Eq", "Le:>Le", "Ne:>Eq", "Ne:>Ge", "Eq:>Eq", "And(a,a):>And(a,a)", "Or(a,a):>Or(a,a)", "And(a,a):>a", "a:>Or(a,a)"}


def run(tier, seed, only=None):
    rep = Report("C03", tier, seed, "other",
                 "Kernel-level partial claim: the predicate-implication judgement Context::is_super_pred_of, which decides whether "
                 "{I: Int | P} is accepted where {I: Int | Q} is required.  Its rustc MIR is executed symbolically (engine mirsem: closures, "
                 "TyParamOrdering predicates and the recursive calls inlined from the MIR dump; integer bounds as unbounded z3 integers; atom "
                 "kinds as solver variables) for every pair of operand shapes up to depth 2 (atoms ==, >=, <=, !=, True/False, And, Or), "
                 "and z3 decides that a true answer implies set inclusion at an arbitrary integer.  Mode `rule` replaces the sub-predicates "
                 "by opaque predicates with the induction hypothesis, i.e. one inductive step for trees of any depth.  Counterexamples are "
                 "rebuilt as Predicate values and run through the real function on a real Context; callee contracts and the encoding are "
                 "validated natively on every run.  Not decided: how structural_supertype_of reaches the judgement, predicates over "
                 "non-literal bounds (type variables: try_cmp answers `Any`), Float bounds, the Call/Attr/General* arms.", partial=bool(only))
    rep.trusted += ["rustc nightly -Zunpretty=mir as the semantics of the source", "engines/mirsem.py + engines/mirflow.py", "z3 " + z3.get_version_string()]
    s = Scratch("c03")
    try:
        csrc = s.read("crates/erg_compiler/context/compare.rs")
        psrc = s.read("crates/erg_compiler/ty/predicate.rs")
        tsrc = s.read("crates/erg_compiler/ty/typaram.rs")
        vsrc = s.read("crates/erg_compiler/ty/value.rs")
        vidx = {"Predicate": M.rust_enum_variants(psrc, "Predicate"), "TyParamOrdering": M.rust_enum_variants(tsrc, "TyParamOrdering"),
                "ValueObj": M.rust_enum_variants(vsrc, "ValueObj"), "Option": ["None", "Some"]}
        rep.add_function("Context::is_super_pred_of", "crates/erg_compiler/context/compare.rs", extract_fn(csrc, "is_super_pred_of"))
        rep.add_function("Context::reduce_preds (contract only)", "crates/erg_compiler/context/compare.rs", extract_fn(csrc, "reduce_preds"))
        rep.add_function("impl TyParamOrdering", "crates/erg_compiler/ty/typaram.rs", extract_fn(tsrc, "TyParamOrdering", kind="impl"))
        if None in vidx.values() or any(k not in vidx["Predicate"] for k in ATOMS + ["And", "Or", "Value"]):
            rep.add(Obligation(key="source/enums", verdict=BROKEN, reason="Predicate / TyParamOrdering / ValueObj variants could not be read from the source"))
            return rep.finish()
        text, dt, err, rc = M.dump_mir(s, "erg_compiler", overflow_checks=True, extra_cargo=["--lib"])
        if rc != 0 or len(text) < 1000:
            log("MIR dump failed:\n" + err[-3000:])
            rep.add(Obligation(key="mir-dump", verdict=BROKEN, reason="cargo +nightly rustc -Zunpretty=mir failed"))
            return rep.finish()
        log("  MIR dump erg_compiler: %.0fs, %d MB" % (dt, len(text) >> 20))
        fns = M.parse_mir(text, want=["::is_super_pred_of", "typaram.rs:"])
        del text
        mains = [f for f in fns.values() if f.short == "is_super_pred_of"]
        if len(mains) != 1:
            rep.add(Obligation(key="mir/functions", verdict=BROKEN, reason="is_super_pred_of not found uniquely in the MIR dump (%d)" % len(mains)))
            return rep.finish()
        solver = z3.Solver()
        solver.set("timeout", 60000)
        nq = [0]

        def check(conds):
            solver.push()
            solver.add(*conds)
            r = solver.check()
            mdl = solver.model() if r == z3.sat else None
            solver.pop()
            nq[0] += 1
            return str(r), mdl

        pairs = shape_pairs(tier)
        to_replay = []          # (obligation, concrete L, concrete R, i0)
        runs = {}               # key -> [(W, paths, lsp, rsp)]   (kept for the translation validation)
        models_used = set()
        inlined = set()
        t_all = time.time()
        for mode, lsp, rsp in pairs:
            pname = "%s:>%s" % (shape_name(lsp), shape_name(rsp))
            key = "implies/%s" % pname + ("@rule" if mode == "rule" else "")
            if only and not any(o in key for o in only.split(',')):
                continue
            base = dict(engine="mirsem (MIR -> z3 %s)" % z3.get_version_string(), solver="z3", functions=["Context::is_super_pred_of"],
                        shape="%s ; mode %s" % (pname, mode),
                        symbolic=["every integer bound (unbounded z3 Int)", "the kind of every atom written `a`", "truth value of Bool", "the integer i0 tested for membership"]
                        + (["the sub-predicates `p` (opaque, induction hypothesis)"] if mode == "rule" else []),
                        bounds={"depth": 2 if tier == "quick" else 3})
            ob = Obligation(base, key=key)
            t0 = time.time()
            nqs = nq[0]
            try:
                W0 = World(fns, vidx, mode)
                W0.run(lsp, rsp)
                vecs = list(itertools.product(*[range(n) for n in W0.arity])) if W0.arity else [()]
                npaths = accepting = 0
                verdict, reason, cex = HELD, "", None
                keep = []
                inq = 0
                for vec in vecs:
                    W = World(fns, vidx, mode, vec)
                    flow, L, R, paths = W.run(lsp, rsp)
                    inq += flow.queries
                    models_used |= W.models_used
                    inlined |= flow.inlined
                    keep.append((W, paths, vec))
                    for Q, rv in paths:
                        if rv is None:
                            raise Unsupported("path without a return value")
                        tr = S.truth(flow, rv)
                        r0, _ = check(Q.pc)
                        if r0 != "sat":
                            continue
                        npaths += 1
                        ra, _ = check(Q.pc + [tr])
                        if ra == "sat":
                            accepting += 1
                        r1, mdl = check(Q.pc + [tr, W.den(Q, R), z3.Not(W.den(Q, L))])
                        if r1 == "sat" and cex is None:
                            cl, cr = conc_from_model(W, mdl, lsp, "L"), conc_from_model(W, mdl, rsp, "R")
                            i0 = mdl.eval(I0, model_completion=True).as_long()
                            cex = (cl, cr, i0, vec)
                            verdict = VIOLATED
                        elif r1 not in ("sat", "unsat") and verdict == HELD:
                            verdict, reason = INCONCLUSIVE, "solver " + r1
                runs[key] = (keep, lsp, rsp)
                ob["queries"] = nq[0] - nqs + inq
                ob["detail"] = {"paths": npaths, "accepting_paths": accepting, "reduce_preds_choice_vectors": len(vecs)}
                if npaths == 0:
                    verdict, reason = BROKEN, "no feasible path (vacuous encoding)"
                elif pname in MUST_ACCEPT and accepting == 0:
                    verdict, reason = BROKEN, "vacuity: the judgement can never answer true for %s in the encoding" % pname
                if verdict == HELD:
                    reason = "on all %d paths (%d can answer true): a true answer implies that every integer satisfying the right operand satisfies the left one" % (npaths, accepting)
                elif verdict == VIOLATED:
                    cl, cr, i0, vec = cex
                    if cl is not None and cr is not None:
                        ob["model"] = {"Q (left)": conc_erg(cl), "P (right)": conc_erg(cr), "i0": i0}
                        reason = "answers true for {I | %s} :> {I | %s}, but %d satisfies the right operand and not the left" % (conc_erg(cl), conc_erg(cr), i0)
                        to_replay.append((ob, cl, cr, i0))
                    else:
                        ob["model"] = {"i0": i0, "note": "opaque sub-predicates: see the concrete twin"}
                        reason = "the combination rule is unsound for opaque sub-predicates (induction step fails)"
                ob.update(verdict=verdict, reason=reason, solver_s=round(time.time() - t0, 2))
            except Unsupported as e:
                ob.update(verdict=INCONCLUSIVE, reason="unsupported-construct: " + str(e)[:200], solver_s=round(time.time() - t0, 2))
            rep.add(ob)
        log("  symbolic stage: %d obligations, %.0fs, %d z3 queries" % (len(rep.obls), time.time() - t_all, nq[0]))

        # a rule-mode violation is reported only together with its concrete twin (an opaque counterexample cannot be replayed)
        byk = {o["key"]: o for o in rep.obls}
        for o in rep.obls:
            if o["key"].endswith("@rule") and o["verdict"] == VIOLATED:
                twin = byk.get("implies/" + o["key"][len("implies/"):-5].replace("p", "a"))
                if twin is None or twin["verdict"] not in (VIOLATED,):
                    o["verdict"] = INCONCLUSIVE
                    o["reason"] = "induction step fails only for sub-predicates no atom realises (concrete twin: %s)" % (twin and twin["verdict"])
                else:
                    o["twin"] = twin["key"]

        # ---- native stage: contracts, translation validation, replay
        nr = NativeRun(s, "erg_compiler", "crates/erg_compiler/context/compare.rs", helpers=HELPERS)
        ints = [-3, -1, 0, 1, 2, 7]
        for a in ints:
            for b in ints:
                nr.add("k.%d.%d" % (a + 10, b + 10),
                       "let (a, b) = (tpv(%d), tpv(%d)); CTX.with(|c| format!(\"{:?} {} {} {} {}\", c.try_cmp(&a, &b), c.supertype_of_tp(&a, &b, Variance::Covariant), a != b, a.has_upper_bound(), a.has_lower_bound()))" % (a, b))
        # translation validation vectors: concrete predicate pairs per validated key
        vvals = [-1, 0, 2]
        tv = []
        for key, (keep, lsp, rsp) in sorted(runs.items()):
            if key.endswith("@rule"):
                continue
            names = []

            def leaves(sp):
                if sp[0] == "atom":
                    return [sp]
                if sp[0] == "bool":
                    return [sp]
                if sp[0] == "and":
                    return leaves(sp[1]) + leaves(sp[2])
                return [x for y in sp[1] for x in leaves(y)]
            nl = len(leaves(lsp)) + len(leaves(rsp))
            import random
            rnd = random.Random(seed * 1000 + len(tv))
            cases = 9 if nl <= 2 else 6

            def inst(sp):
                if sp[0] == "atom":
                    return ("atom", sp[1] or rnd.choice(ATOMS), rnd.choice(vvals))
                if sp[0] == "bool":
                    return ("bool", rnd.random() < 0.5)
                if sp[0] == "and":
                    return ("and", inst(sp[1]), inst(sp[2]))
                return ("or", [inst(x) for x in sp[1]])
            seen = set()
            for _ in range(cases * 3):
                cl, cr = inst(lsp), inst(rsp)
                if (repr(cl), repr(cr)) in seen:
                    continue
                seen.add((repr(cl), repr(cr)))
                tv.append((key, cl, cr))
                if len(seen) >= cases:
                    break
        for i, (key, cl, cr) in enumerate(tv):
            nr.add("t.%d" % i, "let l = %s; let r = %s; format!(\"{}\", sup(&l, &r))" % (conc_rust(cl), conc_rust(cr)))
        unlisted = [t for t in to_replay if not rep.known.lookup(rep.prop, t[0]["key"])]
        for i, (ob, cl, cr, i0) in enumerate(to_replay):
            nr.add("r.%d" % i, "let l = %s; let r = %s; format!(\"{} {} {}\", sup(&l, &r), den(&l, %d), den(&r, %d))" % (conc_rust(cl), conc_rust(cr), i0, i0))
        res, dtn = nr.run()
        log("  native stage: %d cases, %.0fs" % (len(nr.cases), dtn))
        cbase = dict(engine="native (cargo test on the scratch copy)", functions=["Context::try_cmp", "Context::supertype_of_tp", "TyParam::eq", "TyParam::has_upper_bound", "TyParam::has_lower_bound"])
        if res is None:
            rep.add(Obligation(cbase, key="contracts/validated", verdict=BROKEN, reason="the native validation binary did not build or run"))
            return rep.finish()
        bad = []
        for a in ints:
            for b in ints:
                got = res.get("k.%d.%d" % (a + 10, b + 10), "")
                want = "Some(%s) %s %s true true" % ("Less" if a < b else "Equal" if a == b else "Greater", str(a == b).lower(), str(a != b).lower())
                if got != want:
                    bad.append("(%d, %d): %s, contract %s" % (a, b, got, want))
        rep.add(Obligation(cbase, key="contracts/validated", nontrivial=False, verdict=BROKEN if bad else HELD,
                           reason=("callee contract differs from the real code: " + "; ".join(bad[:3])) if bad else
                           "try_cmp / supertype_of_tp / TyParam equality / has_*_bound agree with the assumed contracts on %d integer-literal pairs" % (len(ints) ** 2)))
        # translation validation
        tbad, tn = [], 0
        for i, (key, cl, cr) in enumerate(tv):
            got = res.get("t.%d" % i)
            keep, lsp, rsp = runs[key]
            outcomes = set()
            for W, paths, vec in keep:
                pins = conc_constraints(W, cl, lsp, "L") + conc_constraints(W, cr, rsp, "R")
                for Q, rv in paths:
                    tr = S.truth(W.flow, rv)
                    if check(Q.pc + pins + [tr])[0] == "sat":
                        outcomes.add("true")
                    if check(Q.pc + pins + [z3.Not(tr)])[0] == "sat":
                        outcomes.add("false")
            tn += 1
            rep.replayed += 1
            if got not in outcomes:
                tbad.append("%s: {%s} :> {%s}: real %s, encoding %s" % (key, conc_erg(cl), conc_erg(cr), got, sorted(outcomes)))
        rep.add(Obligation(dict(engine="mirsem vs native", functions=["Context::is_super_pred_of"]), key="translation/validated", nontrivial=False,
                           verdict=BROKEN if tbad else HELD,
                           reason=("the encoding disagrees with the real function: " + " | ".join(tbad[:4])) if tbad else
                           "the symbolic execution predicts the real function's answer on %d concrete predicate pairs" % tn))
        for i, (ob, cl, cr, i0) in enumerate(to_replay):
            got = res.get("r.%d" % i)
            rep.replayed += 1
            ob["native_replay"] = {"call": "is_super_pred_of(%s, %s); membership of %d" % (conc_rust(cl), conc_rust(cr), i0), "result (answer, in left, in right)": got}
            if got != "true false true":
                ob["verdict"] = BROKEN
                ob["reason"] = "counterexample did not reproduce natively (%s): %s" % (got, ob["reason"])
        for o in rep.obls:
            if o.get("twin") and byk[o["twin"]]["verdict"] == BROKEN:
                o["verdict"] = BROKEN
                o["reason"] = "concrete twin did not reproduce"
        # ---- end to end (thorough, or whenever an unlisted violation is about to be reported)
        confirmed = [t for t in to_replay if t[0]["verdict"] == VIOLATED]
        if confirmed and (tier == "thorough" or any(not rep.known.lookup(rep.prop, t[0]["key"]) for t in confirmed)):
            e2e(s, rep, confirmed)
        rep.assumptions += sorted(models_used) + [
            "bounds of all predicates are integer literals and all predicates speak about the same variable (the refinement variable)",
            "the order in which a hash set is iterated does not matter (each loop is a conjunction / disjunction over its elements)",
            "panics / unreachable arms are not modelled (the judgement has none on these shapes)",
        ]
        rep.extra["inlined_from_mir"] = sorted(inlined)
        rep.extra["z3_queries"] = nq[0]
        return rep.finish()
    finally:
        s.cleanup()


def e2e(s, rep, confirmed):
    """build the compiler from the scratch copy and feed it `g(x: {I: Int | P}): {I: Int | Q} = x; print! g(i0)`"""
    t0 = time.time()
    tdir = os.path.join(s.root, "native")
    rc, out, dt = sh(["cargo", "build", "--offline", "--bin", "erg"], cwd=s.src, env=s.env(CARGO_TARGET_DIR=tdir), timeout=2400)
    exe = os.path.join(tdir, "debug", "erg")
    if rc != 0 or not os.path.exists(exe):
        log("  e2e: building erg failed (rc=%s)" % rc)
        return
    for n, (ob, cl, cr, i0) in enumerate(confirmed[:6]):
        src = "g(x: {I: Int | %s}): {I: Int | %s} = x\nprint! g(%d)\n" % (conc_erg(cr), conc_erg(cl), i0)
        f = os.path.join(s.root, "e2e_%d.er" % n)
        open(f, "w").write(src)
        rc1, out1, _ = sh([exe, "check", f], env=s.env(), timeout=120)
        rc2, out2, _ = sh([exe, "run", f], env=s.env(), timeout=120)
        ob["end_to_end"] = {"program": src, "erg check exit": rc1, "erg run exit": rc2, "stdout tail": out2.strip()[-80:]}
        log("  e2e %s: check rc=%s run rc=%s out=%r" % (ob["key"], rc1, rc2, out2.strip()[-40:]))
    log("  e2e stage: %.0fs" % (time.time() - t0))
