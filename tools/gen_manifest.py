#!/usr/bin/env python3
"""Regenerates /verif/MANIFEST.json from the table below and validates it against the schema."""
import json
import os
import sys

VERIF = os.path.dirname(os.path.dirname(os.path.abspath(__file__)))

KANI = "bounded model checking of the compiled Rust (Kani 0.68 -> CBMC 6.11 -> CaDiCaL SAT) through a cfg(kani) source overlay"
MIR = "symbolic execution of rustc MIR (regenerated per run) into SMT; z3 decides, cvc5 cross-checks"
PY = "symbolic execution of the Python runtime sources (ast -> z3)"

CLAIMED = {
    "C16": dict(
        engine="kani",
        technique="Kani/CBMC bounded model checking (SAT) of the opcode/magic tables and jump arithmetic, symbolic byte/u32/idx/arg, oracle generated from the installed CPython interpreters",
        category="other",
        text="For every byte (all 256), every u32 magic word and every (idx,arg) < 2^16 the SAT solver shows that the compiled "
             "tables agree with dis.opmap / hasjrel / hasjabs / MAGIC_NUMBER of the installed CPython 3.7-3.12; per-name opcode "
             "numbers are compile-time constants checked in the same harnesses. Bounded only by the stated idx/arg range.",
        note="Trusts the installed interpreters as the oracle, Kani/CBMC/CaDiCaL, and the table-per-version choice made in codegen.rs "
             "(308 for 3.7/3.8, 309, 310, 311). Names present only in erg's tables are listed, not failed.",
        design="3/C16"),
    "C04": dict(
        engine="mir2smt",
        technique="symbolic execution of the rustc MIR of ValueObj::try_* / Neg / eval_bin / eval_unary_val into SMT (bit-vectors + IEEE-754), "
                  "z3 decides panic freedom and agreement with Python per (operator, operand-variant pair); counterexamples are replayed "
                  "against the real build (cargo test) with CPython's own arithmetic as the oracle; the encoding is validated on concrete vectors",
        category="other",
        text="For every i32 / u64 / f64 bit pattern / bool payload of both operands, per operator and per pair of operand variants "
             "(Int, Nat, Float, Bool), z3 shows that the compiled constant-folding kernel reaches no panic and that every value it "
             "returns equals Python's result (exact integer semantics incl. floor division and modulo, bit-exact binary64, exact "
             "int/float comparison), and that eval_bin / try_binary dispatch to the operator they name; where the full-domain "
             "obligation is a listed known finding, restricted-domain obligations (Nat < 2^31, non-negative operands) are decided "
             "separately so the arm stays guarded. The link from a folded value to the type checker's use of it is not decided.",
        note="Trusts rustc's MIR dump (dev profile, overflow checks on) as the semantics of the source, engines/mir2smt.py (validated on "
             "each run against the native build on seeded concrete vectors), z3, and the Python reference written in props/c04.py. "
             "float // % ** have no exact reference (panic freedom only); int/int true division reference is bounded to |operands| <= 2^53; "
             "try_pow exponents 0..3 and -1; Str/List/Dict/Type operands are outside.",
        design="3/C04"),
}

NOT_APPLICABLE = {}


def load_na():
    p = os.path.join(VERIF, "data", "not_applicable.json")
    return json.load(open(p))


def main():
    na = load_na()
    checks = []
    for pid in sorted(CLAIMED):
        c = CLAIMED[pid]
        checks.append({
            "property_id": pid,
            "quick_cmd": "./check %s --tier quick" % pid,
            "thorough_cmd": "./check %s --tier thorough" % pid,
            "evidence_file": "evidence/%s.json" % pid,
            "replay_cmd_template": "./check %s --replay {path}" % pid,
            "engine": c["engine"],
            "technique": c["technique"],
            "level_claimed": {"category": c["category"], "text": c["text"], "design_ref": "DESIGN.md §" + c["design"]},
            "level_note": c["note"],
        })
    props = [json.loads(l)["id"] for l in open(os.path.join(VERIF, "properties.jsonl")) if l.strip()]
    nalist = []
    for pid in props:
        if pid in CLAIMED:
            continue
        if pid not in na:
            print("missing not_applicable reason for", pid)
            sys.exit(1)
        nalist.append({"property_id": pid, "reason": na[pid]})
    m = {
        "version": 1,
        "setup_cmd": "./setup.sh",
        "hooks": {
            "guard": "cfg(kani)",
            "enable": "no hook commits: checks copy /repo's working tree to a scratch directory and append `#[cfg(kani)] mod __verif { use super::*; .. }` "
                      "to the copied source files (cargo-kani is the only thing that sets cfg(kani)); MIR is dumped from the same copy with the nightly toolchain",
            "baseline_off_cmd": "cd /repo && cargo nextest run --workspace --no-fail-fast --test-threads 8 --offline || cargo test --workspace --no-fail-fast --offline",
            "source_commits": [],
            "add_only": True,
        },
        "engines": [
            {"name": "kani", "path": "engines/kani.py", "serves_properties": sorted(p for p, c in CLAIMED.items() if "kani" in c["engine"]),
             "kind_free_text": KANI},
            {"name": "mir2smt", "path": "engines/mir2smt.py", "serves_properties": sorted(p for p, c in CLAIMED.items() if "mir2smt" in c["engine"]),
             "kind_free_text": MIR},
            {"name": "native", "path": "engines/native.py", "serves_properties": sorted(p for p, c in CLAIMED.items() if "mir2smt" in c["engine"]),
             "kind_free_text": "replay of solver counterexamples and translation-validation vectors against the real crate (cargo test on the scratch copy)"},
        ],
        "checks": checks,
        "not_applicable": nalist,
        "notes": "All checks rebuild from /repo's working tree in a scratch copy under $VERIF_SCRATCH (default /var/tmp), removed afterwards. "
                 "Exit 0 held / 1 VIOLATION / 2 machinery error. Known findings: known_findings.jsonl (role-keyed).",
    }
    out = os.path.join(VERIF, "MANIFEST.json")
    with open(out, "w") as f:
        json.dump(m, f, indent=1)
    try:
        import jsonschema
        jsonschema.validate(m, json.load(open("/root/.vp/MANIFEST.schema.json")))
        print("MANIFEST.json valid;", len(checks), "checks,", len(nalist), "not applicable")
    except ImportError:
        print("written (jsonschema unavailable)")


if __name__ == "__main__":
    main()
