"""C01 — compiled bytecode computes what the source means (kernel-level: the constant pool's sharing predicate).

The property quantifies over programs; nothing installed executes lower.rs + codegen.rs on a symbolic program.  What the
statement singles out — "every literal value the program may contain, including naturals of 2**31 and above and signed zeros" —
rests on kernels that are decidable: (1) the predicate by which `PyCodeGenerator::emit_load_const` / `register_const` decide
that two constants may share one `co_consts` slot (decided here), (2) the bytes written for a constant (decided under C15).

Engine: E2 mir2smt.  The predicate is read from the source (`.position(|c| <predicate>)` in both functions), its MIR is
executed with two symbolic `ValueObj` operands whose variant is a solver variable over the scalar variants {Int, Nat, Float,
Bool, None} and whose payloads range over every i32 / u64 / f64 bit pattern / bool; z3 decides that two constants that may
share a slot are the same Python constant (same kind, same value, same float bit pattern)."""
import re
import time

import z3

import mir2smt as M
from common import (BROKEN, HELD, INCONCLUSIVE, VIOLATED, Obligation, Report, Scratch, extract_fn, log)
from native import NativeRun

SCALARS = ["Int", "Nat", "Float", "Bool", "None"]


def run(tier, seed, only=None):
    rep = Report("C01", tier, seed, "other",
                 "Kernel-level partial claim.  Symbolic execution of the rustc MIR of the predicate the code generator uses to reuse a "
                 "constant-pool slot (read from emit_load_const / register_const) over two ValueObj operands with symbolic scalar variant and "
                 "payload (every i32, u64, f64 bit pattern, bool): z3 decides that constants sharing a slot are the same Python constant "
                 "(signed zeros, Int/Nat of different sign, cross-kind pairs) and that identical constants do share.  Emission of operators, "
                 "calls, control flow and patterns, desugaring, linking and the runtime prelude are not decided.", partial=bool(only))
    rep.trusted += ["rustc nightly -Zunpretty=mir as the semantics of the source", "engines/mir2smt.py", "z3 " + z3.get_version_string()]
    s = Scratch("c01")
    try:
        cg = s.read("crates/erg_compiler/codegen.rs")
        vsrc = s.read("crates/erg_compiler/ty/value.rs")
        preds = []
        for fn in ("emit_load_const", "register_const"):
            body = extract_fn(cg, fn) or ""
            rep.add_function("PyCodeGenerator::" + fn, "crates/erg_compiler/codegen.rs", body or None)
            m = re.search(r"\.position\(\|c\|\s*(.*?)\)\s*\.unwrap_or_else", body, re.S)
            preds.append(m.group(1).strip() if m else None)
        base0 = dict(engine="source scan + mir2smt", functions=["PyCodeGenerator::emit_load_const", "PyCodeGenerator::register_const"])
        if None in preds or len(set(preds)) != 1:
            rep.add(Obligation(base0, key="pool/predicate", verdict=BROKEN,
                               reason="the slot-reuse predicate could not be read from both functions, or they differ: %r" % (preds,)))
            return rep.finish()
        pred = preds[0]
        if pred == "c == &value":
            target_short, via_eq = "eq", True
        else:
            m = re.fullmatch(r"c\.(\w+)\(&value\)", pred)
            if not m:
                rep.add(Obligation(base0, key="pool/predicate", verdict=INCONCLUSIVE, reason="unrecognised slot-reuse predicate: " + pred))
                return rep.finish()
            target_short, via_eq = m.group(1), False
        rep.add(Obligation(base0, key="pool/predicate", verdict=HELD, nontrivial=False,
                           reason="both functions look a slot up with `%s`" % pred))
        text, dt, err, rc = M.dump_mir(s, "erg_compiler", overflow_checks=True, extra_cargo=["--lib"])
        if rc != 0 or len(text) < 1000:
            log("MIR dump failed:\n" + err[-3000:])
            rep.add(Obligation(key="mir-dump", verdict=BROKEN, reason="cargo +nightly rustc -Zunpretty=mir failed"))
            return rep.finish()
        log("  MIR dump erg_compiler: %.0fs, %d MB" % (dt, len(text) >> 20))
        fns = M.parse_mir(text, want=["ty::value::"])
        variants = M.rust_enum_variants(vsrc, "ValueObj")
        idx = {v: i for i, v in enumerate(variants)}
        enums = {"ValueObj": variants, "Option": ["None", "Some"]}
        cands = [f for f in fns.values() if f.short == target_short and len(f.params) == 2 and "ValueObj" in f.params[0][1] and "ValueObj" in f.params[1][1]]
        eqc = [f for f in fns.values() if f.short == "eq" and len(f.params) == 2 and f.params[0][1] == "&ty::value::ValueObj" and f.params[1][1] == "&ty::value::ValueObj"]
        if len(cands) != 1 or len(eqc) != 1:
            rep.add(Obligation(key="mir/functions", verdict=BROKEN, reason="predicate function `%s` / ValueObj::eq not found uniquely in the MIR dump (%d, %d)" % (target_short, len(cands), len(eqc))))
            return rep.finish()
        fn = cands[0]
        rep.add_function("ValueObj::" + target_short, "crates/erg_compiler/ty/value.rs", extract_fn(vsrc, target_short))
        rep.add_function("<ValueObj as PartialEq>::eq", "crates/erg_compiler/ty/value.rs", extract_fn(vsrc, "eq"))

        def deref(I, st, v):
            fr = I.frame_by_id(st, v.frame)
            return I.load_raw(st, fr, v.local, list(v.proj))

        I = M.Interp(fns, enums)
        I.struct_fields["Float"] = ["f64"]

        def m_to_bits(I_, st, fr, callee, args, dty, work, at):
            return M.Scalar(z3.fpToIEEEBV(args[0].t), "u64")

        def m_refeq(I_, st, fr, callee, args, dty, work, at):
            return ("INLINE", eqc[0], [deref(I_, st, args[0]), deref(I_, st, args[1])], None)
        I.models[r"f64>::to_bits$"] = m_to_bits
        I.models[r"^<&ty::value::ValueObj as PartialEq>::eq$"] = m_refeq
        a, b = I.sym("ty::value::ValueObj", "a"), I.sym("ty::value::ValueObj", "b")
        assm = [z3.Or([a.discr == idx[v] for v in SCALARS]), z3.Or([b.discr == idx[v] for v in SCALARS])]
        t0 = time.time()
        outs = I.run(fn, [M.Ref(0, "_va", ()), M.Ref(0, "_vb", ())], assm, extra_locals={"_va": a, "_vb": b})
        rets = [o for o in outs if o.kind == "return"]
        bad = [o for o in outs if o.kind != "return"]
        base = dict(engine="mir2smt (MIR -> z3 %s)" % z3.get_version_string(), solver="z3", functions=["ValueObj::" + target_short, "<ValueObj as PartialEq>::eq"],
                    symbolic=["variant of both operands over %s" % SCALARS, "payloads: i32, u64, f64 (all bit patterns), bool"],
                    bounds={"variants": SCALARS}, stubs=sorted(I.models_used))
        if bad or not rets:
            rep.add(Obligation(base, key="pool/encodable", verdict=INCONCLUSIVE if bad else BROKEN,
                               reason=("unsupported-construct: %s @%s" % (bad[0].msg[:160], bad[0].where)) if bad else "no path"))
            return rep.finish()
        solver = z3.Solver()
        solver.set("timeout", 60000)
        nq = [0]

        def check(conds):
            solver.push()
            for c in conds:
                solver.add(c)
            r = solver.check()
            mdl = solver.model() if r == z3.sat else None
            solver.pop()
            nq[0] += 1
            return str(r), mdl
        P = z3.Or([z3.And(list(o.pc) + [o.value.t]) for o in rets])      # the predicate as one formula

        def payload(e, var, ty):
            pl = e.payload.get(var, {})
            if 0 in pl:
                return pl[0]
            return None
        # force payload creation for all scalar variants (paths that never read a payload leave it unconstrained anyway)
        def pv(e, var):
            v = payload(e, var, None)
            if v is None:
                return None
            if isinstance(v, M.Agg):      # Float newtype
                return v.fields[0].t
            return v.t

        def same_python_constant():
            cases = []
            ai, an, af, ab = pv(a, "Int"), pv(a, "Nat"), pv(a, "Float"), pv(a, "Bool")
            bi, bn, bf, bb = pv(b, "Int"), pv(b, "Nat"), pv(b, "Float"), pv(b, "Bool")
            da, db = a.discr, b.discr

            def is_(d, v):
                return d == idx[v]
            if ai is not None and bi is not None:
                cases.append(z3.And(is_(da, "Int"), is_(db, "Int"), ai == bi))
            if an is not None and bn is not None:
                cases.append(z3.And(is_(da, "Nat"), is_(db, "Nat"), an == bn))
            if ai is not None and bn is not None:
                cases.append(z3.And(is_(da, "Int"), is_(db, "Nat"), z3.SignExt(33, ai) == z3.ZeroExt(1, bn)))
            if an is not None and bi is not None:
                cases.append(z3.And(is_(da, "Nat"), is_(db, "Int"), z3.SignExt(33, bi) == z3.ZeroExt(1, an)))
            if af is not None and bf is not None:
                cases.append(z3.And(is_(da, "Float"), is_(db, "Float"), z3.fpToIEEEBV(af) == z3.fpToIEEEBV(bf)))
            if ab is not None and bb is not None:
                cases.append(z3.And(is_(da, "Bool"), is_(db, "Bool"), ab == bb))
            cases.append(z3.And(is_(da, "None"), is_(db, "None")))
            return z3.Or(cases)
        SAME = same_python_constant()
        r_t, _ = check(assm + [P])
        r_f, _ = check(assm + [z3.Not(P)])
        if r_t != "sat" or r_f != "sat":
            rep.add(Obligation(base, key="pool/encodable", verdict=BROKEN, reason="vacuous encoding: predicate satisfiable %s, refutable %s" % (r_t, r_f)))
            return rep.finish()
        rep.add(Obligation(base, key="pool/encodable", verdict=HELD, nontrivial=False, reason="%d paths, all return; the predicate is satisfiable and refutable" % len(rets)))
        to_replay = []

        def lit(mdl, e):
            v = variants[mdl.eval(e.discr, model_completion=True).as_long()]
            t = pv(e, v)
            if v == "None":
                return "ValueObj::None", "None"
            val = mdl.eval(t, model_completion=True)
            if v == "Float":
                bits = mdl.eval(z3.fpToIEEEBV(t), model_completion=True).as_long()
                return "ValueObj::from(f64::from_bits(%du64))" % bits, "Float(bits 0x%016x)" % bits
            if v == "Bool":
                return "ValueObj::Bool(%s)" % str(z3.is_true(val)).lower(), "Bool(%s)" % z3.is_true(val)
            if v == "Int":
                return "ValueObj::Int(%d)" % val.as_signed_long(), "Int(%d)" % val.as_signed_long()
            return "ValueObj::Nat(%d)" % val.as_long(), "Nat(%d)" % val.as_long()

        def report(key, conds, why, want_pred):
            r, mdl = check(conds)
            ob = Obligation(base, key=key, queries=1)
            if r == "unsat":
                ob.update(verdict=HELD, reason=why)
            elif r == "sat":
                (ra, sa), (rb, sb) = lit(mdl, a), lit(mdl, b)
                ob.update(verdict=VIOLATED, model=[sa, sb], reason="%s fails for %s and %s" % (why, sa, sb))
                to_replay.append((ob, ra, rb, want_pred))
            else:
                ob.update(verdict=INCONCLUSIVE, reason="solver " + r)
            rep.add(ob)
        report("pool/shares-only-identical", assm + [P, z3.Not(SAME)],
               "two constants that share a co_consts slot are the same Python constant (kind, value, float bit pattern)", True)
        # (that identical constants *do* share a slot is an optimisation, not part of the property: not asserted)
        for va in SCALARS:
            for vb in SCALARS:
                if SCALARS.index(va) > SCALARS.index(vb):
                    continue
                report("pool/(%s,%s)/shares-only-identical" % (va, vb), assm + [a.discr == idx[va], b.discr == idx[vb], P, z3.Not(SAME)],
                       "%s and %s constants share a slot only when they are the same Python constant" % (va, vb), True)
        # native replay
        unlisted = [t for t in to_replay if not rep.known.lookup(rep.prop, t[0]["key"])]
        if unlisted:
            nr = NativeRun(s, "erg_compiler", "crates/erg_compiler/ty/value.rs")
            call = "a == b" if via_eq else "a.%s(&b)" % target_short
            for i, (ob, ra, rb, want) in enumerate(unlisted):
                nr.add("c%d" % i, "let a = %s; let b = %s; format!(\"{}\", %s)" % (ra, rb, call))
            res, _dt = nr.run()
            for i, (ob, ra, rb, want) in enumerate(unlisted):
                rep.replayed += 1
                if res is None:
                    ob["replay_note"] = "native replay unavailable"
                    continue
                got = res.get("c%d" % i)
                ob["native_replay"] = {"call": "%s with a = %s, b = %s" % (call, ra, rb), "result": got}
                if got != ("true" if want else "false"):
                    ob["verdict"] = BROKEN
                    ob["reason"] = "counterexample did not reproduce natively (%s): %s" % (got, ob["reason"])
        rep.assumptions += [
            "operands: the scalar variants Int, Nat, Float, Bool, None (Str, tuples and nested code objects are compared by their own PartialEq and are outside)",
            "the pool logic around the predicate (`consts.iter().position(pred).unwrap_or_else(push)`) is read from the source, not encoded",
            "Int and Nat of equal value are one Python constant (both are Python ints)",
        ]
        rep.extra["predicate"] = pred
        rep.extra["z3_queries"] = nq[0]
        return rep.finish()
    finally:
        s.cleanup()
