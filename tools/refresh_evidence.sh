#!/bin/bash
# Re-run every registered quick check on /repo's current tree, sequentially, and keep the logs; the committed evidence files come from these runs.
cd /verif
mkdir -p /var/tmp/probe; exec 9>/var/tmp/probe/repo.lock; flock 9   # seeded-change runs patch /repo under the same lock
mkdir -p /var/tmp/probe/sweep
for p in "$@"; do
  VERIF_SEED=1 timeout 3500 ./check $p --tier quick > /var/tmp/probe/sweep/$p.log 2>&1
  echo "$p rc=$? $(grep SUMMARY /var/tmp/probe/sweep/$p.log | cut -c1-160)"
done
