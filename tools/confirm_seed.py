#!/usr/bin/env python3
"""Confirm a seeded property-breaking change in a scratch worktree and file it under /verif/seeded/<name>/.

usage: confirm_seed.py <prop> <name> '<json spec>'
  spec = {"copy": [[<file in out/<name>/>, <path in worktree>], ...], "cmd": "<demo command, run at worktree root>",
          "skip_suite": false}
Steps (all in /tmp/mut/<prop>, a git worktree of /repo, HOME redirected):
  1. checkout /repo's current HEAD, demo on the unchanged tree must exit 0
  2. git apply patch.diff, demo must exit non-zero
  3. with the patch and without the demo files, the repository's test suite must pass
     (`cargo test --workspace --no-fail-fast --offline`; failing tests are re-run once, serially, because the els
      completion tests are timing-sensitive under load)
  4. revert; write /verif/seeded/<name>/{patch.diff, demo files, meta.json}
"""
import json
import os
import re
import shutil
import subprocess
import sys
import time

prop, name, spec = sys.argv[1], sys.argv[2], json.loads(sys.argv[3])
wt = "/tmp/mut/" + prop
out = os.path.join(wt, "out", name)
env = dict(os.environ, HOME=wt + "/.home", CARGO_HOME="/root/.cargo", RUSTUP_HOME="/root/.rustup", CARGO_NET_OFFLINE="true")
log = []


def sh(cmd, timeout=3600):
    t0 = time.time()
    p = subprocess.run(cmd, shell=True, cwd=wt, env=env, stdout=subprocess.PIPE, stderr=subprocess.STDOUT, text=True, errors="replace", timeout=timeout)
    log.append("$ %s   [rc=%d, %.0fs]\n%s" % (cmd, p.returncode, time.time() - t0, p.stdout[-3000:]))
    return p.returncode, p.stdout


def clean():
    sh("git checkout -q -- . ")
    for _, dst in spec.get("copy", []):
        try:
            os.remove(os.path.join(wt, dst))
        except FileNotFoundError:
            pass


head = subprocess.check_output(["git", "-C", "/repo", "rev-parse", "HEAD"], text=True).strip()
clean()
sh("git checkout -q --detach " + head)
res = {"property": prop, "name": name, "repo_head": head}
rc, o = sh("git apply --check out/%s/patch.diff" % name)
if rc != 0:
    res["status"] = "patch does not apply to current HEAD"
    print(json.dumps(res)); print("\n".join(log)[-3000:]); sys.exit(1)


def put_demo():
    for src, dst in spec.get("copy", []):
        os.makedirs(os.path.dirname(os.path.join(wt, dst)), exist_ok=True)
        shutil.copy(os.path.join(out, src), os.path.join(wt, dst))
    for src, dst in spec.get("append", []):       # a #[cfg(test)] module appended to an existing source file
        with open(os.path.join(wt, dst), "a") as f:
            f.write("\n" + open(os.path.join(out, src)).read())


put_demo()
rc0, o0 = sh(spec["cmd"])
res["demo_unchanged_rc"] = rc0
sh("git apply out/%s/patch.diff" % name)
rc1, o1 = sh(spec["cmd"])
res["demo_changed_rc"] = rc1
res["demo_changed_tail"] = o1[-600:]
# suite with the change, without the demo
clean()
sh("git apply out/%s/patch.diff" % name)
suite_ok = None
if not spec.get("skip_suite"):
    rc2, o2 = sh("cargo test --workspace --no-fail-fast --offline -- --test-threads 6 2>&1 | grep -E '^test result|^test .* FAILED|^error: test failed|panicked' ")
    failed = re.findall(r"^test (\S+) \.\.\. FAILED", o2, re.M)
    oks = re.findall(r"^test result: (\w+)\. (\d+) passed; (\d+) failed", o2, re.M)
    res["suite_first_run"] = {"passed": sum(int(a[1]) for a in oks), "failed": failed}
    still = []
    for t in failed:
        bad = True
        for _try in range(3):     # the els completion tests are timing-sensitive under load (they fail now and then on the unchanged tree too)
            rc3, o3 = sh("cargo test --workspace --offline %s -- --test-threads 1 2>&1 | grep -E '^test result|FAILED'" % t.split("::")[-1])
            if "FAILED" not in o3:
                bad = False
                break
        if bad:
            still.append(t)
    res["suite_failed_after_serial_rerun"] = still
    suite_ok = (not still) and sum(int(a[1]) for a in oks) >= 230
res["suite_ok"] = suite_ok
clean()
ok = rc0 == 0 and rc1 != 0 and (suite_ok or spec.get("skip_suite"))
res["status"] = "confirmed" if ok else "NOT confirmed"
if ok:
    d = "/verif/seeded/" + name
    os.makedirs(d, exist_ok=True)
    shutil.copy(os.path.join(out, "patch.diff"), d)
    for src, _ in spec.get("copy", []) + spec.get("append", []):
        shutil.copy(os.path.join(out, src), d)
    for extra in spec.get("extra_files", []):
        if os.path.exists(os.path.join(out, extra)):
            shutil.copy(os.path.join(out, extra), d)
    for extra in ("demo_howto.txt",):
        if os.path.exists(os.path.join(out, extra)):
            shutil.copy(os.path.join(out, extra), d)
    meta = {}
    try:
        meta = json.load(open(os.path.join(out, "meta.json")))
    except Exception:
        pass
    meta.update({"property": prop, "name": name, "demo": spec, "confirmed_by_builder": res,
                 "what_i_ran": ["git apply patch.diff in a scratch worktree at /repo HEAD %s" % head[:8], spec["cmd"] + "  (unchanged: rc %d, changed: rc %d)" % (rc0, rc1),
                                "cargo test --workspace --no-fail-fast --offline with the change (failing tests re-run serially once)"]})
    json.dump(meta, open(os.path.join(d, "meta.json"), "w"), indent=1)
print(json.dumps(res, indent=1))
open("/var/tmp/probe/confirm_%s.log" % name, "w").write("\n".join(log))
