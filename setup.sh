#!/bin/bash
# Offline setup: nothing is built ahead of time (every check rebuilds from /repo's working tree in a scratch copy).
set -e
cd "$(dirname "$0")"
chmod +x check tools/*.py 2>/dev/null || true
command -v cargo >/dev/null
cargo kani --version >/dev/null
cargo +nightly --version >/dev/null          # MIR dumps (C04)
python3-vt -c "import z3; print('z3', z3.get_version_string())"
command -v cvc5 >/dev/null                   # thorough tier cross-check (C04)
command -v rsync >/dev/null
python3-vt -c "import crosshair" # C25 (python side)
echo setup ok
