"""C06, stage 2 — unions and intersections: `T <: (T or U)`, `(T and U) <: T`, and the soundness of the combination rules.

`Context::structural_supertype_of` decides `Or` / `And` types by quantifying over their members.  Its rustc MIR is executed
(engine mirsem) on shape-concrete operands — `Or{p, q}`, `And[p, q]` (thorough: three members), a monomorphic class `m` — whose
members are opaque types.  Semantics: a type denotes a set of values; at one arbitrary value, DEN(Or) is the disjunction and
DEN(And) the conjunction of the members' DEN.  The recursive `supertype_of(a, b)` on members is replaced by the induction
hypothesis (answer true => DEN(b) => DEN(a)) and by reflexivity (`supertype_of(x, x)` is true).  z3 decides

  sound/<L>:><R>   an answer true implies DEN(R) => DEN(L)                              (one inductive step for nested unions/intersections)
  law/<name>       the laws of the property statement answer true: (T or U) :> T, (T or U) :> U, (T or U) :> (U or T),
                   T :> (T and U), U :> (T and U), (T and U) :> (U and T), reflexivity of both

A violated obligation is replayed on the real function with the members instantiated from a catalogue of builtin classes
(Nat, Int, Float, Str, NoneType) and compared with the reference inclusion over five witness values."""
import itertools
import re
import time

import z3

import mir2smt as M
import mirsem as S
from common import (BROKEN, HELD, INCONCLUSIVE, VIOLATED, Obligation, log)
from mirflow import DISC, Ref, Unsupported, V, const, fun

TDEN = z3.Function("TDEN", V, z3.BoolSort())
CATALOGUE = ["Nat", "Int", "Float", "Str", "NoneType"]
WITNESS = {"Nat": {"nat"}, "Int": {"nat", "neg"}, "Float": {"nat", "neg", "frac"}, "Str": {"str"}, "NoneType": {"none"}}


def shape_name(sp):
    if sp[0] == "leaf":
        return sp[1]
    if sp[0] == "mono":
        return sp[1]
    return "%s(%s)" % ("Or" if sp[0] == "or" else "And", ",".join(shape_name(x) for x in sp[1]))


class TWorld:
    def __init__(self, monos=()):
        self.leaves = {}
        self.monos = set(monos)        # members that also occur as a top-level operand are monomorphic classes everywhere

    def build(self, flow, P, sp, tag):
        """returns a Ref to a place holding the type value"""
        if sp[0] in ("leaf", "mono"):
            name = sp[1]
            if name not in self.leaves:
                t = const("ty_" + name)
                self.leaves[name] = t
                ismono = sp[0] == "mono" or name in self.monos
                P.locals["p_t_" + name] = ("agg", "ty::Type::Mono", [const("name_" + name)]) if ismono else t
                if not ismono:
                    P.pc.append(z3.And(DISC(t) >= 0, DISC(t) < 64))
            return Ref("p_t_" + name)
        elems = [self.build(flow, P, x, tag) for x in sp[1]]
        pl = "p_%s%d" % (tag, flow.ctr.next())
        if sp[0] == "or":
            P.locals[pl] = ("agg", "ty::Type::Or", [("set", elems)])
        else:
            P.locals[pl] = ("agg", "ty::Type::And", [("vec", elems), const("and_idx")])
        return Ref(pl)

    def den(self, flow, P, v):
        v = flow.deref_all(P, v)
        if z3.is_expr(v):
            return TDEN(v)
        if isinstance(v, tuple) and v[0] == "agg":
            last = v[1].split("::")[-1]
            if last == "Or":
                return z3.Or([self.den(flow, P, e) for e in v[2][0][1]])
            if last == "And":
                return z3.And([self.den(flow, P, e) for e in v[2][0][1]])
            if last == "Mono":
                return TDEN(v[2][0])
        raise Unsupported("denotation of %r" % (v,))


def models(W, used):
    TW = W["tw"]

    def m(name):
        def deco(f):
            def g(flow, P, callee, args):
                used.add(name)
                return f(flow, P, callee, args)
            return g
        return deco

    def same(flow, P, a, b):
        a, b = flow.deref_all(P, a), flow.deref_all(P, b)
        if z3.is_expr(a) and z3.is_expr(b):
            return a.eq(b)
        if isinstance(a, tuple) and isinstance(b, tuple) and a[0] == "agg" and b[0] == "agg" and a[1].endswith("Mono") and b[1].endswith("Mono"):
            return a[2][0].eq(b[2][0])
        return False

    @m("supertype_of / subtype_of on members: true for the same member (reflexivity), otherwise the induction hypothesis 'true implies inclusion'")
    def sup(flow, P, callee, args):
        a, b = args[1], args[2]
        if callee.endswith("subtype_of") and not callee.endswith("supertype_of"):
            a, b = b, a
        if same(flow, P, a, b):
            return S.TRUE
        s = z3.Bool("ih_%d" % flow.ctr.next())
        P.pc.append(z3.Implies(s, z3.Implies(TW.den(flow, P, b), TW.den(flow, P, a))))
        return flow.mkbool(P, s)

    @m("RecursionCounter::{new, limit_reached}: the recursion limit is not reached")
    def rc_new(flow, P, callee, args):
        return const("rc")

    def rc_limit(flow, P, callee, args):
        return S.FALSE

    def coll(flow, P, a):
        v = flow.deref_all(P, a)
        if isinstance(v, tuple) and v[0] in ("set", "vec"):
            return v
        raise Unsupported("not a shape-concrete collection: %r" % (v,))

    @m("Set / Vec / slice of types: iter, len, clone, rotate_left, zip over members of known number (std / erg_common contract)")
    def c_iter(flow, P, callee, args):
        return ("iter", list(coll(flow, P, args[0])[1]), 0)

    def c_len(flow, P, callee, args):
        return ("int", len(coll(flow, P, args[0])[1]))

    def c_deref(flow, P, callee, args):
        return args[0]

    def c_clone(flow, P, callee, args):
        v = coll(flow, P, args[0])
        return (v[0], list(v[1]))

    def c_rotate(flow, P, callee, args):
        r = args[0]
        v = coll(flow, P, r)
        k = args[1][1] if flow.is_int(args[1]) else None
        if k is None or not v[1]:
            raise Unsupported("rotate_left by a symbolic amount")
        k %= len(v[1])
        base = r
        for _ in range(6):
            x = flow.read(P, base.local, list(base.path))
            if isinstance(x, Ref):
                base = x
            else:
                break
        flow.write(P, base.local, list(base.path), (v[0], list(v[1][k:]) + list(v[1][:k])))
        return const("unit")

    def c_zip(flow, P, callee, args):
        a = args[0]
        if not (isinstance(a, tuple) and a[0] == "iter"):
            raise Unsupported("zip of %r" % (a,))
        b = coll(flow, P, args[1])
        return ("iter", [("agg", "tuple2", [x, y]) for x, y in zip(a[1][a[2]:], b[1])], 0)

    def into_iter(flow, P, callee, args):
        a = args[0]
        if isinstance(a, Ref):
            v = flow.deref_all(P, a)
            if isinstance(v, tuple) and v[0] in ("set", "vec"):
                return ("iter", list(v[1]), 0)
        return a

    def closure_fn(flow, callee):
        mm = re.search(r"\{closure@([^}]*)\}", callee)
        if not mm:
            raise Unsupported("closure type in " + callee[:80])
        loc = mm.group(1).strip()
        c = [f for f in flow.fns.values() if "{closure#" in f.short and f.params and loc in f.params[0][1]]
        if len({f.name for f in c}) != 1:
            raise Unsupported("closure at %s not found uniquely" % loc)
        return c[0]

    @m("Iterator::any / all over members (std contract; closures inlined per member)")
    def quant(flow, P, callee, args):
        it = args[0]
        if isinstance(it, Ref):
            it = flow.read(P, it.local, list(it.path))
        if not (isinstance(it, tuple) and it[0] == "iter"):
            raise Unsupported("any/all on %r" % (it,))
        fn = closure_fn(flow, callee)
        res = []
        for e in it[1][it[2]:]:
            first = flow.new_place(P, "pclo", args[1]) if fn.params[0][1].startswith("&") else args[1]
            res.append(S.truth(flow, flow.inline(P, fn, [first, e])))
        isany = "::any::" in callee
        return flow.mkbool(P, (z3.Or(res) if isany else z3.And(res)) if res else z3.BoolVal(not isany))

    @m("Range<usize>: into_iter / next (std contract)")
    def r_next(flow, P, callee, args):
        r = args[0]
        rg = flow.read(P, r.local, list(r.path))
        if not (isinstance(rg, tuple) and rg[0] == "agg" and rg[1].endswith("Range") and all(flow.is_int(x) for x in rg[2])):
            raise Unsupported("next on %r" % (rg,))
        a, b = rg[2][0][1], rg[2][1][1]
        if a < b:
            flow.write(P, r.local, list(r.path), ("agg", rg[1], [("int", a + 1), ("int", b)]))
            return ("agg", "Option::Some", [("int", a)])
        return ("agg", "Option::None", [])

    return [
        (r"::supertype_of$|::subtype_of$", sup),
        (r"RecursionCounter::new$", rc_new),
        (r"RecursionCounter::limit_reached$", rc_limit),
        (r"set::Set::<(ty::)?Type>::iter$|slice::<impl \[(ty::)?Type\]>::iter$|^Vec::<(ty::)?Type>::iter$", c_iter),
        (r"set::Set::<(ty::)?Type>::len$|^Vec::<(ty::)?Type>::len$|slice::<impl \[(ty::)?Type\]>::len$", c_len),
        (r"^<Vec<(ty::)?Type> as Deref(Mut)?>::deref(_mut)?$", c_deref),
        (r"^<Vec<(ty::)?Type> as Clone>::clone$", c_clone),
        (r"slice::<impl \[(ty::)?Type\]>::rotate_left$", c_rotate),
        (r"as Iterator>::zip::", c_zip),
        (r"as IntoIterator>::into_iter$", into_iter),
        (r"as Iterator>::(any|all)::", quant),
        (r"^<std::ops::Range<usize> as Iterator>::next$", r_next),
    ]


def jobs(tier):
    T, U, X = ("leaf", "T"), ("leaf", "U"), ("leaf", "X")
    p, q, r, s_ = ("leaf", "p"), ("leaf", "q"), ("leaf", "r"), ("leaf", "s")
    m = ("mono", "m")
    out = []
    comp_l = [("or", [p, q]), ("and", [p, q])]
    comp_r = [("or", [r, s_]), ("and", [r, s_])]
    if tier == "thorough":
        comp_l += [("or", [p, q, X]), ("and", [p, q, X])]
        comp_r += [("or", [r, s_, U]), ("and", [r, s_, U])]
    for L in comp_l:
        out.append(("sound", L, m))
        for R in comp_r:
            out.append(("sound", L, R))
    for R in comp_r:
        out.append(("sound", m, R))
    laws = [
        ("law/(T or U) :> T", ("or", [T, U]), T), ("law/(T or U) :> U", ("or", [T, U]), U),
        ("law/(T or U) :> (U or T)", ("or", [T, U]), ("or", [U, T])), ("law/(T or U) :> (T or U)", ("or", [T, U]), ("or", [T, U])),
        ("law/T :> (T and U)", T, ("and", [T, U])), ("law/U :> (T and U)", U, ("and", [T, U])),
        ("law/(T and U) :> (U and T)", ("and", [T, U]), ("and", [U, T])), ("law/(T and U) :> (T and U)", ("and", [T, U]), ("and", [T, U])),
    ]
    if tier == "thorough":
        laws += [("law/(T or U or X) :> (X or T)", ("or", [T, U, X]), ("or", [X, T])), ("law/(T and U and X) :> (X and T and U)", ("and", [T, U, X]), ("and", [X, T, U]))]
    for k, L, R in laws:
        # a single class at top level must be inspectable: make it a monomorphic class
        mk = lambda sp: ("mono", sp[1]) if sp[0] == "leaf" else sp
        out.append((k, mk(L), mk(R)))
    return out


def rust_type(sp, assign):
    if sp[0] in ("leaf", "mono"):
        return "Type::" + assign[sp[1]]
    if sp[0] == "or":
        return "Type::Or(vec![%s].into_iter().collect())" % ", ".join(rust_type(x, assign) for x in sp[1])
    return "Type::And(vec![%s], None)" % ", ".join(rust_type(x, assign) for x in sp[1])


def ref_set(sp, assign):
    if sp[0] in ("leaf", "mono"):
        return set(WITNESS[assign[sp[1]]])
    sets = [ref_set(x, assign) for x in sp[1]]
    return set.union(*sets) if sp[0] == "or" else set.intersection(*sets)


def leaf_names(sp):
    if sp[0] in ("leaf", "mono"):
        return [sp[1]]
    return [n for x in sp[1] for n in leaf_names(x)]


HELPERS = r"""
    thread_local! { static CCTX: Context = Context::default_with_name("<module>"); }
    fn ssup(l: &Type, r: &Type) -> bool { CCTX.with(|c| c.structural_supertype_of(l, r)) }
"""


def stage(rep, s, text, tier, seed, only, tsrc):
    """returns (native cases, finisher)"""
    variants = M.rust_enum_variants(tsrc, "Type")
    fns = M.parse_mir(text, want=["::structural_supertype_of"])
    mains = [f for f in fns.values() if f.short == "structural_supertype_of"]
    if len(mains) != 1 or not variants or any(v not in variants for v in ("Or", "And", "Mono")):
        rep.add(Obligation(key="compound/mir", verdict=BROKEN, reason="structural_supertype_of not found uniquely in the MIR dump (%d) or enum Type unreadable" % len(mains)))
        return [], (lambda res: None)
    csrc = s.read("crates/erg_compiler/context/compare.rs")
    from common import extract_fn
    rep.add_function("Context::structural_supertype_of (Or / And arms)", "crates/erg_compiler/context/compare.rs", extract_fn(csrc, "structural_supertype_of"))
    vidx = {"Type": variants, "Option": ["None", "Some"]}
    solver = z3.Solver()
    solver.set("timeout", 60000)

    def check(conds):
        solver.push()
        solver.add(*conds)
        r = solver.check()
        solver.pop()
        return str(r)
    used = set()
    pending = []
    for kind, L, R in jobs(tier):
        key = ("compound/sound/%s:>%s" % (shape_name(L), shape_name(R))) if kind == "sound" else "compound/" + kind
        if only and not any(o in key for o in only.split(",")):
            continue
        ob = Obligation(dict(engine="mirsem (MIR -> z3 %s)" % z3.get_version_string(), solver="z3", functions=["Context::structural_supertype_of"],
                             shape="%s :> %s" % (shape_name(L), shape_name(R)),
                             symbolic=["the members (opaque types with an arbitrary denotation)", "the answers of the recursive judgement on members (induction hypothesis)"],
                             bounds={"members": 2 if tier == "quick" else 3}), key=key)
        t0 = time.time()
        try:
            W = {"tw": TWorld([x[1] for x in (L, R) if x[0] == "mono"])}
            flow = S.SemFlow(fns, mains[0], models(W, used), vidx)
            P0 = S.Path()
            P0.pc = list(S.BASE_AXIOMS)
            lref = W["tw"].build(flow, P0, L, "L")
            rref = W["tw"].build(flow, P0, R, "R")
            pre = dict(P0.locals)
            pre.update({"_1": const("ctx"), "_2": lref, "_3": rref})
            outs = flow.run("bb0", stop_at=(), pre=pre, pc=P0.pc)
            npaths, bad = 0, False
            for Q, end in outs:
                if end != "return" or check(Q.pc) != "sat":
                    continue
                rv = Q.locals.get("_0")
                npaths += 1
                tr = S.truth(flow, rv)
                if kind == "sound":
                    if check(Q.pc + [tr, W["tw"].den(flow, Q, rref), z3.Not(W["tw"].den(flow, Q, lref))]) != "unsat":
                        bad = True
                else:
                    if check(Q.pc + [z3.Not(tr)]) != "unsat":
                        bad = True
            ob["queries"] = flow.queries + 2 * npaths
            ob["detail"] = {"paths": npaths}
            if npaths == 0:
                ob.update(verdict=BROKEN, reason="no feasible path (vacuous encoding)")
            elif bad:
                ob.update(verdict=VIOLATED, reason=("the rule that decides %s :> %s can answer true although the right type has a value the left one lacks" % (shape_name(L), shape_name(R)))
                          if kind == "sound" else "the judgement can answer false for %s" % kind[4:])
                pending.append((ob, kind, L, R))
            else:
                ob.update(verdict=HELD, reason=("on all %d paths a true answer implies inclusion, given sound answers on the members" % npaths) if kind == "sound" else
                          "answers true on all %d paths (members are only assumed reflexive)" % npaths)
            ob["solver_s"] = round(time.time() - t0, 2)
        except Unsupported as e:
            ob.update(verdict=INCONCLUSIVE, reason="unsupported-construct: " + str(e)[:200], solver_s=round(time.time() - t0, 2))
        rep.add(ob)
    rep.assumptions += sorted(used) + ["compound stage: a type denotes a set of values; Or = union, And = intersection; Not, Refinement, Poly, Subr, Structural and quantified types are outside"]
    cases = []
    plans = []
    for i, (ob, kind, L, R) in enumerate(pending):
        names = sorted(set(leaf_names(L) + leaf_names(R)))
        plan = []
        for combo in itertools.product(CATALOGUE, repeat=len(names)):
            assign = dict(zip(names, combo))
            if kind != "sound" and len(set(combo)) < len(combo):
                continue
            cid = "c.%d.%d" % (i, len(plan))
            plan.append((cid, assign))
            cases.append((cid, "format!(\"{}\", ssup(&%s, &%s))" % (rust_type(L, assign), rust_type(R, assign))))
            if len(plan) >= 130:
                break
        plans.append(plan)
    # translation validation: the laws on concrete classes (must agree with the encoding's verdict when it is HELD: the real function answers true)
    tvc = []
    for n, (k, L, R) in enumerate([j for j in jobs(tier) if j[0] != "sound"][:8]):
        assign = {"T": "Int", "U": "Str", "X": "NoneType"}
        tvc.append(("tvc.%d" % n, k, "format!(\"{}\", ssup(&%s, &%s))" % (rust_type(L, assign), rust_type(R, assign))))
    cases += [(cid, e) for cid, k, e in tvc]

    def finish(res):
        byk = {o["key"]: o for o in rep.obls}
        tbad = []
        for cid, k, e in tvc:
            ob = byk.get("compound/" + k)
            if ob is not None and ob["verdict"] == HELD and res.get(cid) != "true":
                tbad.append("%s with T = Int, U = Str: the real function answers %s" % (k, res.get(cid)))
            rep.replayed += 1
        rep.add(Obligation(dict(engine="mirsem vs native", functions=["Context::structural_supertype_of"]), key="compound/translation", nontrivial=False,
                           verdict=BROKEN if tbad else HELD,
                           reason=("a law the encoding proves is not what the real function answers: " + " | ".join(tbad[:3])) if tbad else
                           "the laws decided symbolically are answered true by the real structural_supertype_of on Int / Str / NoneType (%d cases)" % len(tvc)))
        for i, (ob, kind, L, R) in enumerate(pending):
            hit = None
            for cid, assign in plans[i]:
                got = res.get(cid)
                rep.replayed += 1
                if kind == "sound":
                    if got == "true" and not ref_set(R, assign) <= ref_set(L, assign):
                        hit = (assign, got)
                        break
                elif got == "false":
                    hit = (assign, got)
                    break
            if hit:
                ob["native_replay"] = {"instance": hit[0], "structural_supertype_of": hit[1], "call": "%s :> %s" % (rust_type(L, hit[0]), rust_type(R, hit[0]))}
                ob["reason"] += " — e.g. %s :> %s answers %s" % (rust_type(L, hit[0]).replace("Type::", ""), rust_type(R, hit[0]).replace("Type::", ""), hit[1])
            else:
                ob["verdict"] = INCONCLUSIVE
                ob["reason"] = "no instance over %s reproduces it on the real function (%s)" % (CATALOGUE, ob["reason"])
    return cases, finish
