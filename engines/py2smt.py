"""E3 `py2smt`: a small symbolic interpreter for the Python runtime shipped with the compiler
(crates/erg_compiler/lib/core/_erg_{int,nat,float,bool,control,result,type}.py and the MessageStream class of
src/scripts/repl_server.py).

The *real source text* is parsed with `ast` on every run; classes, methods and functions are executed on symbolic
values: an instance of an int subclass is (class name, z3 Int term) — Python ints are unbounded, so mathematical
integers are the exact model —, an instance of a float subclass is (class name, z3 FP(11,53) term), instances of the
`*Mut` wrappers and of `Error` are objects with an attribute dict.  Branches on symbolic conditions fork (depth-first
by re-execution with a decision prefix); each finished path yields (path condition, outcome) where outcome is a value
or a raised exception.  Python's operator protocol (binary-operator dispatch with reflected methods and the
subclass-priority rule, comparison reflection, `__getattr__` fallback, `super()`, `int.__new__`/`__init__`) is
implemented as Python defines it; the primitive methods of `int` and `float` are the SMT operations.

Anything outside the subset raises Unsupported, which makes the obligation inconclusive (never held)."""
import ast
import itertools

import z3

FP = z3.Float64()
RNE = z3.RNE()


class Unsupported(Exception):
    pass


class PyRaise(Exception):
    def __init__(self, cls, msg=""):
        self.cls = cls
        self.msg = msg


class PathAbort(Exception):
    """raised to cut a path whose condition became unsatisfiable"""


# ----------------------------------------------------------------------------- values
class V:
    pass


class VInt(V):
    def __init__(self, cls, t):
        self.cls, self.t = cls, t

    def __repr__(self):
        return "VInt(%s,%s)" % (self.cls, self.t)


class VBool(VInt):
    """a Python bool; `c` is the z3 Bool"""
    def __init__(self, c):
        c = z3.BoolVal(c) if isinstance(c, bool) else c
        self.c = c
        VInt.__init__(self, "bool", z3.If(c, z3.IntVal(1), z3.IntVal(0)))


class VFloat(V):
    def __init__(self, cls, t):
        self.cls, self.t = cls, t

    def __repr__(self):
        return "VFloat(%s,%s)" % (self.cls, self.t)


class VObj(V):
    def __init__(self, cls):
        self.cls = cls
        self.attrs = {}

    def __repr__(self):
        return "VObj(%s,%s)" % (self.cls, self.attrs)


class VStr(V):
    cls = "str"

    def __init__(self, s="?", length=None):
        self.s = s
        self.length = length      # z3 Int (number of characters), or None when concrete


class VBytes(V):
    """bytes as a list of segments: ('int', term, width, signed) | ('opaque', tag, length term)"""
    cls = "bytes"

    def __init__(self, segs):
        self.segs = list(segs)

    def length(self):
        tot = z3.IntVal(0)
        for s in self.segs:
            tot = tot + (z3.IntVal(s[2]) if s[0] == "int" else s[2])
        return z3.simplify(tot)


class VNoneT(V):
    cls = "NoneType"

    def __repr__(self):
        return "None"


class VNotImplT(V):
    cls = "NotImplementedType"

    def __repr__(self):
        return "NotImplemented"


VNone = VNoneT()
VNotImpl = VNotImplT()


class VClass(V):
    cls = "type"

    def __init__(self, name):
        self.name = name


class VFunc(V):
    cls = "function"

    def __init__(self, node, owner, module):
        self.node, self.owner, self.module = node, owner, module


class VBound(V):
    cls = "method"

    def __init__(self, fn, selfv):
        self.fn, self.selfv = fn, selfv


class VPrim(V):
    """a primitive method of a builtin type: prim(interp, args) -> V"""
    cls = "builtin"

    def __init__(self, name, fn, owner=None):
        self.name, self.fn, self.owner = name, fn, owner


class VOpaqueFn(V):
    """a caller-supplied function: returns whatever `make(args)` builds (typically a fresh unconstrained value)"""
    cls = "function"

    def __init__(self, make):
        self.make = make


class VModule(V):
    cls = "module"

    def __init__(self, name):
        self.name = name


class VSuper(V):
    cls = "super"

    def __init__(self, after, selfv):
        self.after, self.selfv = after, selfv


BUILTIN_BASES = {"object": [], "int": ["object"], "bool": ["int"], "float": ["object"], "str": ["object"],
                 "bytes": ["object"], "NoneType": ["object"], "NotImplementedType": ["object"],
                 "Exception": ["object"], "ValueError": ["Exception"], "TypeError": ["Exception"],
                 "ZeroDivisionError": ["Exception"], "OverflowError": ["Exception"], "AttributeError": ["Exception"],
                 "ConnectionResetError": ["Exception"], "struct.error": ["Exception"], "bytearray": ["object"], "socket": ["object"]}


def fp_of_int_uf():
    return z3.Function("py_int_to_float", z3.IntSort(), FP)


I2F = fp_of_int_uf()
FPOW = z3.Function("py_float_pow", FP, FP, FP)
FFLOORDIV = z3.Function("py_float_floordiv", FP, FP, FP)
FMOD = z3.Function("py_float_mod", FP, FP, FP)
IPOW = z3.Function("py_int_pow", z3.IntSort(), z3.IntSort(), z3.IntSort())
F2I = z3.Function("py_float_trunc", FP, z3.IntSort())
UTF8LEN = z3.Function("utf8_len", z3.IntSort(), z3.IntSort())   # of an opaque string tag


def floordiv(a, b):
    # Python floor division on integers; z3's `/` on Int is Euclidean (remainder >= 0)
    return z3.If(b > 0, a / b, (-a) / (-b))


def pymod(a, b):
    return a - b * floordiv(a, b)


class Interp:
    def __init__(self, sources, solver_timeout_ms=20000):
        """sources: {module name: text}"""
        self.classes = {}      # name -> {"bases": [...], "methods": {name: VFunc}, "attrs": {name: ast expr}, "module": m}
        self.funcs = {}        # name -> VFunc
        self.consts = {}
        for m, text in sources.items():
            tree = ast.parse(text)
            for node in tree.body:
                if isinstance(node, ast.ClassDef):
                    bases = []
                    for b in node.bases:
                        if isinstance(b, ast.Name):
                            bases.append(b.id)
                        else:
                            raise Unsupported("base expression")
                    c = {"bases": bases or ["object"], "methods": {}, "attrs": {}, "module": m}
                    for it in node.body:
                        if isinstance(it, ast.FunctionDef):
                            c["methods"][it.name] = VFunc(it, node.name, m)
                        elif isinstance(it, ast.Assign) and len(it.targets) == 1 and isinstance(it.targets[0], ast.Name):
                            c["attrs"][it.targets[0].id] = it.value
                    self.classes[node.name] = c
                elif isinstance(node, ast.FunctionDef):
                    self.funcs[node.name] = VFunc(node, None, m)
        self.solver = z3.Solver()
        self.solver.set("timeout", solver_timeout_ms)
        self.queries = 0
        self.solver_s = 0.0
        self.pc = []
        self.decisions = []
        self.prefix = []
        self.pos = 0
        self.base = []
        self.steps = 0
        self.fresh = itertools.count()
        self.base_extra = []
        self.effects = []

    # ------------------------------------------------------------------ class model
    def mro(self, cls):
        # single inheritance everywhere in the runtime
        out = [cls]
        while True:
            if cls in self.classes:
                bs = self.classes[cls]["bases"]
            elif cls in BUILTIN_BASES:
                bs = BUILTIN_BASES[cls]
            else:
                raise Unsupported("unknown class " + cls)
            if not bs:
                return out
            if len(bs) > 1:
                raise Unsupported("multiple inheritance")
            cls = bs[0]
            out.append(cls)

    def issub(self, a, b):
        return b in self.mro(a)

    def type_lookup(self, cls, name, after=None):
        """method lookup on the type (no instance dict, no __getattr__) -> (defining class, callable) or None"""
        m = self.mro(cls)
        if after is not None:
            m = m[m.index(after) + 1:]
        for c in m:
            if c in self.classes:
                if name in self.classes[c]["methods"]:
                    return c, self.classes[c]["methods"][name]
            else:
                p = PRIMS.get((c, name))
                if p is not None:
                    return c, VPrim(name, p, c)
        return None

    # ------------------------------------------------------------------ solver / forking
    def check(self, extra):
        import time
        t0 = time.time()
        self.solver.push()
        for c in self.base + self.pc + list(extra):
            self.solver.add(c)
        r = self.solver.check()
        m = self.solver.model() if r == z3.sat else None
        self.solver.pop()
        self.queries += 1
        self.solver_s += time.time() - t0
        return str(r), m

    def branch(self, cond):
        """decide a symbolic condition on this path"""
        if isinstance(cond, bool):
            return cond
        cond = z3.simplify(cond)
        if z3.is_true(cond):
            return True
        if z3.is_false(cond):
            return False
        if self.pos < len(self.prefix):
            d = self.prefix[self.pos]
        else:
            rt, _ = self.check([cond])
            rf, _ = self.check([z3.Not(cond)])
            if rt == "unknown" or rf == "unknown":
                raise Unsupported("solver unknown on a branch condition")
            if rt == "sat" and rf == "sat":
                d = True
                self.alternatives.append(self.decisions[:] + [False])
            elif rt == "sat":
                d = True
            elif rf == "sat":
                d = False
            else:
                raise PathAbort()
        self.pos += 1
        self.decisions.append(d)
        self.pc.append(cond if d else z3.Not(cond))
        return d

    def explore(self, thunk, base):
        """run thunk() on every feasible path; returns [(pc, ('value', V) | ('raise', PyRaise), effects)]"""
        self.base = list(base)
        self.alternatives = [[]]
        out = []
        while self.alternatives:
            self.prefix = self.alternatives.pop()
            self.pos = 0
            self.pc = []
            self.decisions = []
            self.effects = []
            self.steps = 0
            try:
                v = thunk()
                out.append((list(self.pc), ("value", v), list(self.effects)))
            except PyRaise as e:
                out.append((list(self.pc), ("raise", e), list(self.effects)))
            except PathAbort:
                pass
            if len(out) > 200:
                raise Unsupported("too many paths")
        return out

    # ------------------------------------------------------------------ helpers
    def truth(self, v):
        if isinstance(v, VBool):
            return self.branch(v.c)
        if isinstance(v, VInt):
            return self.branch(v.t != 0)
        if isinstance(v, VFloat):
            return self.branch(z3.Not(z3.fpIsZero(v.t)))
        if v is VNone:
            return False
        if isinstance(v, VStr):
            if v.length is not None:
                return self.branch(v.length > 0)
            return len(v.s) > 0
        if isinstance(v, VBytes):
            return self.branch(v.length() > 0)
        if isinstance(v, VObj):
            r = self.type_lookup(v.cls, "__bool__")
            if r:
                return self.truth(self.call(r[1], [v]))
            return True
        if isinstance(v, (VClass, VFunc, VBound, VPrim)):
            return True
        raise Unsupported("truth of %r" % (v,))

    def clsname(self, v):
        return v.cls

    def isinstance_(self, v, c):
        if isinstance(c, VClass):
            return self.issub(self.clsname(v), c.name)
        raise Unsupported("isinstance classinfo")

    def new_int(self, cls, t):
        return VInt(cls, t)

    # ------------------------------------------------------------------ calls
    def call(self, f, args, kwargs=None):
        kwargs = kwargs or {}
        self.steps += 1
        if self.steps > 4000:
            raise Unsupported("step limit")
        if isinstance(f, VBound):
            return self.call(f.fn, [f.selfv] + list(args), kwargs)
        if isinstance(f, VPrim):
            return f.fn(self, list(args))
        if isinstance(f, VOpaqueFn):
            return f.make(list(args))
        if isinstance(f, VFunc):
            return self.call_func(f, args, kwargs)
        if isinstance(f, VClass):
            return self.construct(f.name, args)
        raise Unsupported("call of %r" % (f,))

    def call_func(self, f, args, kwargs):
        node = f.node
        a = node.args
        if a.vararg or a.kwarg or a.kwonlyargs:
            raise Unsupported("varargs")
        names = [x.arg for x in a.args]
        env = {}
        if len(args) > len(names):
            raise PyRaise("TypeError", "too many positional arguments")
        for n, v in zip(names, args):
            env[n] = v
        ndef = len(a.defaults)
        for i, n in enumerate(names):
            if n in env:
                continue
            if n in kwargs:
                env[n] = kwargs[n]
                continue
            j = i - (len(names) - ndef)
            if j >= 0:
                env[n] = self.eval(a.defaults[j], {}, f)
            else:
                raise PyRaise("TypeError", "missing argument " + n)
        try:
            self.exec_block(node.body, env, f)
        except _Return as r:
            return r.v
        return VNone

    def construct(self, cls, args):
        m = self.mro(cls)
        if "int" in m:
            if len(args) != 1:
                raise Unsupported("int() arity")
            t = self.to_int_term(args[0])
            obj = VBool(t != 0) if cls == "bool" else VInt(cls, t)
            init = self.type_lookup(cls, "__init__")
            if init and init[0] in self.classes:
                self.call(init[1], [obj] + list(args))
            return obj
        if "float" in m:
            if len(args) != 1:
                raise Unsupported("float() arity")
            obj = VFloat(cls, self.to_float_term(args[0]))
            init = self.type_lookup(cls, "__init__")
            if init and init[0] in self.classes:
                self.call(init[1], [obj] + list(args))
            return obj
        if cls in self.classes:
            obj = VObj(cls)
            init = self.type_lookup(cls, "__init__")
            if init and init[0] in self.classes:
                self.call(init[1], [obj] + list(args))
            elif args:
                raise PyRaise("TypeError", cls + "() takes no arguments")
            return obj
        if cls in ("ValueError", "TypeError", "ConnectionResetError", "Exception"):
            o = VObj(cls)
            return o
        if cls == "bytearray":
            o = VObj("bytearray")
            o.attrs["_b"] = VBytes(args[0].segs if args else [])
            return o
        raise Unsupported("construct " + cls)

    def to_int_term(self, v):
        """int(v)"""
        if isinstance(v, VInt):
            return v.t
        if isinstance(v, VFloat):
            # int(float): truncation; ValueError on NaN, OverflowError on inf
            if self.branch(z3.fpIsNaN(v.t)):
                raise PyRaise("ValueError", "cannot convert float NaN to integer")
            if self.branch(z3.fpIsInf(v.t)):
                raise PyRaise("OverflowError", "cannot convert float infinity to integer")
            return F2I(v.t)
        if isinstance(v, VObj):
            r = self.type_lookup(v.cls, "__int__")
            if r:
                x = self.call(r[1], [v])
                if not isinstance(x, VInt):
                    raise PyRaise("TypeError", "__int__ returned non-int")
                return x.t
            raise PyRaise("TypeError", "int() argument must be a string, a bytes-like object or a real number")
        raise Unsupported("int(%r)" % (v,))

    def to_float_term(self, v):
        if isinstance(v, VFloat):
            return v.t
        if isinstance(v, VInt):
            return I2F(v.t)
        if isinstance(v, VObj):
            r = self.type_lookup(v.cls, "__float__")
            if r:
                x = self.call(r[1], [v])
                if not isinstance(x, VFloat):
                    raise PyRaise("TypeError", "__float__ returned non-float")
                return x.t
            raise PyRaise("TypeError", "float() argument must be a string or a real number")
        raise Unsupported("float(%r)" % (v,))

    # ------------------------------------------------------------------ attribute access
    def getattr_(self, v, name):
        if isinstance(v, VModule):
            if name in MODULES[v.name]:
                return VPrim(v.name + "." + name, MODULES[v.name][name])
            raise Unsupported("%s.%s" % (v.name, name))
        if isinstance(v, VSuper):
            r = self.type_lookup(self.clsname(v.selfv), name, after=v.after)
            if not r:
                raise PyRaise("AttributeError", "super object has no attribute " + name)
            return VBound(r[1], v.selfv)
        if isinstance(v, VClass):
            r = self.type_lookup(v.name, name)
            if r:
                return r[1]
            if v.name in self.classes and name in self.classes[v.name]["attrs"]:
                return self.eval(self.classes[v.name]["attrs"][name], {}, None)
            raise PyRaise("AttributeError", "type object %s has no attribute %s" % (v.name, name))
        if isinstance(v, VObj) and name in v.attrs:
            return v.attrs[name]
        cls = self.clsname(v)
        r = self.type_lookup(cls, name)
        if r:
            return VBound(r[1], v)
        for c in self.mro(cls):
            if c in self.classes and name in self.classes[c]["attrs"]:
                return self.eval(self.classes[c]["attrs"][name], {}, None)
        ga = self.type_lookup(cls, "__getattr__")
        if ga and ga[0] in self.classes:
            return self.call(ga[1], [v, VStr(name)])
        raise PyRaise("AttributeError", "'%s' object has no attribute '%s'" % (cls, name))

    # ------------------------------------------------------------------ operators (Python data model)
    BIN = {ast.Add: "add", ast.Sub: "sub", ast.Mult: "mul", ast.FloorDiv: "floordiv", ast.Div: "truediv",
           ast.Mod: "mod", ast.Pow: "pow"}

    def binop(self, a, b, op):
        ln, rn = "__%s__" % op, "__r%s__" % op
        ta, tb = self.clsname(a), self.clsname(b)
        l = self.type_lookup(ta, ln)
        r = self.type_lookup(tb, rn) if tb != ta else None
        tried_r = False
        if r and tb != ta and self.issub(tb, ta):
            ra = self.type_lookup(ta, rn)
            if ra is None or ra[0] != r[0]:       # the subclass provides a different reflected method
                tried_r = True
                x = self.call(r[1], [b, a])
                if x is not VNotImpl:
                    return x
        if l:
            x = self.call(l[1], [a, b])
            if x is not VNotImpl:
                return x
        if r and not tried_r:
            x = self.call(r[1], [b, a])
            if x is not VNotImpl:
                return x
        raise PyRaise("TypeError", "unsupported operand type(s) for %s: '%s' and '%s'" % (op, ta, tb))

    CMP = {ast.Eq: ("eq", "eq"), ast.NotEq: ("ne", "ne"), ast.Lt: ("lt", "gt"), ast.Gt: ("gt", "lt"),
           ast.LtE: ("le", "ge"), ast.GtE: ("ge", "le")}

    def compare(self, a, b, op):
        ln, rn = ("__%s__" % x for x in self.CMP[op])
        ta, tb = self.clsname(a), self.clsname(b)
        l = self.type_lookup(ta, ln)
        r = self.type_lookup(tb, rn)
        order = [(l, a, b), (r, b, a)]
        if tb != ta and self.issub(tb, ta) and r and (not l or l[0] != r[0] or ln != rn):
            if r[0] != "object" and (l is None or r[0] != l[0]):
                order = [(r, b, a), (l, a, b)]
        for m, x, y in order:
            if m and m[0] != "object":
                v = self.call(m[1], [x, y])
                if v is not VNotImpl:
                    return v
        if op is ast.Eq:
            return VBool(a is b)
        if op is ast.NotEq:
            return VBool(a is not b)
        raise PyRaise("TypeError", "'%s' not supported between instances of '%s' and '%s'" % (ln, ta, tb))

    def unary(self, a, op):
        n = {ast.USub: "__neg__", ast.UAdd: "__pos__", ast.Invert: "__invert__"}[op]
        r = self.type_lookup(self.clsname(a), n)
        if not r:
            raise PyRaise("TypeError", "bad operand type for unary %s: '%s'" % (n, self.clsname(a)))
        return self.call(r[1], [a])

    # ------------------------------------------------------------------ statements / expressions
    def exec_block(self, body, env, f):
        for st in body:
            self.exec_stmt(st, env, f)

    def exec_stmt(self, st, env, f):
        self.steps += 1
        if isinstance(st, ast.Return):
            raise _Return(self.eval(st.value, env, f) if st.value else VNone)
        if isinstance(st, ast.If):
            if self.truth(self.eval(st.test, env, f)):
                self.exec_block(st.body, env, f)
            else:
                self.exec_block(st.orelse, env, f)
            return
        if isinstance(st, ast.Raise):
            e = self.eval(st.exc, env, f)
            if isinstance(e, VClass):
                raise PyRaise(e.name)
            raise PyRaise(e.cls)
        if isinstance(st, ast.Assign):
            v = self.eval(st.value, env, f)
            for t in st.targets:
                self.assign(t, v, env, f)
            return
        if isinstance(st, ast.AugAssign):
            cur = self.eval(st.target, env, f)
            op = self.BIN[type(st.op)]
            # in-place method first (bytearray.extend-like types do not occur here)
            v = self.binop(cur, self.eval(st.value, env, f), op)
            self.assign(st.target, v, env, f)
            return
        if isinstance(st, ast.Expr):
            self.eval(st.value, env, f)
            return
        if isinstance(st, ast.Pass):
            return
        if isinstance(st, ast.While):
            n = 0
            while self.truth(self.eval(st.test, env, f)):
                n += 1
                if n > self.loop_bound:
                    raise Unsupported("loop bound %d exceeded (unwinding assertion)" % self.loop_bound)
                self.exec_block(st.body, env, f)
            return
        if isinstance(st, ast.AnnAssign) and st.value is None:
            return
        raise Unsupported("statement " + type(st).__name__)

    loop_bound = 8

    def assign(self, t, v, env, f):
        if isinstance(t, ast.Name):
            env[t.id] = v
        elif isinstance(t, ast.Attribute):
            o = self.eval(t.value, env, f)
            if not isinstance(o, VObj):
                raise Unsupported("attribute assignment on non-object")
            o.attrs[t.attr] = v
        else:
            raise Unsupported("assignment target")

    def eval(self, e, env, f):
        self.steps += 1
        if isinstance(e, ast.Constant):
            c = e.value
            if c is None:
                return VNone
            if isinstance(c, bool):
                return VBool(c)
            if isinstance(c, int):
                return VInt("int", z3.IntVal(c))
            if isinstance(c, float):
                return VFloat("float", z3.FPVal(c, FP))
            if isinstance(c, str):
                return VStr(c)
            if isinstance(c, bytes):
                return VBytes([("int", z3.IntVal(x), 1, False) for x in c])
            raise Unsupported("constant")
        if isinstance(e, ast.Name):
            n = e.id
            if n in env:
                return env[n]
            if n in self.funcs:
                return self.funcs[n]
            if n in self.classes or n in BUILTIN_BASES:
                return VClass(n)
            if n == "NotImplemented":
                return VNotImpl
            if n in GLOBAL_PRIMS:
                return VPrim(n, GLOBAL_PRIMS[n])
            if n in MODULES:
                return VModule(n)
            raise Unsupported("name " + n)
        if isinstance(e, ast.Attribute):
            return self.getattr_(self.eval(e.value, env, f), e.attr)
        if isinstance(e, ast.Call):
            if isinstance(e.func, ast.Name) and e.func.id == "super" and not e.args:
                return VSuper(f.owner, env[f.node.args.args[0].arg])
            if isinstance(e.func, ast.Name) and e.func.id == "isinstance" and "isinstance" not in env:
                args = [self.eval(a, env, f) for a in e.args]
                return VBool(self.isinstance_(args[0], args[1]))
            fn = self.eval(e.func, env, f)
            args = [self.eval(a, env, f) for a in e.args]
            kw = {k.arg: self.eval(k.value, env, f) for k in e.keywords}
            return self.call(fn, args, kw)
        if isinstance(e, ast.BinOp):
            return self.binop(self.eval(e.left, env, f), self.eval(e.right, env, f), self.BIN[type(e.op)])
        if isinstance(e, ast.UnaryOp):
            if isinstance(e.op, ast.Not):
                return VBool(not self.truth(self.eval(e.operand, env, f)))
            return self.unary(self.eval(e.operand, env, f), type(e.op))
        if isinstance(e, ast.Compare):
            left = self.eval(e.left, env, f)
            res = None
            for op, rt in zip(e.ops, e.comparators):
                right = self.eval(rt, env, f)
                if isinstance(op, ast.Is):
                    v = VBool(left is right)
                elif isinstance(op, ast.IsNot):
                    v = VBool(left is not right)
                else:
                    v = self.compare(left, right, type(op))
                if len(e.ops) == 1:
                    return v
                if not self.truth(v):
                    return v
                res = v
                left = right
            return res
        if isinstance(e, ast.BoolOp):
            v = None
            for x in e.values:
                v = self.eval(x, env, f)
                t = self.truth(v)
                if isinstance(e.op, ast.Or) and t:
                    return v
                if isinstance(e.op, ast.And) and not t:
                    return v
            return v
        if isinstance(e, ast.IfExp):
            return self.eval(e.body if self.truth(self.eval(e.test, env, f)) else e.orelse, env, f)
        if isinstance(e, ast.Subscript):
            o = self.eval(e.value, env, f)
            return self.subscript(o, e.slice, env, f)
        if isinstance(e, ast.Tuple):
            return VTuple([self.eval(x, env, f) for x in e.elts])
        if isinstance(e, ast.JoinedStr):
            return VStr("?")
        raise Unsupported("expression " + type(e).__name__)

    def subscript(self, o, sl, env, f):
        if isinstance(o, VObj) and o.cls == "bytearray" and isinstance(sl, ast.Slice):
            lo = self.eval(sl.lower, env, f) if sl.lower else None
            hi = self.eval(sl.upper, env, f) if sl.upper else None
            return VBytes(slice_segs(self, o.attrs["_b"].segs, lo, hi))
        raise Unsupported("subscript")


class VTuple(V):
    cls = "tuple"

    def __init__(self, items):
        self.items = items


class _Return(Exception):
    def __init__(self, v):
        self.v = v


def slice_segs(I, segs, lo, hi):
    """slice of a segment list at *concrete* byte offsets (the header layout is concrete)"""
    def conc(v, default):
        if v is None:
            return default
        t = z3.simplify(v.t)
        if not z3.is_int_value(t):
            raise Unsupported("symbolic slice bound")
        return t.as_long()
    a = conc(lo, 0)
    b = conc(hi, None)
    out = []
    pos = 0
    for s in segs:
        if s[0] == "int":
            w = s[2]
            if (b is None or pos < b) and pos + w > a:
                if pos >= a and (b is None or pos + w <= b):
                    out.append(s)
                else:
                    # split an int segment into bytes (big-endian)
                    for k in range(w):
                        p = pos + k
                        if p >= a and (b is None or p < b):
                            sh = 8 * (w - 1 - k)
                            out.append(("int", (s[1] / (2 ** sh)) % 256, 1, False))
            pos += w
        else:
            # opaque segment: only allowed entirely inside or entirely outside, and only as the open-ended tail
            if b is None and pos >= a:
                out.append(s)
            elif b is not None and pos >= b:
                pass
            else:
                raise Unsupported("slice through an opaque segment")
            pos = None if True else pos
            if b is None:
                continue
            break
    return out


# ----------------------------------------------------------------------------- primitives of int / float / object
def _num(I, v):
    return v


def _is_intlike(v):
    return isinstance(v, VInt)


def _is_floatlike(v):
    return isinstance(v, VFloat)


def int_bin(name):
    def prim(I, args):
        a, b = args
        if not _is_intlike(a):
            raise PyRaise("TypeError", "descriptor requires an int")
        if not _is_intlike(b):
            return VNotImpl
        x, y = a.t, b.t
        if name == "add":
            return VInt("int", x + y)
        if name == "sub":
            return VInt("int", x - y)
        if name == "mul":
            return VInt("int", x * y)
        if name in ("floordiv", "mod", "truediv"):
            if I.branch(y == 0):
                raise PyRaise("ZeroDivisionError", "division by zero")
            if name == "floordiv":
                return VInt("int", floordiv(x, y))
            if name == "mod":
                return VInt("int", pymod(x, y))
            return VFloat("float", z3.Function("py_int_truediv", z3.IntSort(), z3.IntSort(), FP)(x, y))
        if name == "pow":
            if I.branch(y < 0):
                if I.branch(x == 0):
                    raise PyRaise("ZeroDivisionError", "0 cannot be raised to a negative power")
                return VFloat("float", FPOW(I2F(x), I2F(y)))
            return VInt("int", IPOW(x, y))
        raise Unsupported(name)
    return prim


def int_rbin(name):
    f = int_bin(name)

    def prim(I, args):
        a, b = args
        if not _is_intlike(b):
            return VNotImpl
        return f(I, [VInt("int", b.t), a])
    return prim


def int_cmp(name):
    def prim(I, args):
        a, b = args
        if not _is_intlike(b):
            if _is_floatlike(b):
                return VNotImpl
            return VNotImpl
        x, y = a.t, b.t
        return VBool({"eq": x == y, "ne": x != y, "lt": x < y, "le": x <= y, "gt": x > y, "ge": x >= y}[name])
    return prim


def float_operand(I, v):
    if _is_floatlike(v):
        return v.t
    if _is_intlike(v):
        return I2F(v.t)
    return None


def float_bin(name, reflected=False):
    def prim(I, args):
        a, b = args
        if not _is_floatlike(a):
            raise PyRaise("TypeError", "descriptor requires a float")
        y = float_operand(I, b)
        if y is None:
            return VNotImpl
        x = a.t
        if reflected:
            x, y = y, x
        if name == "add":
            return VFloat("float", z3.fpAdd(RNE, x, y))
        if name == "sub":
            return VFloat("float", z3.fpSub(RNE, x, y))
        if name == "mul":
            return VFloat("float", z3.fpMul(RNE, x, y))
        if name in ("truediv", "floordiv", "mod"):
            if I.branch(z3.fpIsZero(y)):
                raise PyRaise("ZeroDivisionError", "float division by zero")
            if name == "truediv":
                return VFloat("float", z3.fpDiv(RNE, x, y))
            if name == "floordiv":
                return VFloat("float", FFLOORDIV(x, y))
            return VFloat("float", FMOD(x, y))
        if name == "pow":
            return VFloat("float", FPOW(x, y))
        raise Unsupported(name)
    return prim


def float_cmp(name):
    def prim(I, args):
        a, b = args
        if _is_floatlike(b):
            y = b.t
        elif _is_intlike(b):
            # exact int/float comparison; modelled through the conversion (stated assumption: |int| <= 2^53)
            y = I2F(b.t)
        else:
            return VNotImpl
        x = a.t
        return VBool({"eq": z3.fpEQ(x, y), "ne": z3.Not(z3.fpEQ(x, y)), "lt": z3.fpLT(x, y), "le": z3.fpLEQ(x, y),
                      "gt": z3.fpGT(x, y), "ge": z3.fpGEQ(x, y)}[name])
    return prim


PRIMS = {}
for _n in ("add", "sub", "mul", "floordiv", "truediv", "mod", "pow"):
    PRIMS[("int", "__%s__" % _n)] = int_bin(_n)
    PRIMS[("int", "__r%s__" % _n)] = int_rbin(_n)
    PRIMS[("float", "__%s__" % _n)] = float_bin(_n)
    PRIMS[("float", "__r%s__" % _n)] = float_bin(_n, reflected=True)
for _n in ("eq", "ne", "lt", "le", "gt", "ge"):
    PRIMS[("int", "__%s__" % _n)] = int_cmp(_n)
    PRIMS[("float", "__%s__" % _n)] = float_cmp(_n)
PRIMS[("int", "__neg__")] = lambda I, a: VInt("int", -a[0].t)
PRIMS[("int", "__pos__")] = lambda I, a: VInt("int", a[0].t)
PRIMS[("int", "__abs__")] = lambda I, a: VInt("int", z3.If(a[0].t >= 0, a[0].t, -a[0].t))
PRIMS[("int", "__int__")] = lambda I, a: VInt("int", a[0].t)
PRIMS[("int", "__float__")] = lambda I, a: VFloat("float", I2F(a[0].t))
PRIMS[("int", "__bool__")] = lambda I, a: VBool(a[0].t != 0)
PRIMS[("int", "__hash__")] = lambda I, a: VInt("int", z3.Function("py_hash_int", z3.IntSort(), z3.IntSort())(a[0].t))
PRIMS[("int", "__repr__")] = lambda I, a: VStr("?")
PRIMS[("float", "__neg__")] = lambda I, a: VFloat("float", z3.fpNeg(a[0].t))
PRIMS[("float", "__pos__")] = lambda I, a: VFloat("float", a[0].t)
PRIMS[("float", "__abs__")] = lambda I, a: VFloat("float", z3.fpAbs(a[0].t))
PRIMS[("float", "__float__")] = lambda I, a: VFloat("float", a[0].t)
PRIMS[("float", "__int__")] = lambda I, a: VInt("int", I.to_int_term(a[0]))
PRIMS[("float", "__bool__")] = lambda I, a: VBool(z3.Not(z3.fpIsZero(a[0].t)))
PRIMS[("float", "__repr__")] = lambda I, a: VStr("?")
PRIMS[("float", "__hash__")] = lambda I, a: VInt("int", z3.Function("py_hash_float", FP, z3.IntSort())(a[0].t))
PRIMS[("object", "__init__")] = lambda I, a: VNone
PRIMS[("object", "__eq__")] = lambda I, a: VNotImpl
PRIMS[("object", "__ne__")] = lambda I, a: VNotImpl


def _obj_getattribute(I, args):
    o, name = args
    if not isinstance(name, VStr):
        raise Unsupported("__getattribute__ name")
    if isinstance(o, VObj) and name.s in o.attrs:
        return o.attrs[name.s]
    r = I.type_lookup(I.clsname(o), name.s)
    if r:
        return VBound(r[1], o)
    raise PyRaise("AttributeError", "'%s' object has no attribute '%s'" % (I.clsname(o), name.s))


PRIMS[("object", "__getattribute__")] = _obj_getattribute


def _int_to_bytes(I, args):
    v, n = args[0], args[1]
    w = z3.simplify(n.t)
    if not z3.is_int_value(w):
        raise Unsupported("symbolic width")
    w = w.as_long()
    if I.branch(z3.Or(v.t < 0, v.t >= 2 ** (8 * w))):
        raise PyRaise("OverflowError", "int too big to convert")
    return VBytes([("int", v.t, w, False)])


PRIMS[("int", "to_bytes")] = _int_to_bytes


def _int_from_bytes(I, args):
    b = args[0] if not isinstance(args[0], VClass) else args[1]
    if not isinstance(b, VBytes):
        raise Unsupported("from_bytes arg")
    tot = z3.IntVal(0)
    for s in b.segs:
        if s[0] != "int":
            raise Unsupported("from_bytes over opaque bytes")
        tot = tot * (2 ** (8 * s[2])) + s[1]
    return VInt("int", z3.simplify(tot))


PRIMS[("int", "from_bytes")] = _int_from_bytes


def _str_encode(I, args):
    s = args[0]
    tag = z3.IntVal(abs(hash(("str", id(s)))) % (10 ** 9))
    ln = UTF8LEN(tag) if s.length is not None else z3.IntVal(len(s.s.encode()))
    if s.length is not None:
        I.base_extra.append(z3.And(ln >= s.length, ln <= 4 * s.length))
    return VBytes([("opaque", ("utf8", id(s)), ln)])


PRIMS[("str", "encode")] = _str_encode
PRIMS[("str", "format")] = lambda I, a: VStr("?")


def _bytes_add(I, args):
    a, b = args
    if not isinstance(b, VBytes):
        return VNotImpl
    return VBytes(a.segs + b.segs)


PRIMS[("bytes", "__add__")] = _bytes_add


def _sock_sendall(I, args):
    sock, b = args
    if not isinstance(b, VBytes):
        raise PyRaise("TypeError", "a bytes-like object is required")
    sock.attrs.setdefault("_sent", []).append(b)
    return VNone


PRIMS[("socket", "sendall")] = _sock_sendall
PRIMS[("socket", "send")] = _sock_sendall      # a send() that transfers everything (partial sends are CrossHair's subject)


def g_struct_pack(I, args):
    """struct.pack for the integer codes B b H h I i with an explicit byte order"""
    fmt = args[0]
    if not isinstance(fmt, VStr) or fmt.length is not None:
        raise Unsupported("struct.pack format")
    f = fmt.s
    if not f or f[0] not in "<>!=":
        raise Unsupported("struct.pack without explicit byte order")
    little = f[0] == "<"
    codes = f[1:]
    if len(codes) != len(args) - 1:
        raise PyRaise("struct.error", "pack expected %d items" % len(codes))
    segs = []
    spec = {"B": (1, False), "b": (1, True), "H": (2, False), "h": (2, True), "I": (4, False), "i": (4, True)}
    for c, v in zip(codes, args[1:]):
        if c not in spec or not isinstance(v, VInt):
            raise Unsupported("struct.pack code " + c)
        w, sg = spec[c]
        lo, hi = (-(1 << (8 * w - 1)), (1 << (8 * w - 1)) - 1) if sg else (0, (1 << (8 * w)) - 1)
        if I.branch(z3.Or(v.t < lo, v.t > hi)):
            raise PyRaise("struct.error", "'%s' format requires %d <= number <= %d" % (c, lo, hi))
        val = z3.If(v.t < 0, v.t + (1 << (8 * w)), v.t) if sg else v.t
        if little:
            raise Unsupported("little-endian struct.pack")
        segs.append(("int", val, w, False))
    return VBytes(segs)


def g_int(I, args):
    return VInt("int", I.to_int_term(args[0]))


def g_float(I, args):
    return VFloat("float", I.to_float_term(args[0]))


def g_bool(I, args):
    return VBool(I.truth(args[0]))


def g_abs(I, args):
    r = I.type_lookup(I.clsname(args[0]), "__abs__")
    if not r:
        raise PyRaise("TypeError", "bad operand type for abs()")
    return I.call(r[1], [args[0]])


def g_len(I, args):
    v = args[0]
    if isinstance(v, VBytes):
        return VInt("int", v.length())
    if isinstance(v, VStr):
        return VInt("int", v.length if v.length is not None else z3.IntVal(len(v.s)))
    if isinstance(v, VObj) and v.cls == "bytearray":
        return VInt("int", v.attrs["_b"].length())
    raise Unsupported("len")


def g_hasattr(I, args):
    try:
        I.getattr_(args[0], args[1].s)
        return VBool(True)
    except PyRaise:
        return VBool(False)


GLOBAL_PRIMS = {"int": None, "float": None}
GLOBAL_PRIMS = {"abs": g_abs, "len": g_len, "hasattr": g_hasattr}
MODULES = {"struct": {"pack": g_struct_pack}}
