"""C28 — the language server's document copy matches the client's.

Engine: Kani/CBMC over the real `els` crate (source overlay on crates/els/util.rs).
Kernel: `util::pos_to_byte_index` — the only computation in `FileCache::incremental_update`'s edit step
(`start = p2b(code, range.start); end = p2b(code, range.end); code.replace_range(start..end, text)`).
The server copy is a function of (previous copy, change); if for every document and every position the
index equals the LSP reference and is a char boundary, `String::replace_range` (std, trusted) performs
the client's edit, and by induction the copies agree after any history.

Shape concrete, scalars symbolic: a shape is the UTF-8 width pattern of the document (A = any ASCII code
point *including* '\\n' and '\\r', 2/3/4 = any code point of that encoded width); every code point of the
class, `Position.line` and `Position.character` (any u32) are solver variables."""
import itertools
import random

import re

from common import (BROKEN, HELD, INCONCLUSIVE, VIOLATED, Obligation, Report, Scratch, extract_fn, log, VERIF as VERIF_DIR)
from kani import Harness, KaniRun, confirm_violations

REF = r"""
    pub fn __w(b: u8) -> usize { if b < 0x80 { 1 } else if b < 0xE0 { 2 } else if b < 0xF0 { 3 } else { 4 } }
    /// LSP 3.17 reference: lines end at '\n'; `character` counts UTF-16 code units; a character offset past the
    /// end of the line means the end of the line; a line past the last line means the end of the text.
    /// Returns (byte index, exact) — exact is false when the position falls inside a surrogate pair (unspecified
    /// by the LSP; only the char-boundary requirement is asserted there).
    pub fn __ref_index(b: &[u8], line: u32, ch: u32) -> (usize, bool) {
        let mut i = 0usize; let mut l = 0u32;
        while l < line {
            while i < b.len() && b[i] != b'\n' { i += 1; }
            if i == b.len() { return (b.len(), true); }
            i += 1; l += 1;
        }
        let mut col = 0u32;
        while i < b.len() && b[i] != b'\n' && col < ch { let w = __w(b[i]); col += if w == 4 { 2 } else { 1 }; i += w; }
        (i, !(col > ch))
    }
"""

CLASS = {"A": 1, "2": 2, "3": 3, "4": 4}


def build_doc(shape, var="buf"):
    n = sum(CLASS[c] for c in shape)
    lines = ["        let mut %s = [0u8; %d];" % (var, max(n, 1))]
    off = 0
    for c in shape:
        w = CLASS[c]
        if w == 1:
            lines.append("        { let c: u8 = kani::any(); kani::assume(c < 0x80); %s[%d] = c; }" % (var, off))
        else:
            lo = {2: 0x80, 3: 0x800, 4: 0x10000}[w]
            hi = {2: 0x7ff, 3: 0xffff, 4: 0x10ffff}[w]
            lines.append("        { let c: u32 = kani::any(); kani::assume(c >= %d && c <= %d && !(c >= 0xD800 && c <= 0xDFFF)); "
                         "let ch = char::from_u32(c).unwrap(); ch.encode_utf8(&mut %s[%d..%d]); }" % (lo, hi, var, off, off + w))
        off += w
    lines.append("        let s: &str = std::str::from_utf8(&%s[..%d]).unwrap();" % (var, n))
    return lines, n


def h_index(shape):
    lines, n = build_doc(shape)
    lines += [
        "        let line: u32 = kani::any(); let chr: u32 = kani::any();",
        "        kani::cover!(true, \"reach\");",
        "        let got = pos_to_byte_index(s, Position::new(line, chr));",
        "        let (want, exact) = __ref_index(s.as_bytes(), line, chr);",
        "        kani::cover!(got == want && want > 0 && want < s.len(), \"reach-inner\");" if len(shape) >= 2 else "",
        "        assert!(got <= s.len(), \"inrange: index <= len\");",
        "        assert!(s.is_char_boundary(got), \"boundary: index is a char boundary (else String::replace_range panics)\");",
        "        assert!(!exact || got == want, \"lsp: index equals the LSP 3.17 reference (UTF-16 columns, clamping)\");",
    ]
    name = "p2b_" + (shape or "empty")
    return Harness(name, "\n".join(l for l in lines if l), "pos_to_byte_index/[%s]" % shape, unwind=n + 3, fmt_stub=True,
                   asserts={"inrange": "index <= len for every position",
                            "boundary": "index is a char boundary for every position",
                            "lsp": "index equals the LSP reference for every position not inside a surrogate pair"},
                   covers=["reach"] + (["reach-inner"] if len(shape) >= 2 else []),
                   meta=dict(shape="document width pattern [%s] (%d bytes)" % (shape, n),
                             symbolic=["every code point of each class (A: any ASCII incl. \\n, \\r; 2/3/4: any scalar value of that UTF-8 width)",
                                       "Position.line: u32", "Position.character: u32"],
                             bounds={"document_chars": len(shape)}, cost=n))


def h_mono(shape):
    """start <= end whenever range.start <= range.end (the other precondition of replace_range)."""
    lines, n = build_doc(shape)
    lines += [
        "        let l1: u32 = kani::any(); let c1: u32 = kani::any(); let l2: u32 = kani::any(); let c2: u32 = kani::any();",
        "        kani::assume(l1 < l2 || (l1 == l2 && c1 <= c2));",
        "        kani::cover!(true, \"reach\");",
        "        let a = pos_to_byte_index(s, Position::new(l1, c1));",
        "        let b = pos_to_byte_index(s, Position::new(l2, c2));",
        "        kani::cover!(a < b, \"reach-proper\");" if n >= 1 else "",
        "        assert!(a <= b, \"mono: start index <= end index for an ordered range\");",
    ]
    name = "mono_" + (shape or "empty")
    return Harness(name, "\n".join(l for l in lines if l), "edit-range/[%s]" % shape, unwind=n + 3, fmt_stub=True,
                   asserts={"mono": "ordered LSP range gives start <= end (replace_range precondition)"},
                   covers=["reach"] + (["reach-proper"] if n >= 1 else []),
                   meta=dict(shape="document width pattern [%s]" % shape,
                             symbolic=["every code point", "range.start, range.end: 4 x u32 with start <= end"],
                             bounds={"document_chars": len(shape)}, cost=2 * n))


def h_step(shape, ins):
    """The edit step itself on a real String: replace_range(start..end, text) equals the client's edit."""
    lines, n = build_doc(shape)
    lines += [
        "        let l1: u32 = kani::any(); let c1: u32 = kani::any(); let l2: u32 = kani::any(); let c2: u32 = kani::any();",
        "        kani::assume(l1 < l2 || (l1 == l2 && c1 <= c2));",
        "        let (rs, e1) = __ref_index(s.as_bytes(), l1, c1); let (re, e2) = __ref_index(s.as_bytes(), l2, c2);",
        "        kani::assume(e1 && e2);",
        "        let mut code = String::from(s);",
    ]
    if ins:
        lines += ["        let t: u8 = kani::any(); kani::assume(t < 0x80); let tb = [t]; let text: &str = std::str::from_utf8(&tb).unwrap();"]
    else:
        lines += ["        let text: &str = \"\";"]
    lines += [
        "        kani::cover!(true, \"reach\");",
        "        let start = pos_to_byte_index(&code, Position::new(l1, c1));",
        "        let end = pos_to_byte_index(&code, Position::new(l2, c2));",
        "        code.replace_range(start..end, text);",
        "        let got = code.as_bytes(); let src = s.as_bytes(); let tx = text.as_bytes();",
        "        assert!(got.len() == rs + tx.len() + (src.len() - re), \"len: edited length is the client's\");",
        "        let mut i = 0; let mut ok = true;",
        "        while i < got.len() {",
        "            let want = if i < rs { src[i] } else if i < rs + tx.len() { tx[i - rs] } else { src[re + (i - rs - tx.len())] };",
        "            if got[i] != want { ok = false; }",
        "            i += 1;",
        "        }",
        "        assert!(ok, \"bytes: edited text equals prefix + text + suffix of the client's copy\");",
        "        std::mem::forget(code);",
    ]
    name = "step_%s_%s" % (shape or "empty", "ins" if ins else "del")
    return Harness(name, "\n".join(lines), "edit-step/[%s]/%s" % (shape, "insert1" if ins else "delete"), unwind=n + 4, fmt_stub=True,
                   asserts={"len": "length after the edit", "bytes": "content after the edit"}, covers=["reach"],
                   meta=dict(shape="document [%s], replacement text of %d ASCII char" % (shape, 1 if ins else 0),
                             symbolic=["every code point", "range: 4 x u32, ordered, not inside a surrogate pair", "inserted char"],
                             bounds={"document_chars": len(shape), "text_chars": 1 if ins else 0}, cost=4 * n + 4))


QUICK_SHAPES = ["", "A", "2", "3", "4"] + ["".join(p) for p in itertools.product("A234", repeat=2)] + \
    ["AAA", "A4A", "4AA", "AA4", "A2A", "A3A", "2A3", "44A", "A42", "3A4", "AAAA", "A4AA", "AAAAA", "AA4A3"]
QUICK_MONO = ["AA", "A4", "4A", "AAA", "A4A", "A2A"]
QUICK_STEP = []     # the whole-step harnesses (String::replace_range on a real String) need > 300 s each: thorough tier only


def shapes_for(tier, seed):
    if tier == "quick":
        rnd = random.Random(seed)
        extra = []
        pool = ["".join(p) for p in itertools.product("A234", repeat=3)] + ["".join(p) for p in itertools.product("A4", repeat=4)]
        pool = [p for p in pool if p not in QUICK_SHAPES]
        rnd.shuffle(pool)
        extra = pool[:4]
        return QUICK_SHAPES + extra, QUICK_MONO, QUICK_STEP
    idx = [""] + ["".join(p) for k in (1, 2, 3, 4) for p in itertools.product("A234", repeat=k)] + \
          ["AAAAA", "AA4A3", "A2A4A", "4A4A4", "AAAAAA", "A4A2A3"]
    mono = ["".join(p) for k in (1, 2, 3) for p in itertools.product("A24", repeat=k)]
    step = [(s, i) for s in ("A", "AA", "A4", "4A", "A2A", "AAA") for i in (True, False)]
    return idx, mono, step


BATTERY = r'''
//! replay battery for dataflow counterexamples of FileCache::incremental_update (generated by /verif/props/c28.py):
//! concrete LSP histories through the public fake client; the server copy (VFS) is compared with a client-side model.
use std::path::PathBuf;
use els::Server;
use erg_common::vfs::VFS;
use lsp_types::notification::{DidChangeTextDocument, DidOpenTextDocument};
use lsp_types::{DidChangeTextDocumentParams, DidOpenTextDocumentParams, Position, Range, TextDocumentContentChangeEvent,
                TextDocumentItem, Url, VersionedTextDocumentIdentifier};

fn model_index(doc: &str, pos: Position) -> usize {
    let mut off = 0;
    for (ln, line) in doc.split_inclusive('\n').enumerate() {
        if ln as u32 == pos.line {
            let body = line.trim_end_matches('\n');
            let mut units = 0;
            for (i, c) in body.char_indices() {
                if units >= pos.character { return off + i; }
                units += c.len_utf16() as u32;
            }
            return off + body.len();
        }
        off += line.len();
    }
    doc.len()
}
fn ch(sl: u32, sc: u32, el: u32, ec: u32, text: &str, with_len: bool, doc: &str) -> TextDocumentContentChangeEvent {
    let r = Range::new(Position::new(sl, sc), Position::new(el, ec));
    let len = if with_len { let s = model_index(doc, r.start); let e = model_index(doc, r.end); Some(doc[s..e].encode_utf16().count() as u32) } else { None };
    TextDocumentContentChangeEvent { range: Some(r), range_length: len, text: text.to_string() }
}
fn full(text: &str) -> TextDocumentContentChangeEvent { TextDocumentContentChangeEvent { range: None, range_length: None, text: text.to_string() } }
fn apply(doc: &mut String, c: &TextDocumentContentChangeEvent) {
    match c.range { Some(r) => { let s = model_index(doc, r.start); let e = model_index(doc, r.end); doc.replace_range(s..e, &c.text); } None => { *doc = c.text.clone(); } }
}
#[test]
fn battery() -> Result<(), Box<dyn std::error::Error>> {
    let mut client = Server::bind_fake_client();
    client.request_initialize()?;
    client.notify_initialized()?;
    let dir = std::env::temp_dir().join(format!("verif_c28_{}", std::process::id()));
    std::fs::create_dir_all(&dir)?;
    let mut n = 0;
    let mut run = |name: &str, start: &str, notes: &dyn Fn(&str) -> Vec<Vec<TextDocumentContentChangeEvent>>| -> Result<(), Box<dyn std::error::Error>> {
        n += 1;
        let path: PathBuf = dir.join(format!("s{n}.er"));
        std::fs::write(&path, start)?;
        let path = path.canonicalize()?;
        let uri = Url::from_file_path(&path).unwrap();
        let mut doc = start.to_string();
        let mut ver = 1;
        client.notify::<DidOpenTextDocument>(DidOpenTextDocumentParams { text_document: TextDocumentItem::new(uri.clone(), "erg".into(), ver, doc.clone()) })?;
        let mut ok = VFS.read(&path)? == doc;
        // the notifications are computed against the evolving client document
        let mut i = 0;
        loop {
            let all = notes(&doc);
            if i >= all.len() { break; }
            // each closure call recomputes from the current doc; take the i-th notification
            let changes = all[i].clone();
            i += 1;
            ver += 1;
            for c in &changes { apply(&mut doc, c); }
            client.notify::<DidChangeTextDocument>(DidChangeTextDocumentParams { text_document: VersionedTextDocumentIdentifier::new(uri.clone(), ver), content_changes: changes })?;
            if VFS.read(&path)? != doc { ok = false; }
        }
        println!("SCN {} {}", name, if ok { "OK" } else { "FAIL" });
        Ok(())
    };
    run("multi-doc-order", "a = 1\nb = 2\nprint! a, b\n", &|d| vec![vec![ch(0, 0, 0, 0, "# h\n", false, d), ch(2, 4, 2, 5, "33", false, d)], vec![ch(0, 0, 0, 1, "x", false, d), ch(0, 1, 0, 1, "y", false, d)]])?;
    run("multi-bottom-up", "a = 1\nb = 2\n", &|d| vec![vec![ch(1, 4, 1, 5, "20", false, d), ch(0, 0, 0, 1, "aa", false, d)]])?;
    run("rangelength-nonascii", "s = \"cr\u{e8}me \u{e9}\u{e8}\"\nt = 1\n", &|d| vec![vec![ch(0, 10, 0, 12, "", true, d)], vec![ch(0, 5, 0, 8, "XY", true, d)]])?;
    run("rangelength-astral", "a = \"\u{1F600}\u{1F600}b\"\n", &|d| vec![vec![ch(0, 5, 0, 9, "", true, d)], vec![ch(0, 5, 0, 6, "zz", true, d)]])?;
    run("full-text-change", "a = 1\n", &|_d| vec![vec![full("b = 2\nc = 3\n")], vec![ch(1, 0, 1, 1, "d", false, "b = 2\nc = 3\n")]])?;
    run("append-after-multibyte", "x = \"\u{e9}\"", &|d| vec![vec![ch(0, 7, 0, 7, "\ny = 1", false, d)], vec![ch(5, 0, 5, 0, "!", false, d)]])?;
    println!("BATTERY-DONE");
    Ok(())
}
'''


def dataflow(rep, s, tier):
    """FileCache::incremental_update as a dataflow problem (engines/mirflow.py): one iteration of the loop over
    content_changes from an arbitrary loop-head state, every call uninterpreted; z3 decides by congruence that the working
    copy is threaded through the loop, that both positions are converted against it, that String::replace_range gets exactly
    (start..end, text), that a change without a range replaces the document, and that the VFS / cache entry receive it."""
    import z3
    import mirflow as F
    import mir2smt as M
    from common import sh
    import os
    fsrc = s.read("crates/els/file_cache.rs")
    rep.add_function("FileCache::incremental_update", "crates/els/file_cache.rs", extract_fn(fsrc, "incremental_update"))
    base = dict(engine="mirflow (MIR -> z3 uninterpreted functions)", functions=["FileCache::incremental_update"], solver="z3",
                symbolic=["the loop-head state (working copy, iterator, cache entry)", "the change event", "every callee as an uninterpreted function"],
                bounds={"iterations": "one arbitrary iteration (inductive step) + the loop exit"})
    tdir = os.path.join(s.root, "mir-target-els")
    cmd = ["cargo", "+nightly", "rustc", "--offline", "-p", "els", "--lib", "--profile", "check", "--", "-Zunpretty=mir", "-C", "debug-assertions=off"]
    import subprocess, time
    t0 = time.time()
    p = subprocess.run(cmd, cwd=s.src, env=s.env(CARGO_TARGET_DIR=tdir), stdout=subprocess.PIPE, stderr=subprocess.PIPE, text=True, errors="replace", timeout=3000)
    if p.returncode != 0 or len(p.stdout) < 1000:
        # `--profile check` needs the unstable flag on some toolchains: fall back to the dev profile
        cmd = [c for c in cmd if c not in ("--profile", "check")]
        p = subprocess.run(cmd, cwd=s.src, env=s.env(CARGO_TARGET_DIR=tdir), stdout=subprocess.PIPE, stderr=subprocess.PIPE, text=True, errors="replace", timeout=3000)
    log("  MIR dump els: %.0fs, %d KB" % (time.time() - t0, len(p.stdout) >> 10))
    if p.returncode != 0 or len(p.stdout) < 1000:
        rep.add(Obligation(base, key="incremental_update/mir", verdict=BROKEN, reason="MIR dump of els failed: " + p.stderr[-300:]))
        return
    fn = F.load_fn(p.stdout, "file_cache::", "incremental_update")
    if fn is None:
        rep.add(Obligation(base, key="incremental_update/mir", verdict=BROKEN, reason="incremental_update not found in the MIR dump"))
        return
    heads = [bb for bb, st in fn.blocks.items() if any("as Iterator>::next(" in x for x in st)]
    if len(heads) != 1:
        rep.add(Obligation(base, key="incremental_update/loop", verdict=INCONCLUSIVE, reason="expected exactly one loop over the content changes, found %d" % len(heads)))
        return
    events = {}

    def eff_deref(fl, P, callee, args):
        return F.fun("str_of", 1)(fl.term(fl.referent(P, args[0])))

    def eff_p2b(fl, P, callee, args):
        r = F.fun("p2b", 2)(fl.term(args[0]), fl.term(args[1]))
        P.calls.append(("p2b", args, r))
        return r

    def eff_replace(fl, P, callee, args):
        tgt = args[0]
        if not isinstance(tgt, F.Ref):
            raise F.Unsupported("replace_range target is not a local reference")
        old = fl.read(P, tgt.local, list(tgt.path))
        new = F.fun("replace", 3)(fl.term(old), fl.term(args[1]), fl.term(args[2]))
        P.calls.append(("replace_range", [tgt.local, old, args[1], args[2]], new))
        fl.write(P, tgt.local, list(tgt.path), new)
        return F.const("unit")

    def eff_next(fl, P, callee, args):
        r = F.const("next_item")
        P.calls.append(("next", [args[0]], r))
        return r

    def eff_clone(fl, P, callee, args):
        return fl.term(fl.referent(P, args[0]))       # a clone is the same value
    fl = F.Flow(fn, {r"String as (std::ops::)?Deref>::deref$": eff_deref, r"pos_to_byte_index$": eff_p2b,
                     r"String::replace_range": eff_replace, r"as Iterator>::next$": eff_next, r"String as Clone>::clone$": eff_clone})
    try:
        paths = fl.run(heads[0], set(heads))
    except F.Unsupported as e:
        rep.add(Obligation(base, key="incremental_update/*", verdict=INCONCLUSIVE, reason="unsupported-construct: %s" % e))
        return
    item = F.const("next_item")
    chg = F.fun("field0", 1)(F.fun("as_Some", 1)(item))          # ((item as Some).0)
    ropt = F.fun("field0", 1)(chg)                               # TextDocumentContentChangeEvent.range (field 0; .text is field 2: lsp-types 0.93)
    rng = F.fun("field0", 1)(F.fun("as_Some", 1)(ropt))
    text = F.fun("str_of", 1)(F.fun("field2", 1)(chg))
    sol = z3.Solver()
    sol.set("timeout", 20000)

    def proves(pc, eq):
        sol.push()
        for c in pc:
            sol.add(c)
        sol.add(z3.Not(eq))
        r = sol.check()
        sol.pop()
        return str(r) == "unsat"
    it_paths = [(P, end) for P, end in paths if end == heads[0]]
    exit_paths = [(P, end) for P, end in paths if end == "return"]
    with_range = [P for P, _ in it_paths if any(c[0] == "replace_range" for c in P.calls)]
    no_range = [P for P, _ in it_paths if not any(c[0] == "replace_range" for c in P.calls)]
    results = []

    def add(key, ok, why, detail=""):
        o = Obligation(base, key="incremental_update/" + key, queries=1)
        if ok is None:
            o.update(verdict=INCONCLUSIVE, reason=detail or why)
        elif ok:
            o.update(verdict=HELD, reason=why)
        else:
            o.update(verdict=VIOLATED, reason=why + " does not hold: " + detail)
        rep.add(o)
        results.append(o)
    if len(with_range) != 1:
        add("loop/one-edit-per-change", None, "", "expected one path that edits the working copy per change with a range, found %d" % len(with_range))
    else:
        P = with_range[0]
        rr = [c for c in P.calls if c[0] == "replace_range"]
        L = rr[0][1][0]
        initL = F.const("init_" + L)
        add("loop/one-edit-per-change", len(rr) == 1, "a change with a range edits the working copy exactly once", "%d calls of String::replace_range" % len(rr))
        add("loop/threads-working-copy", proves(P.pc, fl.term(rr[0][1][1]) == initL),
            "the text edited in this iteration is the working copy left by the previous iteration", "edited value: %s" % rr[0][1][1])
        want_range = F.fun("mk_std_ops_Range", 2)(F.fun("p2b", 2)(F.fun("str_of", 1)(initL), F.fun("field0", 1)(rng)),
                                                   F.fun("p2b", 2)(F.fun("str_of", 1)(initL), F.fun("field1", 1)(rng)))
        got_range = fl.term(rr[0][1][2])
        unknown = [c[0] for c in P.calls if c[0] not in ("p2b", "replace_range", "next", "store") and "drop" not in c[0]]
        ok = proves(P.pc, got_range == want_range)
        add("loop/range-from-working-copy", ok if (ok or not unknown) else False,
            "replace_range gets pos_to_byte_index(working copy, range.start) .. pos_to_byte_index(working copy, range.end)",
            "range argument: %s%s" % (str(got_range)[:300], ("; other calls on the path: %s" % unknown[:3]) if unknown else ""))
        add("loop/text", proves(P.pc, fl.term(rr[0][1][3]) == text), "replace_range gets the change's text", "text argument: %s" % str(rr[0][1][3])[:200])
        fin = P.locals.get(L)
        add("loop/result-is-the-edit", proves(P.pc, fl.term(fin) == F.fun("replace", 3)(initL, want_range, text)),
            "the working copy after the iteration is replace(previous copy, start..end, text)", str(fin)[:300])
        for Q in no_range:
            finq = Q.locals.get(L, initL)
            add("loop/no-range-is-full-text", proves(Q.pc, fl.term(finq) == F.fun("field2", 1)(chg)),
                "a change without a range replaces the whole document (LSP: 'the new text is considered to be the full content')",
                "working copy after such a change: %s" % str(finq)[:200])
        for Q, _ in exit_paths[:1]:
            vfs = [c for c in Q.calls if "SharedVFS::update" in c[0]]
            stores = [c for c in Q.calls if c[0] == "store" and c[1][1] == (("field", 0),)]
            add("exit/vfs-gets-working-copy", bool(vfs) and proves(Q.pc, fl.term(vfs[0][1][2]) == initL), "VFS.update receives the working copy",
                str(vfs[0][1][2])[:200] if vfs else "no call of SharedVFS::update on the exit path")
            add("exit/entry-gets-working-copy", bool(stores) and proves(Q.pc, fl.term(stores[-1][1][2]) == initL), "the cache entry's code becomes the working copy",
                str(stores[-1][1][2])[:200] if stores else "no store to the entry's code on the exit path")
    # replay: the scenario battery through the public fake client confirms or refutes dataflow violations
    viol = [o for o in results if o["verdict"] == VIOLATED and not rep.known.lookup(rep.prop, o["key"])]
    if viol or tier == "thorough" or os.environ.get("VERIF_REPLAY_KNOWN") == "1":
        tpath = s.path("crates/els/tests/verif_c28_battery.rs")
        with open(tpath, "w") as f:
            f.write(BATTERY)
        rc, out, dt = sh(["cargo", "test", "--offline", "-p", "els", "--test", "verif_c28_battery", "--", "--nocapture", "--test-threads", "1"],
                         cwd=s.src, env=s.env(CARGO_TARGET_DIR=os.path.join(s.root, "native")), timeout=3000)
        scn = dict(re.findall(r"SCN (\S+) (OK|FAIL)", out))
        crashed = "BATTERY-DONE" not in out
        rep.extra["replay_battery"] = {"scenarios": scn, "completed": not crashed}
        rep.replayed += len(scn)
        relevant = {"loop/no-range-is-full-text": ["full-text-change"],
                    "loop/text": list(scn), "exit/vfs-gets-working-copy": list(scn), "exit/entry-gets-working-copy": list(scn)}
        for o in viol:
            rel = relevant.get(o["key"].split("/", 1)[1], [k for k in scn if k != "full-text-change"])
            failing = [k for k in rel if scn.get(k) == "FAIL"]
            o["native_replay"] = {"battery": scn, "relevant": rel, "crashed": crashed, "tail": out[-400:] if crashed else ""}
            if failing or crashed:
                rd = os.path.join(VERIF_DIR, "replays", "C28")
                os.makedirs(rd, exist_ok=True)
                rp = os.path.join(rd, "battery_%s.rs" % o["key"].replace("/", "_"))
                with open(rp, "w") as f:
                    f.write("// dataflow obligation %s: %s\n// failing scenarios: %s%s\n// place as crates/els/tests/verif_c28_battery.rs and run: cargo test -p els --test verif_c28_battery -- --nocapture\n"
                            % (o["key"], o["reason"], failing, " (the server crashed)" if crashed else "") + BATTERY)
                o["replay"] = rp
            else:
                o["verdict"] = BROKEN
                o["reason"] = "dataflow counterexample not confirmed by any scenario of the replay battery: " + o["reason"]


def run(tier, seed, only=None):
    rep = Report("C28", tier, seed, "other",
                 "Bounded model checking (Kani/CBMC, SAT) of els::util::pos_to_byte_index, the position calculus of "
                 "FileCache::incremental_update's edit step, against an LSP 3.17 reference written in the harness: for every "
                 "document of each listed UTF-8 width pattern (all code points of each class, newlines included) and every "
                 "u32 line/character the index equals the reference, is a char boundary, and ordered ranges give start <= end; "
                 "on small shapes the whole step (two conversions + String::replace_range) is compared byte for byte with the "
                 "client's edit.  One inductive step covers histories of any length.", partial=bool(only))
    s = Scratch("c28")
    try:
        kr = KaniRun(s, "els", "crates/els", tier, workers=10, mem_gb=8, cap=300 if tier == "quick" else 1500)
        kr.extra_args = ["--lib"]
        utxt = s.read("crates/els/util.rs")
        fctxt = s.read("crates/els/file_cache.rs")
        rep.add_function("els::util::pos_to_byte_index", "crates/els/util.rs", extract_fn(utxt, "pos_to_byte_index"))
        rep.add_function("els::file_cache::FileCache::incremental_update (read, not encoded: its edit step is p2b/p2b/replace_range)",
                         "crates/els/file_cache.rs", extract_fn(fctxt, "incremental_update"))
        idx, mono, step = shapes_for(tier, seed)
        for sh in idx:
            kr.add("crates/els/util.rs", h_index(sh), REF)
        for sh in mono:
            kr.add("crates/els/util.rs", h_mono(sh), REF)
        for sh, ins in step:
            kr.add("crates/els/util.rs", h_step(sh, ins), REF)
        if only:
            for f in kr.frags.values():
                f["harnesses"] = [h for h in f["harnesses"] if only in h.name]
        kr.run()
        for h in kr.all_harnesses():
            for o in kr.obligations(h, functions=["els::util::pos_to_byte_index"]):
                rep.add(o)
        confirm_violations(rep, s, [kr])
        if not only or "flow" in only:
            dataflow(rep, s, tier)
        rep.trusted += ["Kani 0.68, CBMC 6.11, CaDiCaL", "String::replace_range / str::char_indices as compiled from std by Kani",
                        "the LSP reference in props/c28.py (__ref_index)"]
        rep.assumptions += [
            "lines are terminated by '\\n' only ('\\r' is an ordinary character of the A class; '\\r\\n'-terminated documents clamp before the '\\n', not before the '\\r')",
            "positions inside a surrogate pair: only the char-boundary requirement is asserted (the LSP leaves them unspecified)",
            "the edit step of FileCache::incremental_update is p2b(start), p2b(end), String::replace_range (read from the source; the method itself — Shared<Dict>, VFS, Lexer — is not encoded)",
            "documents longer than the listed shapes are outside the claim; std::fmt::format stubbed (no message text involved)",
        ]
        rep.extra["shapes"] = {"index": idx, "mono": mono, "step": ["%s/%s" % (a, "ins" if b else "del") for a, b in step]}
        rep.extra["kani_build_s"] = kr.build_s
        return rep.finish()
    finally:
        s.cleanup()
