"""C23 — a moved mutable value cannot be used again (kernel: the scope-chain lookup of the ownership checker).

`OwnershipChecker::check_acc` rejects a use of `name` exactly when `check_if_dropped(name, ..)` returns Err, and records a move
with `drop(ident)`.  Both walk the chain of enclosing scopes (`nth_outer_scope(0)` = the current one).  The property fixes what
the lookup must answer: a use is rejected iff the variable *it refers to* — the one defined in the innermost enclosing scope
that knows the name — has been moved; a live variable of the same name in an inner scope is a different variable ("programs
that never use a moved variable are not rejected for ownership reasons").

Engine: `mirsem` — the rustc MIR of `check_if_dropped` is executed on scope chains of concrete depth d (1..3, thorough 4); per
scope, "name is alive here" and "name was moved here" are solver variables (not both); `Range`, `Vec::len`, `Dict::get`,
`Set::contains` are contract models, `nth_outer_scope(n)` returns the n-th scope of the chain (its own path arithmetic is
validated natively).  z3 decides that the answer is Err exactly when the innermost scope that knows the name has it moved.
Counterexamples are replayed on a real `OwnershipChecker` and as generated Erg programs through the built compiler."""
import itertools
import os
import re
import time

import z3

import mir2smt as M
import mirsem as S
from common import (BROKEN, HELD, INCONCLUSIVE, VIOLATED, Obligation, Report, Scratch, extract_fn, log, sh)
from mirflow import DISC, Ref, Unsupported, const, fun
from native import NativeRun

import c23_binding


def models(W):
    used = W["used"]

    def m(name):
        def deco(f):
            def g(flow, P, callee, args):
                used.add(name)
                return f(flow, P, callee, args)
            return g
        return deco

    def opt(x):
        return ("agg", "Option::Some", [x]) if x is not None else ("agg", "Option::None", [])

    @m("Vec::len of path_stack: the depth of the scope chain (concrete)")
    def v_len(flow, P, callee, args):
        v = flow.deref_all(P, args[0])
        if not (isinstance(v, tuple) and v[0] == "vec"):
            raise Unsupported("len of %r" % (v,))
        return ("int", len(v[1]))

    @m("Range<usize>: into_iter / next count up from start to end (std contract)")
    def r_into(flow, P, callee, args):
        return args[0]

    def r_next(flow, P, callee, args):
        r = args[0]
        rg = flow.read(P, r.local, list(r.path))
        if not (isinstance(rg, tuple) and rg[0] == "agg" and rg[1].endswith("Range") and all(flow.is_int(x) for x in rg[2])):
            raise Unsupported("next on %r" % (rg,))
        a, b = rg[2][0][1], rg[2][1][1]
        if a < b:
            flow.write(P, r.local, list(r.path), ("agg", rg[1], [("int", a + 1), ("int", b)]))
            return opt(("int", a))
        return opt(None)

    @m("Range<usize> as Iterator: any / all / find_map-free adaptors apply the inlined closure to each index (std contract)")
    def r_quant(flow, P, callee, args):
        r = args[0]
        rg = flow.read(P, r.local, list(r.path)) if isinstance(r, Ref) else r
        if not (isinstance(rg, tuple) and rg[0] == "agg" and rg[1].endswith("Range") and all(flow.is_int(x) for x in rg[2])):
            raise Unsupported("any/all on %r" % (rg,))
        mm = re.search(r"\{closure@([^}]*)\}", callee)
        c = [f for f in flow.fns.values() if "{closure#" in f.short and f.params and mm and mm.group(1).strip() in f.params[0][1]]
        if len({f.name for f in c}) != 1:
            raise Unsupported("closure of " + callee[:80])
        fn = c[0]
        res = []
        for i in range(rg[2][0][1], rg[2][1][1]):
            first = flow.new_place(P, "pclo", args[1]) if fn.params[0][1].startswith("&") else args[1]
            res.append(S.truth(flow, flow.inline(P, fn, [first, ("int", i)])))
        isany = "::any::" in callee
        return flow.mkbool(P, (z3.Or(res) if isany else z3.And(res)) if res else z3.BoolVal(not isany))

    @m("OwnershipChecker::nth_outer_scope(n): the LocalVars of the n-th enclosing scope (0 = current); its path arithmetic is validated natively")
    def nth(flow, P, callee, args):
        n = args[1]
        if not flow.is_int(n) or not (0 <= n[1] < W["depth"]):
            raise Unsupported("nth_outer_scope(%r)" % (n,))
        return Ref("p_scope%d" % n[1])

    @m("Dict<Str, Location>::get(name) / contains_key / Set<Str>::contains(name): membership of the one name under test is a solver variable per scope")
    def d_get(flow, P, callee, args):
        d = flow.deref_all(P, args[0])
        if not (isinstance(d, tuple) and d[0] == "names"):
            raise Unsupported("get on %r" % (d,))
        o = flow.fresh("opt")
        P.pc.append(DISC(o) == z3.If(d[1], 1, 0))
        return o

    def contains(flow, P, callee, args):
        d = flow.deref_all(P, args[0])
        if not (isinstance(d, tuple) and d[0] == "names"):
            raise Unsupported("contains on %r" % (d,))
        return flow.mkbool(P, d[1])

    @m("Option::is_some / is_none on a lookup result (std contract)")
    def o_is(flow, P, callee, args):
        o = flow.deref_all(P, args[0])
        if isinstance(o, tuple) and o[0] == "agg":
            some = o[1].endswith("Some")
            return S.TRUE if some == callee.endswith("is_some") else S.FALSE
        e = DISC(flow.term(o)) == 1
        return flow.mkbool(P, e if callee.endswith("is_some") else z3.Not(e))

    return [
        (r"^Vec::<(ty::)?vis::Visibility>::len$", v_len),
        (r"^<std::ops::Range<usize> as IntoIterator>::into_iter$", r_into),
        (r"^<std::ops::Range<usize> as Iterator>::next$", r_next),
        (r"^<std::ops::Range<usize> as Iterator>::(any|all)::", r_quant),
        (r"OwnershipChecker::nth_outer_scope$", nth),
        (r"dict::Dict::<erg_common::Str, erg_common::error::Location>::get::", d_get),
        (r"dict::Dict::<erg_common::Str, erg_common::error::Location>::contains_key::", contains),
        (r"set::Set::<erg_common::Str>::contains::", contains),
        (r"^Option::<.*>::is_(some|none)$", o_is),
    ]


def run(tier, seed, only=None):
    rep = Report("C23", tier, seed, "other",
                 "Kernel-level partial claim: the scope-chain lookup OwnershipChecker::check_if_dropped, whose answer decides whether a use of a variable is reported as a use "
                 "after move.  Its rustc MIR is executed symbolically (engine mirsem) on scope chains of concrete depth; per scope, whether the name under test is alive or moved "
                 "there is a solver variable; z3 decides that the answer is Err exactly when the innermost scope that knows the name has it moved (an inner live variable of "
                 "the same name shadows an outer moved one; an outer moved variable used from an inner scope is rejected).  Counterexamples are replayed on a real "
                 "OwnershipChecker and as generated programs through the built compiler.  When check_expr records a move (parameter kinds, containers, references) is read, not decided.",
                 partial=bool(only))
    rep.trusted += ["rustc nightly -Zunpretty=mir as the semantics of the source", "engines/mirsem.py + engines/mirflow.py", "z3 " + z3.get_version_string()]
    s = Scratch("c23")
    try:
        src = s.read("crates/erg_compiler/ownercheck.rs")
        body = extract_fn(src, "check_if_dropped")
        rep.add_function("OwnershipChecker::check_if_dropped", "crates/erg_compiler/ownercheck.rs", body)
        rep.add_function("OwnershipChecker::nth_outer_scope (contract; validated natively)", "crates/erg_compiler/ownercheck.rs", extract_fn(src, "nth_outer_scope"))

        def fields_of(name):
            st = re.search(r"struct %s[^{]*\{(.*?)\n\}" % name, src, re.S)
            return re.findall(r"^\s*(?:pub(?:\([^)]*\))?\s+)?(\w+)\s*:", st.group(1), re.M) if st else []
        cf, lf = fields_of("OwnershipChecker"), fields_of("LocalVars")
        if body is None or "path_stack" not in cf or sorted(lf) != ["alive_vars", "dropped_vars"]:
            rep.add(Obligation(key="source/shape", verdict=BROKEN, reason="OwnershipChecker %r / LocalVars %r / check_if_dropped could not be read from the source as expected" % (cf, lf)))
            return rep.finish()
        text, dt, err, rc = M.dump_mir(s, "erg_compiler", overflow_checks=True, extra_cargo=["--lib"])
        if rc != 0 or len(text) < 1000:
            log("MIR dump failed:\n" + err[-3000:])
            rep.add(Obligation(key="mir-dump", verdict=BROKEN, reason="cargo +nightly rustc -Zunpretty=mir failed"))
            return rep.finish()
        log("  MIR dump erg_compiler: %.0fs, %d MB" % (dt, len(text) >> 20))
        fns = M.parse_mir(text, want=["ownercheck::"])
        mir_text = text
        del text
        mains = [f for f in fns.values() if f.short == "check_if_dropped"]
        if len(mains) != 1:
            rep.add(Obligation(key="mir/functions", verdict=BROKEN, reason="check_if_dropped not found uniquely in the MIR dump (%d)" % len(mains)))
            return rep.finish()
        fn = mains[0]
        solver = z3.Solver()
        solver.set("timeout", 60000)
        nq = [0]

        def check(conds):
            solver.push()
            solver.add(*conds)
            r = solver.check()
            mdl = solver.model() if r == z3.sat else None
            solver.pop()
            nq[0] += 1
            return str(r), mdl

        used = set()
        to_replay, runs = [], {}
        for d in range(1, (3 if tier == "quick" else 4) + 1):
            key = "lookup/depth=%d" % d
            if only and not any(o in key for o in only.split(",")):
                continue
            ob = Obligation(dict(engine="mirsem (MIR -> z3 %s)" % z3.get_version_string(), solver="z3", functions=["OwnershipChecker::check_if_dropped"],
                                 shape="scope chain of depth %d" % d, symbolic=["per scope: the name is alive there / was moved there (not both)"], bounds={"depth": d}), key=key)
            t0 = time.time()
            W = {"used": used, "depth": d}
            try:
                flow = S.SemFlow(fns, fn, models(W), {"Option": ["None", "Some"], "Result": ["Ok", "Err"]})
                P0 = S.Path()
                P0.pc = list(S.BASE_AXIOMS)
                al = [z3.Bool("alive%d" % n) for n in range(d)]
                mv = [z3.Bool("moved%d" % n) for n in range(d)]
                for n in range(d):
                    P0.pc.append(z3.Not(z3.And(al[n], mv[n])))
                    lv = [None, None]
                    lv[lf.index("alive_vars")] = ("names", al[n])
                    lv[lf.index("dropped_vars")] = ("names", mv[n])
                    P0.locals["p_scope%d" % n] = ("agg", "LocalVars", lv)
                sf = [const("fld%d" % i) for i in range(len(cf))]
                sf[cf.index("path_stack")] = ("vec", [const("vis%d" % i) for i in range(d)])
                P0.locals["p_self"] = ("agg", "OwnershipChecker", sf)
                pre = dict(P0.locals)
                pre.update({"_1": Ref("p_self"), "_2": Ref("p_name"), "_3": const("loc")})
                pre["p_name"] = const("name")
                outs = flow.run("bb0", stop_at=(), pre=pre, pc=P0.pc)
                paths = []
                for Q, end in outs:
                    if end != "return":
                        continue
                    rv = Q.locals.get("_0")
                    if not (isinstance(rv, tuple) and rv[0] == "agg" and rv[1].split("::")[-1] in ("Ok", "Err")):
                        raise Unsupported("result %r" % (rv,))
                    paths.append((Q, rv[1].endswith("Err")))
                ref = z3.BoolVal(False)
                for n in range(d - 1, -1, -1):      # the innermost scope that knows the name decides
                    ref = z3.If(z3.Or(al[n], mv[n]), mv[n], ref)
                npaths, verdict, reason, cex, covered = 0, HELD, "", None, []
                for Q, is_err in paths:
                    if check(Q.pc)[0] != "sat":
                        continue
                    npaths += 1
                    covered.append(z3.And(Q.pc))
                    r1, mdl = check(Q.pc + [ref != z3.BoolVal(is_err)])
                    if r1 == "sat" and cex is None:
                        ev = lambda e: z3.is_true(mdl.eval(e, model_completion=True))
                        cex = ([(ev(al[n]), ev(mv[n])) for n in range(d)], is_err)
                        verdict = VIOLATED
                    elif r1 not in ("sat", "unsat") and verdict == HELD:
                        verdict, reason = INCONCLUSIVE, "solver " + r1
                # every scope chain must reach a returning path (no panic, no lost path): enumerate the 3^d chains
                rc_ = "unsat"
                for combo in itertools.product([(False, False), (True, False), (False, True)], repeat=d):
                    pins = [x == v for n, (a, b) in enumerate(combo) for x, v in ((al[n], a), (mv[n], b))]
                    if not any(check(Q.pc + pins)[0] == "sat" for Q, _e in paths):
                        rc_ = "sat"
                        break
                runs[d] = (flow, al, mv, paths)
                ob["queries"] = flow.queries + 2 * npaths + 1
                ob["detail"] = {"paths": npaths}
                if npaths == 0:
                    verdict, reason = BROKEN, "no feasible path (vacuous encoding)"
                elif rc_ != "unsat" and verdict == HELD:
                    verdict, reason = INCONCLUSIVE, "some scope chains reach no returning path (panic or unsupported construct)"
                if verdict == HELD:
                    reason = "for all %d scope chains of this depth a use is rejected exactly when the innermost scope that knows the name has it moved (%d paths)" % (3 ** d, npaths)
                elif verdict == VIOLATED:
                    flags, is_err = cex
                    desc = ", ".join("scope %d: %s" % (n, "alive" if a else "moved" if m_ else "-") for n, (a, m_) in enumerate(flags))
                    ob["model"] = {"scopes (0 = innermost)": desc, "answer": "Err" if is_err else "Ok", "reference": "Ok" if is_err else "Err"}
                    reason = "answers %s for the chain [%s]: %s" % ("Err (use after move)" if is_err else "Ok", desc,
                                                                    "the variable in scope is alive; only an outer variable of the same name was moved" if is_err else "the variable in scope was moved")
                    to_replay.append((ob, flags, is_err))
                ob.update(verdict=verdict, reason=reason, solver_s=round(time.time() - t0, 2))
            except Unsupported as e:
                ob.update(verdict=INCONCLUSIVE, reason="unsupported-construct: " + str(e)[:200], solver_s=round(time.time() - t0, 2))
            rep.add(ob)

        helpers = r"""
    fn cid(flags: &[(bool, bool)]) -> bool {
        let d = flags.len();
        let mut c = OwnershipChecker::new(ErgConfig::default());
        let mut path = String::new();
        for i in 0..d {
            c.path_stack.push(Visibility::private(Str::from(format!("s{i}"))));
            path = path + "::" + &format!("s{i}");
            let mut lv = LocalVars::default();
            let (a, dr) = flags[d - 1 - i];
            if a { lv.alive_vars.insert(Str::ever("v")); }
            if dr { lv.dropped_vars.insert(Str::ever("v"), Location::Unknown); }
            c.dict.insert(Str::from(path.clone()), lv);
        }
        c.check_if_dropped(&Str::ever("v"), &Location::Unknown).is_err()
    }
"""
        bcases, bfinish = c23_binding.stage(rep, s, mir_text, tier, only)
        del mir_text
        nr = NativeRun(s, "erg_compiler", "crates/erg_compiler/ownercheck.rs", helpers=helpers + c23_binding.HELPERS)
        for cid_, expr_ in bcases:
            nr.add(cid_, expr_)
        vecs = []
        for d in sorted(runs):
            for combo in itertools.product([(False, False), (True, False), (False, True)], repeat=d):
                vecs.append(list(combo))
        lit = lambda fl: ", ".join("(%s, %s)" % (str(a).lower(), str(b).lower()) for a, b in fl)
        for i, fl in enumerate(vecs):
            nr.add("t.%d" % i, "format!(\"{}\", cid(&[%s]))" % lit(fl))
        for i, (ob, fl, is_err) in enumerate(to_replay):
            nr.add("r.%d" % i, "format!(\"{}\", cid(&[%s]))" % lit(fl))
        res, dtn = nr.run()
        log("  native stage: %d cases, %.0fs" % (len(nr.cases), dtn))
        if res is None:
            rep.add(Obligation(key="translation/validated", verdict=BROKEN, reason="the native validation binary did not build or run"))
            return rep.finish()
        tbad, timprecise = [], []
        for i, fl in enumerate(vecs):
            flow, al, mv, paths = runs[len(fl)]
            pins = [x == v for n, (a, b) in enumerate(fl) for x, v in ((al[n], a), (mv[n], b))]
            outs = {str(is_err).lower() for Q, is_err in paths if check(Q.pc + pins)[0] == "sat"}
            rep.replayed += 1
            if res.get("t.%d" % i) not in outs:
                tbad.append("%s: real %s, encoding %s" % (fl, res.get("t.%d" % i), sorted(outs)))
            elif len(outs) > 1:
                timprecise.append(fl)
        rep.add(Obligation(dict(engine="mirsem vs native", functions=["OwnershipChecker::check_if_dropped", "OwnershipChecker::nth_outer_scope"]), key="translation/validated",
                           nontrivial=False, verdict=BROKEN if tbad else INCONCLUSIVE if timprecise else HELD,
                           reason=("the encoding disagrees with the real function: " + " | ".join(tbad[:4])) if tbad else
                           ("the encoding leaves the answer open on %d concrete chains (an unmodelled callee): verdicts above are sound for 'held' only" % len(timprecise)) if timprecise else
                           "the symbolic execution predicts the real function's answer on all %d scope chains of the decided depths (this also validates the nth_outer_scope contract)" % len(vecs)))
        for i, (ob, fl, is_err) in enumerate(to_replay):
            g = res.get("r.%d" % i)
            rep.replayed += 1
            ob["native_replay"] = {"call": "check_if_dropped(\"v\") with scopes (alive, moved), innermost first: %s" % fl, "is_err": g}
            if g != str(is_err).lower():
                ob["verdict"] = BROKEN
                ob["reason"] = "counterexample did not reproduce natively (%s): %s" % (g, ob["reason"])
        bviol = bfinish(res)
        confirmed = [t for t in to_replay if t[0]["verdict"] == VIOLATED]
        if (confirmed or bviol) and (tier == "thorough" or any(not rep.known.lookup(rep.prop, t[0]["key"]) for t in confirmed + bviol)):
            e2e(s, rep, confirmed, bviol)
        rep.assumptions += sorted(used) + [
            "per scope a name is not both alive and moved (drop removes it from alive_vars before inserting it into dropped_vars)",
            "reference: the innermost enclosing scope that knows the name (alive or moved) is the one the use refers to",
        ]
        rep.extra["z3_queries"] = nq[0]
        return rep.finish()
    finally:
        s.cleanup()


def e2e(s, rep, confirmed, bviol=()):
    t0 = time.time()
    tdir = os.path.join(s.root, "native")
    rc, out, dt = sh(["cargo", "build", "--offline", "--bin", "erg"], cwd=s.src, env=s.env(CARGO_TARGET_DIR=tdir), timeout=2400)
    exe = os.path.join(tdir, "debug", "erg")
    if rc != 0 or not os.path.exists(exe):
        log("  e2e: building erg failed (rc=%s)" % rc)
        return
    for n, (ob, flags, is_err) in enumerate(confirmed[:4]):
        if not any(a or m_ for a, m_ in flags):
            continue
        # a simple nesting that realises the innermost two deciding scopes: an outer moved `v`, an inner live `v`
        prog = "v = ![1]\nw = v\np!() =\n    v = ![2]\n    v.push! 3\n    print! v\np!()\nprint! w\n" if is_err else None
        if prog is None:
            continue
        f = os.path.join(s.root, "e2e_%d.er" % n)
        open(f, "w").write(prog)
        rc1, out1, _ = sh([exe, "check", f], env=s.env(), timeout=120)
        ob["end_to_end"] = {"program": prog, "erg check exit": rc1, "rejected": rc1 != 0,
                            "diagnostic tail": re.sub(r"\x1b\[[0-9;]*m", "", out1).strip()[-200:]}
        log("  e2e %s: erg check rc=%s" % (ob["key"], rc1))
    for n, (ob, prog) in enumerate(list(bviol)[:4]):
        f = os.path.join(s.root, "e2e_b%d.er" % n)
        open(f, "w").write(prog)
        rc1, out1, _ = sh([exe, "check", f], env=s.env(), timeout=120)
        rc2, out2, _ = sh([exe, "run", f], env=s.env(), timeout=120)
        ob["end_to_end"] = {"program": prog, "erg check exit": rc1, "accepted": rc1 == 0, "erg run stdout tail": re.sub(r"\x1b\[[0-9;]*m", "", out2).strip()[-80:]}
        log("  e2e %s: erg check rc=%s" % (ob["key"], rc1))
    log("  e2e stage: %.0fs" % (time.time() - t0))
