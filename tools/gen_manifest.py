#!/usr/bin/env python3
"""Regenerates /verif/MANIFEST.json from the table below and validates it against the schema."""
import json
import os
import sys

VERIF = os.path.dirname(os.path.dirname(os.path.abspath(__file__)))

KANI = "bounded model checking of the compiled Rust (Kani 0.68 -> CBMC 6.11 -> CaDiCaL SAT) through a cfg(kani) source overlay"
MIR = "symbolic execution of rustc MIR (regenerated per run) into SMT; z3 decides, cvc5 cross-checks"
PY = "symbolic execution of the Python runtime sources (ast -> z3)"

CLAIMED = {
    "C16": dict(
        engine="kani",
        technique="Kani/CBMC bounded model checking (SAT) of the opcode/magic tables and jump arithmetic, symbolic byte/u32/idx/arg, oracle generated from the installed CPython interpreters",
        category="other",
        text="For every byte (all 256), every u32 magic word and every (idx,arg) < 2^16 the SAT solver shows that the compiled "
             "tables agree with dis.opmap / hasjrel / hasjabs / MAGIC_NUMBER of the installed CPython 3.7-3.12; per-name opcode "
             "numbers are compile-time constants checked in the same harnesses. Bounded only by the stated idx/arg range.",
        note="Trusts the installed interpreters as the oracle, Kani/CBMC/CaDiCaL, and the table-per-version choice made in codegen.rs "
             "(308 for 3.7/3.8, 309, 310, 311). Names present only in erg's tables are listed, not failed.",
        design="3/C16"),
}

NOT_APPLICABLE = {}


def load_na():
    p = os.path.join(VERIF, "data", "not_applicable.json")
    return json.load(open(p))


def main():
    na = load_na()
    checks = []
    for pid in sorted(CLAIMED):
        c = CLAIMED[pid]
        checks.append({
            "property_id": pid,
            "quick_cmd": "./check %s --tier quick" % pid,
            "thorough_cmd": "./check %s --tier thorough" % pid,
            "evidence_file": "evidence/%s.json" % pid,
            "replay_cmd_template": "./check %s --replay {path}" % pid,
            "engine": c["engine"],
            "technique": c["technique"],
            "level_claimed": {"category": c["category"], "text": c["text"], "design_ref": "DESIGN.md §" + c["design"]},
            "level_note": c["note"],
        })
    props = [json.loads(l)["id"] for l in open(os.path.join(VERIF, "properties.jsonl")) if l.strip()]
    nalist = []
    for pid in props:
        if pid in CLAIMED:
            continue
        if pid not in na:
            print("missing not_applicable reason for", pid)
            sys.exit(1)
        nalist.append({"property_id": pid, "reason": na[pid]})
    m = {
        "version": 1,
        "setup_cmd": "./setup.sh",
        "hooks": {
            "guard": "cfg(kani)",
            "enable": "no hook commits: checks copy /repo's working tree to a scratch directory and append `#[cfg(kani)] mod __verif { use super::*; .. }` "
                      "to the copied source files (cargo-kani is the only thing that sets cfg(kani)); MIR is dumped from the same copy with the nightly toolchain",
            "baseline_off_cmd": "cd /repo && cargo nextest run --workspace --no-fail-fast --test-threads 8 --offline || cargo test --workspace --no-fail-fast --offline",
            "source_commits": [],
            "add_only": True,
        },
        "engines": [
            {"name": "kani", "path": "engines/kani.py", "serves_properties": sorted(p for p, c in CLAIMED.items() if "kani" in c["engine"]),
             "kind_free_text": KANI},
            {"name": "mir2smt", "path": "engines/mir2smt.py", "serves_properties": sorted(p for p, c in CLAIMED.items() if "mir2smt" in c["engine"]),
             "kind_free_text": MIR},
            {"name": "py2smt", "path": "engines/py2smt.py", "serves_properties": sorted(p for p, c in CLAIMED.items() if "py2smt" in c["engine"]),
             "kind_free_text": PY},
        ],
        "checks": checks,
        "not_applicable": nalist,
        "notes": "All checks rebuild from /repo's working tree in a scratch copy under $VERIF_SCRATCH (default /var/tmp), removed afterwards. "
                 "Exit 0 held / 1 VIOLATION / 2 machinery error. Known findings: known_findings.jsonl (role-keyed).",
    }
    out = os.path.join(VERIF, "MANIFEST.json")
    with open(out, "w") as f:
        json.dump(m, f, indent=1)
    try:
        import jsonschema
        jsonschema.validate(m, json.load(open("/root/.vp/MANIFEST.schema.json")))
        print("MANIFEST.json valid;", len(checks), "checks,", len(nalist), "not applicable")
    except ImportError:
        print("written (jsonschema unavailable)")


if __name__ == "__main__":
    main()
