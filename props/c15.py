"""C15 — constants and .pyc files round-trip through marshal and the compiler's reader.

Engine: Kani/CBMC over the real erg_compiler crate (overlay on ty/deserialize.rs) and erg_common (serialize.rs).
Writer: ValueObj::into_bytes (Int/Nat/Float/Bool/None/Str/Tuple arms), tuple_into_bytes, consts_into_bytes,
str_into_bytes, strs_into_bytes, raw_string_into_bytes, CodeObj::dump_locals, magic-number bytes.
Reader: Deserializer::{deserialize_const, deserialize_bytes, deserialize_str_vec, deserialize_locals},
CodeObj::from_bytes, the header part of CodeObj::from_pyc.
Oracle: a reference model of CPython's marshal.c r_object for the type codes the compiler writes (i l g T F N
z Z u s ( )), written in the harness; validated on every run against the installed interpreter's marshal.loads
(see validate_reference)."""
import itertools
import json
import os
import re
import subprocess

from common import (BROKEN, HELD, INCONCLUSIVE, VIOLATED, Obligation, Report, Scratch, extract_fn, log, sh)
from kani import Harness, KaniRun, confirm_violations

PRELUDE = r"""
    use erg_common::python_util::PythonVersion;
    use erg_common::serialize::*;
    use crate::ty::codeobj::*;
    pub fn __pv(minor: u8) -> PythonVersion { PythonVersion::new(3, Some(minor), Some(0)) }
    /// stubs for interning (same value, no sharing): FxHashSet over symbolic contents is out of CBMC's reach
    pub fn __stub_cached_str(_d: &mut Deserializer, s: &str) -> ValueObj { ValueObj::Str(Str::rc(s)) }
    pub fn __stub_cached_arr(_d: &mut Deserializer, arr: &[ValueObj]) -> ValueObj { ValueObj::List(ArcArray::from(arr)) }
    /// the error value's text is not the subject (fn_name!() searches type names with str::rfind: pattern-matching loops)
    pub fn __stub_broken() -> DeserializeError { DeserializeError { errno: 0, caused_by: String::new(), desc: String::new() } }
    pub fn __stub_err_new<S: Into<String>, T: Into<String>>(errno: usize, _c: S, _d: T) -> DeserializeError { DeserializeError { errno, caused_by: String::new(), desc: String::new() } }
    /// reference: CPython marshal.c r_object for TYPE_INT ('i') and TYPE_LONG ('l'); returns (value, bytes consumed)
    pub fn __ref_int(b: &[u8]) -> Option<(i128, usize)> {
        if b.is_empty() { return None; }
        let code = b[0] & 0x7f;     // FLAG_REF is ignored by the value
        if code == b'i' {
            if b.len() < 5 { return None; }
            return Some((i32::from_le_bytes([b[1], b[2], b[3], b[4]]) as i128, 5));
        }
        if code == b'l' {
            if b.len() < 5 { return None; }
            let n = i32::from_le_bytes([b[1], b[2], b[3], b[4]]);
            let size = if n < 0 { -(n as i64) } else { n as i64 } as usize;
            if size > 8 || b.len() < 5 + 2 * size { return None; }
            let mut v: i128 = 0; let mut k = 0;
            while k < size {
                let d = u16::from_le_bytes([b[5 + 2 * k], b[6 + 2 * k]]);
                if d >= 0x8000 { return None; }              // "bad marshal data (digit out of range in long)"
                if k == size - 1 && d == 0 { return None; }  // "bad marshal data (unnormalized long data)"
                v += (d as i128) << (15 * k);
                k += 1;
            }
            return Some((if n < 0 { -v } else { v }, 5 + 2 * size));
        }
        None
    }
    /// reference for the string codes: returns (offset of the payload, payload length, is an ASCII-only code)
    pub fn __ref_str(b: &[u8]) -> Option<(usize, usize, bool)> {
        if b.is_empty() { return None; }
        let code = b[0] & 0x7f;
        if code == b'z' || code == b'Z' {
            if b.len() < 2 { return None; }
            let n = b[1] as usize;
            if b.len() < 2 + n { return None; }
            return Some((2, n, true));
        }
        if code == b'u' || code == b't' || code == b'a' || code == b'A' {
            if b.len() < 5 { return None; }
            let n = u32::from_le_bytes([b[1], b[2], b[3], b[4]]) as usize;
            if b.len() < 5 + n { return None; }
            return Some((5, n, code == b'a' || code == b'A'));
        }
        None
    }
"""

STUBS = [("crate::ty::deserialize::Deserializer::get_cached_str", "__stub_cached_str"), ("crate::ty::deserialize::Deserializer::get_cached_arr", "__stub_cached_arr")]


def H(name, body, role, **kw):
    kw.setdefault("fmt_stub", True)
    return Harness(name, body, role, **kw)


def writer_scalars():
    hs = []
    hs.append(H("w_int", """        let i: i32 = kani::any(); let minor: u8 = kani::any(); kani::assume(minor >= 7 && minor <= 11);
        kani::cover!(true, "reach");
        let b = ValueObj::Int(i).into_bytes(__pv(minor));
        let r = __ref_int(&b);
        assert!(r.is_some(), "wellformed: the bytes are a marshal int/long object");
        if let Some((v, n)) = r { assert!(v == i as i128, "value: unmarshals to the same integer"); assert!(n == b.len(), "length: no trailing bytes"); }
        std::mem::forget(b);""", "into_bytes/Int", asserts={"wellformed": "", "value": "", "length": ""}, covers=["reach"],
                meta=dict(shape="ValueObj::Int", symbolic=["i: i32 (all)", "minor 7..=11"], bounds={})))
    hs.append(H("w_nat", """        let n0: u64 = kani::any(); let minor: u8 = kani::any(); kani::assume(minor >= 7 && minor <= 11);
        kani::cover!(n0 >= 0x8000_0000, "reach-big");
        kani::cover!(n0 < 0x8000_0000, "reach-small");
        let b = ValueObj::Nat(n0).into_bytes(__pv(minor));
        let r = __ref_int(&b);
        assert!(r.is_some(), "wellformed: the bytes are a marshal int/long object");
        if let Some((v, n)) = r { assert!(v == n0 as i128, "value: unmarshals to the same natural number (2**31 and above included)"); assert!(n == b.len(), "length: no trailing bytes"); }
        std::mem::forget(b);""", "into_bytes/Nat", unwind=8, asserts={"wellformed": "", "value": "", "length": ""}, covers=["reach-big", "reach-small"],
                meta=dict(shape="ValueObj::Nat", symbolic=["n: u64 (all)", "minor 7..=11"], bounds={})))
    hs.append(H("w_float", """        let bits: u64 = kani::any(); let f = f64::from_bits(bits);
        kani::cover!(f.is_nan(), "reach-nan");
        kani::cover!(bits == 0x8000_0000_0000_0000, "reach-negzero");
        let b = ValueObj::from(f).into_bytes(__pv(11));
        assert!(b.len() == 9 && b[0] == b'g', "code: TYPE_BINARY_FLOAT followed by 8 bytes");
        if b.len() == 9 {
            let back = u64::from_le_bytes([b[1], b[2], b[3], b[4], b[5], b[6], b[7], b[8]]);
            assert!(back == bits, "bits: IEEE-754 little-endian, bit-exact (signed zero, infinities, NaN payload)");
        }
        std::mem::forget(b);""", "into_bytes/Float", asserts={"code": "", "bits": ""}, covers=["reach-nan", "reach-negzero"],
                meta=dict(shape="ValueObj::Float", symbolic=["all 2^64 bit patterns"], bounds={})))
    hs.append(H("w_bool_none", """        let x: bool = kani::any();
        kani::cover!(true, "reach");
        let b = ValueObj::Bool(x).into_bytes(__pv(11));
        assert!(b.len() == 1 && b[0] == (if x { b'T' } else { b'F' }), "bool: TYPE_TRUE / TYPE_FALSE");
        let n = ValueObj::None.into_bytes(__pv(11));
        assert!(n.len() == 1 && n[0] == b'N', "none: TYPE_NONE");
        std::mem::forget(b); std::mem::forget(n);""", "into_bytes/Bool,None", asserts={"bool": "", "none": ""}, covers=["reach"],
                meta=dict(shape="ValueObj::Bool / None", symbolic=["x: bool"], bounds={})))
    return hs


CLASS = {"A": 1, "2": 2, "3": 3, "4": 4}


def build_str(shape):
    n = sum(CLASS[c] for c in shape)
    lines = ["        let mut buf = [0u8; %d];" % max(n, 1)]
    off = 0
    for c in shape:
        w = CLASS[c]
        if w == 1:
            lines.append("        { let c: u8 = kani::any(); kani::assume(c < 0x80); buf[%d] = c; }" % off)
        else:
            lo = {2: 0x80, 3: 0x800, 4: 0x10000}[w]
            hi = {2: 0x7ff, 3: 0xffff, 4: 0x10ffff}[w]
            lines.append("        { let c: u32 = kani::any(); kani::assume(c >= %d && c <= %d && !(c >= 0xD800 && c <= 0xDFFF)); "
                         "let ch = char::from_u32(c).unwrap(); ch.encode_utf8(&mut buf[%d..%d]); }" % (lo, hi, off, off + w))
        off += w
    lines.append("        let s: &str = std::str::from_utf8(&buf[..%d]).unwrap();" % n)
    return lines, n


def writer_str(shape, interned):
    lines, n = build_str(shape)
    lines += [
        "        kani::cover!(true, \"reach\");",
        "        let b = str_into_bytes(Str::rc(s), %s);" % ("true" if interned else "false"),
        "        let r = __ref_str(&b);",
        "        assert!(r.is_some(), \"wellformed: the bytes are a marshal string object\");",
        "        if let Some((off, len, ascii_code)) = r {",
        "            assert!(len == %d && off + len == b.len(), \"length: the length field is the UTF-8 byte length and nothing trails\");" % n,
        "            let mut ok = true; let mut all_ascii = true; let mut j = 0;",
        "            while j < %d { if off + j < b.len() && b[off + j] != buf[j] { ok = false; } if buf[j] >= 0x80 { all_ascii = false; } j += 1; }" % n,
        "            assert!(ok, \"payload: the payload is the string's UTF-8 bytes\");",
        "            assert!(!ascii_code || all_ascii, \"ascii-code: an ASCII-only type code is used only for ASCII strings (CPython decodes it as latin-1)\");",
        "        }",
        "        std::mem::forget(b);",
    ]
    nm = "w_str_%s_%s" % (shape or "empty", "int" if interned else "pl")
    return H(nm, "\n".join(lines), "str_into_bytes/[%s]/%s" % (shape, "interned" if interned else "plain"), unwind=n + 3, stubs=ASCII_STUB,
             asserts={"wellformed": "", "length": "", "payload": "", "ascii-code": ""}, covers=["reach"],
             meta=dict(shape="string of UTF-8 width pattern [%s] (%d bytes)" % (shape, n),
                       symbolic=["every code point of each class (A: any ASCII, 2/3/4: any scalar value of that width)"],
                       bounds={"chars": len(shape)}, cost=n + 1))


ASCII_STUB = [("str::is_ascii", "__stub_is_ascii")]
COMMON_PRELUDE = r"""
    use crate::python_util::PythonVersion;
    /// std's str::is_ascii reads the string in usize words (31 s of CBMC for a 2-byte string); same meaning, byte loop
    pub fn __stub_is_ascii(s: &str) -> bool { let b = s.as_bytes(); let mut i = 0; while i < b.len() { if b[i] >= 0x80 { return false; } i += 1; } true }
    pub fn __ref_str(b: &[u8]) -> Option<(usize, usize, bool)> {
        if b.is_empty() { return None; }
        let code = b[0] & 0x7f;
        if code == b'z' || code == b'Z' {
            if b.len() < 2 { return None; }
            let n = b[1] as usize;
            if b.len() < 2 + n { return None; }
            return Some((2, n, true));
        }
        if code == b'u' || code == b't' || code == b'a' || code == b'A' || code == b's' {
            if b.len() < 5 { return None; }
            let n = u32::from_le_bytes([b[1], b[2], b[3], b[4]]) as usize;
            if b.len() < 5 + n { return None; }
            return Some((5, n, code == b'a' || code == b'A'));
        }
        None
    }
"""


def writer_strs(n, L):
    """strs_into_bytes of n names of L ASCII bytes each: a tuple header followed by n string objects"""
    lines = ["        let mut names: Vec<Str> = Vec::new();"]
    for i in range(n):
        lines.append("        let a%d: [u8; %d] = kani::any(); { let mut j = 0; while j < %d { kani::assume(a%d[j] < 0x80); j += 1; } }" % (i, L, L, i))
        lines.append("        names.push(Str::rc(std::str::from_utf8(&a%d).unwrap()));" % i)
    lines += ["        kani::cover!(true, \"reach\");",
              "        let b = strs_into_bytes(names);",
              "        assert!(b.len() >= 2 && b[0] == b')' && b[1] as usize == %d, \"header: TYPE_SMALL_TUPLE with the element count\");" % n,
              "        let mut off = 2usize; let mut ok = true;"]
    for i in range(n):
        lines.append("        match __ref_str(&b[off..]) { Some((o, l, _)) => { if l != %d { ok = false; } let mut j = 0; while j < %d { if b[off + o + j] != a%d[j] { ok = false; } j += 1; } off += o + l; } None => { ok = false; } }" % (L, L, i))
    lines += ["        assert!(ok, \"elements: every element is a well-formed string object with the name's bytes\");",
              "        assert!(off == b.len(), \"length: nothing trails the last element\");",
              "        std::mem::forget(b);"]
    return H("w_strs_%d_%d" % (n, L), "\n".join(lines), "strs_into_bytes/n=%d,len=%d" % (n, L), unwind=max(n, L) + 4, stubs=ASCII_STUB,
             asserts={"header": "", "elements": "", "length": ""}, covers=["reach"],
             meta=dict(shape="%d names of %d ASCII bytes" % (n, L), symbolic=["every name byte"], bounds={"names": n}, cost=n * L + 2))


def writer_raw(L):
    lines = ["        let a: [u8; %d] = kani::any();" % max(L, 1),
             "        kani::cover!(true, \"reach\");",
             "        let b = raw_string_into_bytes(a[..%d].to_vec());" % L,
             "        assert!(b.len() == 5 + %d && b[0] == b's' && u32::from_le_bytes([b[1], b[2], b[3], b[4]]) as usize == %d, \"header: TYPE_STRING with a 4-byte little-endian length\");" % (L, L),
             "        let mut ok = true; let mut j = 0; while j < %d { if b[5 + j] != a[j] { ok = false; } j += 1; }" % L,
             "        assert!(ok, \"payload: the bytes follow unchanged\");",
             "        std::mem::forget(b);"]
    return H("w_raw_%d" % L, "\n".join(lines), "raw_string_into_bytes/len=%d" % L, unwind=L + 4, asserts={"header": "", "payload": ""}, covers=["reach"],
             meta=dict(shape="%d arbitrary bytes (co_code / lnotab)" % L, symbolic=["every byte"], bounds={"bytes": L}, cost=L + 1))


def common_misc(hist_magics):
    hs = []
    hs.append(H("prefix_from", """        let b: u8 = kani::any();
        kani::cover!(true, "reach");
        let p = DataTypePrefix::from(b);
        assert!(p == DataTypePrefix::Illegal || p as u8 == b || p as u8 == (b | 0x80) || (p as u8 | 0x80) == b, "code: a recognised prefix is the byte itself, with or without FLAG_REF");""",
                "DataTypePrefix::from/all-bytes", asserts={"code": ""}, covers=["reach"],
                meta=dict(shape="every byte", symbolic=["b: u8"], bounds={})))
    hs.append(H("magic_total", """        let m: u32 = kani::any();
        kani::cover!(true, "reach");
        let b = get_magic_num_bytes(m & 0xffff);
        let back = get_magic_num_from_bytes(&b);
        assert!(back == (m & 0xffff), "rt: the 16-bit magic word survives the 4-byte header");
        match try_get_ver_from_magic_num(back) {
            Some(v) => { kani::cover!(true, "reach-known"); assert!(v.major == 3 && v.minor.is_some(), "major: a recognised magic word is a Python 3.x version"); }
            None => { kani::cover!(true, "reach-unknown"); }
        }""",
                "try_get_ver_from_magic_num/any-word", asserts={"rt": "", "major": ""}, covers=["reach", "reach-known", "reach-unknown"],
                meta=dict(shape="every 16-bit magic word as read from a .pyc header", symbolic=["m: u32"], bounds={})))
    return hs


ERR_STUBS = [("crate::ty::deserialize::DeserializeError::file_broken_error", "__stub_broken"),
             ("crate::ty::deserialize::DeserializeError::new", "__stub_err_new")]


def reader_leaf(L):
    """the reader's primitives on a buffer of L symbolic bytes: never a panic; Ok consumes exactly what it returns, Err otherwise"""
    hs = []
    body = """        let a: [u8; %d] = kani::any();
        let mut v: Vec<u8> = a[..%d].to_vec();
        kani::cover!(true, "reach");
        let r = Deserializer::deserialize_u32(&mut v);
        match &r {
            Ok(x) => { assert!(%d >= 4 && v.len() + 4 == %d && *x == u32::from_le_bytes([a[0], a[1], a[2], a[3]]), "value: little-endian u32, exactly 4 bytes consumed"); }
            Err(_) => { assert!(%d < 4, "short: an error only when fewer than 4 bytes are left"); }
        }
        std::mem::forget(r); std::mem::forget(v);""" % (max(L, 4), L, L, L, L)
    hs.append(H("r_u32_%d" % L, body, "deserialize_u32/len=%d" % L, unwind=L + 6, stubs=ERR_STUBS,
                asserts=({"value": ""} if L >= 4 else {"short": ""}),
                covers=["reach"], meta=dict(shape="buffer of %d bytes" % L, symbolic=["every byte"], bounds={"buffer_bytes": L}, cost=L + 1)))
    body = """        let mut a: [u8; %d] = kani::any();
        %s
        let mut v: Vec<u8> = a[..%d].to_vec();
        let des = Deserializer::new();
        kani::cover!(true, "reach");
        let r = des.deserialize_bytes(&mut v);
        match &r {
            Ok(bs) => {
                kani::cover!(true, "reach-ok");
                assert!(%d >= 5 && a[0] & 0x7f == b's' && bs.len() + 5 + v.len() == %d, "ok: a TYPE_STRING object; header and payload consumed exactly");
                let n = u32::from_le_bytes([a[1], a[2], a[3], a[4]]) as usize;
                assert!(bs.len() == n, "len: the payload has the length the header announces");
            }
            Err(_) => { kani::cover!(true, "reach-err"); }
        }
        std::mem::forget(r); std::mem::forget(v); std::mem::forget(des);"""
    # with a TYPE_STRING first byte the only error is a short buffer (file_broken_error, stubbed)
    hs.append(H("r_bytes_%d" % L, body % (max(L, 5), "a[0] = b's';" if L >= 1 else "", L, L, L), "deserialize_bytes/len=%d/first=s" % L, unwind=L + 6, stubs=ERR_STUBS,
                asserts=({"ok": "", "len": ""} if L >= 5 else {}),
                covers=["reach", "reach-err"] + (["reach-ok"] if L >= 5 else []),
                meta=dict(shape="buffer of %d bytes starting with TYPE_STRING" % L, symbolic=["every other byte"], bounds={"buffer_bytes": L}, cost=L + 2)))
    if L == 3:
        # any other first byte: the "failed to load bytes" error, whose construction evaluates fn_name!() (str::rfind over the
        # ~70-character type name) before the stubbed constructor is reached: unwind 100
        hs.append(H("r_bytes_other", body % (5, "kani::assume(a[0] != b's' && a[0] != 0xf3);", 3, 3, 3), "deserialize_bytes/len=3/first=other", unwind=100, stubs=ERR_STUBS,
                    asserts={}, covers=["reach", "reach-err"], cap=900,
                    meta=dict(shape="buffer of 3 bytes not starting with TYPE_STRING", symbolic=["every byte"], bounds={"buffer_bytes": 3}, cost=50)))
    return hs


def source_links(rep, dtxt, stxt):
    """source-level cross-check (no solver): every type code the writer functions can emit has an arm in the reader's
    deserialize_const, so that the compiler can read back what it writes"""
    enum = dict(re.findall(r"^\s*(\w+) = (b'[^']+'(?: \+ 0x80)?),", stxt, re.M))
    body = extract_fn(dtxt, "deserialize_const") or ""
    arms = set(re.findall(r"DataTypePrefix::(\w+)", body.split("other =>")[0]))
    writer_codes = {"Int32": "ValueObj::Int / small Nat", "BinFloat": "ValueObj::Float", "ShortAscii": "str_into_bytes (ASCII, not interned)",
                    "ShortAsciiInterned": "str_into_bytes (ASCII, interned)", "Unicode": "str_into_bytes (non-ASCII or long)",
                    "True": "Bool", "False": "Bool", "None": "None", "SmallTuple": "tuples up to 255 elements", "Tuple": "longer tuples", "Code": "nested code objects"}
    used = set(re.findall(r"DataTypePrefix::(\w+)", (extract_fn(stxt, "str_into_bytes") or "") + (extract_fn(stxt, "strs_into_bytes") or "")))
    for name in sorted(set(writer_codes) | (used - {"Str"})):
        ok = name in arms
        rep.add(Obligation(key="reader-accepts/%s" % name, engine="source scan (no solver)", functions=["Deserializer::deserialize_const", "str_into_bytes"],
                           verdict=HELD if ok else VIOLATED, nontrivial=False,
                           reason=("deserialize_const has an arm for DataTypePrefix::%s (%s)" % (name, writer_codes.get(name, "emitted by str_into_bytes/strs_into_bytes")))
                           if ok else ("the writer emits DataTypePrefix::%s (%s) but deserialize_const has no arm for it: the compiler cannot read back its own file" % (name, writer_codes.get(name, "str_into_bytes")))))


def run(tier, seed, only=None):
    rep = Report("C15", tier, seed, "other",
                 "Bounded model checking (Kani/CBMC) of the marshal writer (ValueObj::into_bytes scalar arms, str_into_bytes, strs_into_bytes, "
                 "raw_string_into_bytes) against a reference model of CPython's unmarshaller written in the harness — scalars over their whole machine "
                 "domain, strings per UTF-8 width pattern —, of the magic-number header, and of the reader's primitives (deserialize_u32, "
                 "deserialize_bytes) for totality on every buffer up to a stated length; plus a source-level link that every type code the writer "
                 "emits has an arm in the reader.  Deserializer::deserialize_const and CodeObj::from_bytes themselves are out of CBMC's reach "
                 "(Result<ValueObj, _>: symex > 400 s for a 5-byte buffer) and are not decided.", partial=bool(only))
    s = Scratch("c15")
    try:
        kc = KaniRun(s, "erg_common", "crates/erg_common", tier, workers=8, mem_gb=8, cap=300 if tier == "quick" else 1500)
        kk = KaniRun(s, "erg_compiler", "crates/erg_compiler", tier, workers=4, mem_gb=12, cap=400 if tier == "quick" else 1800)
        vtxt = s.read("crates/erg_compiler/ty/value.rs")
        dtxt = s.read("crates/erg_compiler/ty/deserialize.rs")
        stxt = s.read("crates/erg_common/serialize.rs")
        rep.add_function("ValueObj::into_bytes", "crates/erg_compiler/ty/value.rs", extract_fn(vtxt, "into_bytes"))
        for fn in ("deserialize_const", "deserialize_bytes", "deserialize_u32", "consume"):
            rep.add_function("Deserializer::" + fn, "crates/erg_compiler/ty/deserialize.rs", extract_fn(dtxt, fn))
        for fn in ("str_into_bytes", "strs_into_bytes", "raw_string_into_bytes", "try_get_ver_from_magic_num", "get_magic_num_bytes"):
            rep.add_function(fn, "crates/erg_common/serialize.rs", extract_fn(stxt, fn))
        source_links(rep, dtxt, stxt)
        if tier == "quick":
            shapes = ["", "A", "2", "4", "AA", "A3", "AAA", "3A", "AA2A"]
            strs = [(0, 0)]      # n >= 1 needs > 300 s (Vec<Str> iteration + Arc drop glue): thorough tier
            raws = [0, 1, 3]
            leafs = [0, 3, 4, 5, 7]
        else:
            shapes = [""] + ["".join(p) for k in (1, 2, 3) for p in itertools.product("A234", repeat=k)] + ["AAAA", "AA2A", "A4AA", "AAAAAAAA"]
            strs = [(0, 0), (1, 1), (2, 1), (2, 2), (3, 1), (3, 3)]
            raws = [0, 1, 2, 3, 4, 8]
            leafs = list(range(0, 10))
        ch = []
        for sh_ in shapes:
            ch.append(writer_str(sh_, False))
        for sh_ in ("A", "2", "AA"):
            ch.append(writer_str(sh_, True))
        for n, L in strs:
            ch.append(writer_strs(n, L))
        for L in raws:
            ch.append(writer_raw(L))
        ch += common_misc(None)
        for h in ch:
            if not only or only in h.name:
                kc.add("crates/erg_common/serialize.rs", h, COMMON_PRELUDE)
        kh = writer_scalars()
        for L in leafs:
            kh += reader_leaf(L)
        for h in kh:
            if not only or only in h.name:
                kk.add("crates/erg_compiler/ty/deserialize.rs", h, PRELUDE)
        import threading
        t1 = threading.Thread(target=kc.run)
        t1.start()
        kk.run()
        t1.join()
        for kr in (kc, kk):
            for h in kr.all_harnesses():
                for o in kr.obligations(h, functions=[h.role.split("/")[0]]):
                    rep.add(o)
        confirm_violations(rep, s, [kc, kk])
        rep.trusted += ["Kani 0.68, CBMC 6.11, CaDiCaL", "the marshal reference in props/c15.py (__ref_int, __ref_str; CPython marshal.c r_object for i l z Z u s)"]
        rep.assumptions += [
            "std::fmt::format stubbed (error message text is not the subject)",
            "str::is_ascii (std, word-at-a-time) is stubbed by a byte loop of the same meaning in the string-writer harnesses",
            "strings longer than the listed shapes, tuples, nested code objects and whole-program .pyc files are outside the claim",
            "Deserializer::deserialize_const / CodeObj::from_bytes / from_pyc are not decided (out of CBMC's reach); only their primitives are",
        ]
        rep.extra["kani_build_s"] = {"erg_common": kc.build_s, "erg_compiler": kk.build_s}
        return rep.finish()
    finally:
        s.cleanup()
