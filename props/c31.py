"""C31 — module path normalisation identifies only identical files.

Engine: Kani/CBMC over the real erg_common crate (overlay on pathutil.rs): NormalizedPathBuf::new =
normalize_path(cheap_canonicalize_path(p)) over std::path::Components.

Shape concrete, scalars symbolic: a shape fixes whether the path is absolute and the byte length (0, 1 or 2) of each
'/'-separated component; every component byte is a solver variable over {'.', 'a', 'b'}, so the *kind* of every
component (".", "..", a name) is symbolic without changing the string length.  Oracle: lexical resolution written in the
harness (a stack machine; a `..` that has nothing to pop is kept in a relative path and dropped at the root of an absolute
one).  Asserting `new(p) == canon(p)` for every p of a shape gives both halves of the property: canon is idempotent and
two paths with equal canon forms resolve to the same file, and leading `..` components survive."""
import itertools
import random

from common import (BROKEN, HELD, INCONCLUSIVE, VIOLATED, Obligation, Report, Scratch, extract_fn, log)
from kani import Harness, KaniRun, confirm_violations

PRELUDE = r"""
    use std::os::unix::ffi::OsStrExt;
    pub fn __abc(b: u8) -> bool { b == b'.' || b == b'a' || b == b'b' }
"""


def shape_name(absolute, lens):
    return ("abs" if absolute else "rel") + "_" + ("".join(map(str, lens)) or "none")


def harness(absolute, lens, idem=False, canon_only=False):
    n = (1 if absolute else 0) + sum(lens) + max(len(lens) - 1, 0)
    L = ["        let mut buf = [0u8; %d];" % max(n, 1)]
    offs = []
    pos = 0
    if absolute:
        L.append("        buf[0] = b'/';")
        pos = 1
    for i, l in enumerate(lens):
        if i > 0:
            L.append("        buf[%d] = b'/';" % pos)
            pos += 1
        offs.append(pos)
        for k in range(l):
            L.append("        { let c: u8 = kani::any(); kani::assume(__abc(c)); buf[%d] = c; }" % (pos + k))
        pos += l
    assert pos == n
    L.append("        let s: &str = std::str::from_utf8(&buf[..%d]).unwrap();" % n)
    # reference: lexical resolution
    m = max(len(lens), 1)
    L.append("        let mut st_off = [0usize; %d]; let mut st_len = [0usize; %d]; let mut depth = 0usize; let mut lead = 0usize;" % (m, m))
    for off, l in zip(offs, lens):
        if l == 0:
            continue
        if l == 1:
            L.append("        if buf[%d] == b'.' {} else { st_off[depth] = %d; st_len[depth] = 1; depth += 1; }" % (off, off))
        else:
            L.append("        if buf[%d] == b'.' && buf[%d] == b'.' { if depth > 0 { depth -= 1; } else if %s { lead += 1; } } else { st_off[depth] = %d; st_len[depth] = 2; depth += 1; }"
                     % (off, off + 1, "false" if absolute else "true", off))
    M = n + 2
    L.append("        let mut exp = [0u8; %d]; let mut el = 0usize;" % M)
    if absolute:
        L.append("        exp[0] = b'/'; el = 1;")
    L.append("        let mut first = true;")
    L.append("        let mut i = 0; while i < lead { if !first { exp[el] = b'/'; el += 1; } exp[el] = b'.'; exp[el + 1] = b'.'; el += 2; first = false; i += 1; }")
    L.append("        let mut i = 0; while i < depth { if !first { exp[el] = b'/'; el += 1; } let mut k = 0; while k < st_len[i] { exp[el] = buf[st_off[i] + k]; el += 1; k += 1; } first = false; i += 1; }")
    L.append("        kani::cover!(true, \"reach\");")
    if any(l == 2 for l in lens):
        L.append("        kani::cover!(lead > 0 || depth < %d, \"reach-dots\");" % len([l for l in lens if l > 0]))
    if canon_only:
        L.append("        let out = cheap_canonicalize_path(Path::new(s));")
    else:
        L.append("        let out = NormalizedPathBuf::new(PathBuf::from(s));")
    L.append("        let ob = out.as_os_str().as_bytes();")
    L.append("        assert!(ob.len() == el, \"canon-len: the normal form has the length of the lexically resolved path\");")
    L.append("        let mut ok = true; let mut j = 0; while j < el { if j < ob.len() && ob[j] != exp[j] { ok = false; } j += 1; }")
    L.append("        assert!(ok, \"canon: the normal form is the lexically resolved path (leading `..` of a relative path kept, `.` and resolvable `..` removed)\");")
    asserts = {"canon-len": "", "canon": ""}
    if idem:
        L.append("        let again = NormalizedPathBuf::new(out.to_path_buf());")
        L.append("        assert!(again == out, \"idempotent: normalising a normal form changes nothing\");")
        L.append("        std::mem::forget(again);")
        asserts["idempotent"] = ""
    L.append("        std::mem::forget(out);")
    nm = ("cc_" if canon_only else "") + shape_name(absolute, lens) + ("_idem" if idem else "")
    return Harness(nm, "\n".join(L), "%s/%s%s" % ("cheap_canonicalize_path" if canon_only else "NormalizedPathBuf::new", shape_name(absolute, lens), "/idem" if idem else ""),
                   unwind=n + 4, fmt_stub=True, asserts=asserts,
                   covers=["reach"] + (["reach-dots"] if any(l == 2 for l in lens) else []),
                   meta=dict(shape="%s path, component byte lengths %s (%d bytes)" % ("absolute" if absolute else "relative", lens, n),
                             symbolic=["every component byte over {'.', 'a', 'b'} (so each component is symbolically `.`, `..` or a name)"],
                             bounds={"components": len(lens), "bytes": n}, cost=n * n + (n * n if idem else 0)))


def shapes(tier, seed):
    if tier == "quick":
        base = [(False, []), (False, [1]), (False, [2]), (True, [1]), (True, [2]), (False, [2, 1]), (False, [1, 2]), (False, [2, 2]),
                (True, [2, 1]), (True, [1, 2]), (False, [2, 2, 1]), (False, [1, 2, 2]), (True, [2, 2, 1]), (False, [1, 0, 1]), (False, [2, 1, 2, 1])]
        idem = [(False, [2, 1]), (True, [1, 2])]
        rnd = random.Random(seed)
        pool = [(a, list(l)) for a in (False, True) for k in (3, 4) for l in itertools.product((1, 2), repeat=k)]
        pool = [p for p in pool if p not in base]
        rnd.shuffle(pool)
        return base + pool[:3], idem
    base = [(a, list(l)) for a in (False, True) for k in range(0, 5) for l in itertools.product((1, 2), repeat=k)] + \
           [(False, [1, 0, 1]), (True, [2, 0, 2]), (False, [2, 2, 2, 2, 1]), (False, [2, 1, 2, 1, 2, 1]), (True, [1, 2, 1, 2, 1, 2])]
    idem = [(a, list(l)) for a in (False, True) for k in (1, 2, 3) for l in itertools.product((1, 2), repeat=k)]
    return base, idem


def run(tier, seed, only=None):
    rep = Report("C31", tier, seed, "other",
                 "Bounded model checking (Kani/CBMC) of NormalizedPathBuf::new (normalize_path . cheap_canonicalize_path over "
                 "std::path::Components) against lexical path resolution written in the harness: for every path of each listed shape "
                 "(absolute/relative, component byte lengths; every component byte symbolic over {., a, b}, so component kinds are symbolic) "
                 "the normal form equals the resolved path, which implies idempotence, that equal normal forms name the same file, and that "
                 "leading `..` components of relative paths survive; idempotence is also asserted directly on small shapes.", partial=bool(only))
    s = Scratch("c31")
    try:
        kr = KaniRun(s, "erg_common", "crates/erg_common", tier, workers=10, mem_gb=8, cap=300 if tier == "quick" else 1500)
        ltxt = s.read("crates/erg_common/lib.rs")
        ptxt = s.read("crates/erg_common/pathutil.rs")
        rep.add_function("cheap_canonicalize_path", "crates/erg_common/lib.rs", extract_fn(ltxt, "cheap_canonicalize_path"))
        rep.add_function("normalize_path", "crates/erg_common/lib.rs", extract_fn(ltxt, "normalize_path"))
        rep.add_function("NormalizedPathBuf::new", "crates/erg_common/pathutil.rs", extract_fn(ptxt, "new"))
        base, idem = shapes(tier, seed)
        for a, l in base:
            kr.add("crates/erg_common/pathutil.rs", harness(a, l), PRELUDE)
            kr.add("crates/erg_common/pathutil.rs", harness(a, l, canon_only=True), PRELUDE)
        for a, l in idem:
            kr.add("crates/erg_common/pathutil.rs", harness(a, l, idem=True), PRELUDE)
        if only:
            for f in kr.frags.values():
                f["harnesses"] = [h for h in f["harnesses"] if only in h.name]
        kr.run()
        for h in kr.all_harnesses():
            for o in kr.obligations(h, functions=["NormalizedPathBuf::new", "cheap_canonicalize_path", "normalize_path"]):
                rep.add(o)
        confirm_violations(rep, s, [kr])
        rep.trusted += ["Kani 0.68, CBMC 6.11, CaDiCaL", "std::path::{Components, PathBuf::push/pop} as compiled from std",
                        "the lexical-resolution reference in props/c31.py"]
        rep.assumptions += [
            "Unix path syntax, CASE_SENSITIVE as built on this platform (normalize_path lower-cases only when it is false)",
            "component names over the alphabet {'.', 'a', 'b'}, 1 or 2 bytes each (an empty component stands for `//`); longer names and more components than listed are outside the claim",
            "symbolic links and the file system are outside: the reference is lexical resolution",
        ]
        rep.extra["shapes"] = [shape_name(a, l) for a, l in base]
        rep.extra["kani_build_s"] = kr.build_s
        return rep.finish()
    finally:
        s.cleanup()
