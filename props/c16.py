"""C16 — opcode and magic-number tables match each CPython version.
Engine: Kani over erg_common (opcode*.rs, serialize.rs) and erg_compiler (ty/codeobj.rs).
Oracle: generated at check time from the installed interpreters."""
import glob
import json
import os
import re
import subprocess

from common import (HELD, VIOLATED, INCONCLUSIVE, BROKEN, Obligation, Report, Scratch, extract_fn, log)
from kani import Harness, KaniRun, confirm_violations

TABLE_OF = {7: "308", 8: "308", 9: "309", 10: "310", 11: "311"}
PY = {v: sorted(glob.glob("/root/.pyenv/versions/3.%d.*/bin/python" % v)) for v in (7, 8, 9, 10, 11, 12)}

ORACLE_SNIPPET = r"""
import dis, importlib.util, json, sys
print(json.dumps({"opmap": dis.opmap, "hasjrel": sorted(dis.hasjrel), "hasjabs": sorted(dis.hasjabs),
  "magic": int.from_bytes(importlib.util.MAGIC_NUMBER[:2], "little"), "minor": sys.version_info[1]}))
"""


def oracle():
    ref = {}
    for v, paths in PY.items():
        if not paths:
            continue
        out = subprocess.run([paths[-1], "-c", ORACLE_SNIPPET], capture_output=True, text=True, timeout=60)
        if out.returncode == 0:
            ref[v] = json.loads(out.stdout)
    # the history of magic numbers, from the newest installed interpreter's own stdlib source
    hist = {}
    for v in sorted(ref, reverse=True):
        lib = os.path.join(os.path.dirname(os.path.dirname(PY[v][-1])), "lib", "python3.%d" % v,
                           "importlib", "_bootstrap_external.py")
        if os.path.exists(lib):
            for m in re.finditer(r"#\s+Python 3\.(\d+)\w*\s+(\d{4})\b", open(lib).read()):
                hist.setdefault(int(m.group(2)), int(m.group(1)))
            break
    for v, r in ref.items():
        hist[r["magic"]] = v
    return ref, hist


def table_variants(scratch, table):
    txt = scratch.read("crates/erg_common/opcode%s.rs" % table)
    m = re.search(r"impl_u8_enum!\s*\{\s*Opcode%s;(.*?)\n\}" % table, txt, re.S)
    body = re.sub(r"//[^\n]*", "", m.group(1))
    return [(a, int(b)) for a, b in re.findall(r"\b([A-Z][A-Z0-9_]*)\s*=\s*(\d+)", body)], txt


def run(tier, seed, only=None):
    rep = Report("C16", tier, seed, "other",
                 "Bounded model checking (Kani/CBMC, SAT) of the compiled opcode tables, jump classification, "
                 "jump-target arithmetic and magic-number mapping against tables generated at check time from the "
                 "installed CPython 3.7-3.12 interpreters; the byte / u32 / (idx,arg) inputs are solver variables over "
                 "their whole range, per (version, opcode) shape.", partial=bool(only))
    ref, hist = oracle()
    if len(ref) < 3:
        log("MACHINERY-ERROR: fewer than 3 reference interpreters available")
        return 2
    rep.trusted += ["dis.opmap/hasjrel/hasjabs and importlib.util.MAGIC_NUMBER of the installed interpreters",
                    "magic-number history comment in importlib/_bootstrap_external.py", "Kani 0.68, CBMC 6.11, CaDiCaL"]
    s = Scratch("c16")
    try:
        kc = KaniRun(s, "erg_common", "crates/erg_common", tier, workers=6, mem_gb=8, cap=240)
        kk = KaniRun(s, "erg_compiler", "crates/erg_compiler", tier, workers=6, mem_gb=10, cap=400)
        prelude = "    use crate::opcode308::Opcode308; use crate::opcode309::Opcode309; use crate::opcode310::Opcode310; use crate::opcode311::Opcode311;\n"
        tables = {}
        for t in sorted(set(TABLE_OF.values())):
            tables[t], txt = table_variants(s, t)
            rep.add_function("Opcode%s::{try_from, from}" % t, "crates/erg_common/opcode%s.rs" % t, txt)
        optxt = s.read("crates/erg_common/opcode.rs")
        rep.add_function("CommonOpcode::is_jump_op", "crates/erg_common/opcode.rs", extract_fn(optxt, "is_jump_op"))
        sertxt = s.read("crates/erg_common/serialize.rs")
        for fn in ("get_ver_from_magic_num", "get_magic_num_bytes", "get_magic_num_from_bytes"):
            rep.add_function(fn, "crates/erg_common/serialize.rs", extract_fn(sertxt, fn))
        cotxt = s.read("crates/erg_compiler/ty/codeobj.rs")
        for fn in ("jump_abs_addr", "jump_abs_addr_309", "jump_abs_addr_310", "jump_abs_addr_311"):
            rep.add_function(fn, "crates/erg_compiler/ty/codeobj.rs", extract_fn(cotxt, fn))
        erg_only = {}
        for v, t in TABLE_OF.items():
            if v not in ref:
                continue
            opmap = ref[v]["opmap"]
            names = tables[t]
            both = [(n, num) for n, num in names if n in opmap]
            erg_only[v] = [n for n, _ in names if n not in opmap]
            # (1) per-name numbers: compile-time constants of the real enum against dis.opmap
            body = "\n".join('        assert!(Opcode%s::%s as u8 == %d, "num-%s: Opcode%s::%s must be %d as in CPython 3.%d");'
                             % (t, n, opmap[n], n, t, n, opmap[n], v) for n, _ in both)
            # the witness comes first: a failing assertion cuts the path, and a witness placed after it would turn a
            # genuine violation into "vacuity witness not reachable"
            body = "        kani::cover!(true, \"reach\");\n" + body
            hn = Harness(
                "names_%s_py3%d" % (t, v), body, "Opcode%s/py3.%d/numbers" % (t, v),
                asserts={"num-" + n: "number equals dis.opmap" for n, _ in both}, covers=["reach"],
                meta=dict(shape="every variant name shared with CPython 3.%d (%d names)" % (v, len(both)),
                          symbolic=[], bounds={}))
            hn.aggregate = True
            kc.add("crates/erg_common/opcode.rs", hn, prelude)
            # (2) round trip for every byte, and every accepted byte is an opcode of the interpreter
            known = [False] * 256
            for n, num in opmap.items():
                if num < 256:
                    known[num] = True
            for n, num in names:
                if n not in opmap:
                    known[num] = True      # erg-only names are exempt (listed in the evidence)
            body = """        const KNOWN: [bool; 256] = [%s];
        let b: u8 = kani::any();
        match Opcode%s::try_from(b) {
            Ok(op) => {
                kani::cover!(true, "reach-ok");
                assert!(u8::from(op) == b, "rt: u8::from(try_from(b)) == b");
                assert!(KNOWN[b as usize], "defined: accepted byte is an opcode number of CPython 3.%d");
            }
            Err(_) => { kani::cover!(true, "reach-err"); }
        }""" % (",".join("true" if k else "false" for k in known), t, v)
            kc.add("crates/erg_common/opcode.rs", Harness(
                "bytes_%s_py3%d" % (t, v), body, "Opcode%s/py3.%d/bytes" % (t, v),
                asserts={"rt": "byte -> opcode -> byte is the identity", "defined": "accepted byte is defined by the interpreter (names that exist only in erg's table are exempt and listed)"},
                covers=["reach-ok", "reach-err"],
                meta=dict(shape="table %s vs CPython 3.%d" % (t, v), symbolic=["b: u8 (all 256)"], bounds={})), prelude)
            # (3) jump classification
            jset = sorted(set(ref[v]["hasjrel"]) | set(ref[v]["hasjabs"]))
            intable = {num: n for n, num in names}
            isj = [False] * 256
            for j in jset:
                if j < 256:
                    isj[j] = True
            asserts = {}
            lines = ["        let b: u8 = kani::any(); let sel: u16 = kani::any();",
                     "        const JUMP: [bool; 256] = [%s];" % ",".join("true" if k else "false" for k in isj),
                     "        if sel == 0 && Opcode%s::try_from(b).is_ok() && !JUMP[b as usize] {" % t,
                     "            kani::cover!(true, \"reach-nonjump\");",
                     "            assert!(!CommonOpcode::is_jump_op(b), \"nonjump: a byte that is no jump in CPython 3.%d is not classified as a jump\");" % v,
                     "        }"]
            asserts["nonjump"] = "no non-jump opcode of the table is classified as a jump"
            k = 0
            for j in jset:
                if j in intable and j < 256:
                    k += 1
                    aid = "jump-%s" % intable[j]
                    lines.append("        if sel == %d { assert!(CommonOpcode::is_jump_op(%d), \"%s: %s (%d) is a jump in CPython 3.%d\"); }" % (k, j, aid, intable[j], j, v))
                    asserts[aid] = "classified as a jump like dis.hasjrel/hasjabs"
            kc.add("crates/erg_common/opcode.rs", Harness(
                "jumpclass_py3%d" % v, "\n".join(lines), "is_jump_op/py3.%d" % v, unwind=20,
                asserts=asserts, covers=["reach-nonjump"],
                meta=dict(shape="CPython 3.%d jump set %s" % (v, jset), symbolic=["b: u8 (all 256)"], bounds={})), prelude)
            # (4) jump target arithmetic (erg_compiler)
            rel, ab = set(ref[v]["hasjrel"]), set(ref[v]["hasjabs"])
            for j in jset:
                if j not in intable or j >= 256:
                    continue
                n = intable[j]
                mul = 2 if v >= 10 else 1
                if j in rel:
                    if "BACKWARD" in n:
                        refx = "(idx as i64) + 2 - (arg as i64) * %d" % mul
                    else:
                        refx = "(idx as i64) + 2 + (arg as i64) * %d" % mul
                else:
                    refx = "(arg as i64) * %d" % mul
                body = """        let idx: usize = kani::any(); let arg: usize = kani::any();
        kani::assume(idx < 65536 && arg < 65536 && idx %% 2 == 0);
        let want: i64 = %s;
        kani::assume(want >= 0);
        kani::cover!(true, "reach");
        let got = jump_abs_addr(%d, %d, idx, arg);
        assert!(got as i64 == want, "target: jump target equals dis's formula");""" % (refx, v, j)
                kk.add("crates/erg_compiler/ty/codeobj.rs", Harness(
                    "jaddr_py3%d_%s" % (v, n), body, "jump_abs_addr/py3.%d/%s" % (v, n), fmt_stub=True,
                    asserts={"target": "target = dis formula (%s)" % refx}, covers=["reach"],
                    meta=dict(shape="(3.%d, %s=%d, %s)" % (v, n, j, "relative" if j in rel else "absolute"),
                              symbolic=["idx: even usize < 2^16", "arg: usize < 2^16"],
                              bounds={"assume": "target >= 0 (inside the code)"})))
        rep.extra["names_only_in_erg_table"] = erg_only
        # (5) magic numbers
        finals = {v: r["magic"] for v, r in ref.items()}
        body = "\n".join('        assert!(get_ver_from_magic_num(%d).minor == Some(%d) && get_ver_from_magic_num(%d).major == 3, "final-3.%d: MAGIC_NUMBER of the installed 3.%d maps to 3.%d");'
                         % (m, v, m, v, v, v) for v, m in sorted(finals.items()))
        body = '        kani::cover!(true, "reach");\n' + body
        kc.add("crates/erg_common/serialize.rs", Harness(
            "magic_finals", body, "get_ver_from_magic_num/finals",
            asserts={"final-3.%d" % v: "installed interpreter's magic number maps to its version" for v in finals},
            covers=["reach"], meta=dict(shape="magic numbers %s" % finals, symbolic=[], bounds={})))
        hl = sorted(hist.items())
        body = """        const HM: [u32; %d] = [%s];
        const HV: [u8; %d] = [%s];
        let m: u32 = kani::any();
        let v = get_ver_from_magic_num(m);   // panics on unknown words: that is C15's subject, see ignore list
        kani::cover!(true, "reach");
        let mut i = 0;
        while i < HM.len() {
            if HM[i] == m { assert!(v.minor == Some(HV[i]), "owner: a magic number CPython used for 3.x is attributed to 3.x"); }
            i += 1;
        }
        assert!(v.major == 3, "major: major version is 3");""" % (
            len(hl), ",".join(str(a) for a, _ in hl), len(hl), ",".join(str(b) for _, b in hl))
        h = Harness("magic_owner", body, "get_ver_from_magic_num/all-u32", unwind=len(hl) + 2,
                    asserts={"owner": "no magic number of another CPython version is attributed to a version",
                             "major": "major is 3"}, covers=["reach"],
                    meta=dict(shape="every u32", symbolic=["m: u32 (all 2^32)"],
                              bounds={"history": "%d magic numbers 3.0-3.12 from importlib/_bootstrap_external.py" % len(hl)}))
        h.ignore_panics = [r"unknown magic number"]
        kc.add("crates/erg_common/serialize.rs", h)
        body = """        let m: u32 = kani::any();
        kani::assume(m < 65536);
        kani::cover!(true, "reach");
        let b = get_magic_num_bytes(m);
        assert!(get_magic_num_from_bytes(&b) == m, "rt: from_bytes(bytes(m)) == m");
        assert!(b[2] == 0x0d && b[3] == 0x0a, "crlf: bytes 2..4 are \\\\r\\\\n as in every CPython magic");"""
        kc.add("crates/erg_common/serialize.rs", Harness(
            "magic_bytes", body, "get_magic_num_bytes/u16",
            asserts={"rt": "16-bit magic round-trips", "crlf": "suffix is CR LF"}, covers=["reach"],
            meta=dict(shape="m < 2^16", symbolic=["m: u32 < 65536"], bounds={})))

        for kr in (kc, kk):
            if only:
                for f in kr.frags.values():
                    f["harnesses"] = [h for h in f["harnesses"] if only in h.name]
        import threading
        t1 = threading.Thread(target=kc.run)
        t1.start()
        kk.run()
        t1.join()
        for kr in (kc, kk):
            for h in kr.all_harnesses():
                fns = [k for k in rep.functions]
                obs = kr.obligations(h, functions=[h.role.split("/")[0]])
                ign = getattr(h, "ignore_panics", [])
                for o in obs:
                    if ign and "/panic:" in o["key"] and any(re.search(p, o["key"]) for p in ign):
                        continue
                    if not h.meta.get("symbolic"):
                        o["nontrivial"] = False
                    rep.add(o)
        confirm_violations(rep, s, [kc, kk])
        rep.assumptions += [
            "opcode table used per target: " + json.dumps(TABLE_OF) + " (as selected in codegen.rs)",
            "names that exist only in erg's table for a version are listed (coverage.names_only_in_erg_table), not failed",
            "the panic of get_ver_from_magic_num on unknown words is decided under C15 (reader totality), not here",
            "jump_abs_addr: idx even < 2^16, arg < 2^16, target >= 0",
            "std::fmt::format stubbed in the jump_abs_addr harnesses (todo!/unreachable! message text is not the subject)",
        ]
        rep.extra["kani_build_s"] = {"erg_common": kc.build_s, "erg_compiler": kk.build_s}
        return rep.finish()
    finally:
        s.cleanup()
