"""C03 — refinement subtyping is sound for integer predicates (kernel: the predicate-implication judgement).

`{I: Int | P}` is accepted where `{I: Int | Q}` is required when `Context::is_super_pred_of(Q, P)` answers true (the refinement
arm of `structural_supertype_of` ends there).  The property is then: `is_super_pred_of(Q, P)` implies that every integer
satisfying P satisfies Q.

Engine: `mirsem` (engines/mirsem.py) — the rustc MIR of `is_super_pred_of` is executed symbolically on operand *shapes*
(atoms `I == n`, `I >= n`, `I <= n`, `I != n`, `True/False`, `And`, `Or` of those) whose bounds `n` are unbounded z3 integers
and whose atom kinds may themselves be solver variables.  Closures and the `TyParamOrdering` predicates are inlined from the
same MIR dump, the recursive calls on sub-predicates are inlined too (mode `concrete`) or replaced by the induction hypothesis
"a true answer implies inclusion" on opaque sub-predicates (mode `rule`: one inductive step).  For each path z3 decides

        path condition  AND  result is true  AND  i0 satisfies P  AND  NOT (i0 satisfies Q)        is unsatisfiable.

A satisfying assignment is a concrete pair of predicates and an integer; it is rebuilt as `Predicate` values and run through the
real `is_super_pred_of` on a real `Context` (and, in the thorough tier, through `erg check` / `erg run` of a generated program).
Contracts assumed for callees on the integer-literal domain (`try_cmp`, `supertype_of_tp`, `TyParam` equality, `has_*_bound`,
`reduce_preds`, std's `Option`/iterator adaptors, `erg_common::Set::get_by`) are validated natively on every run."""
import itertools
import os
import re
import time

import z3

import mir2smt as M
import mirsem as S
from common import (BROKEN, HELD, INCONCLUSIVE, VIOLATED, Obligation, Report, Scratch, extract_fn, log, sh)
from mirflow import DISC, Ref, Unsupported, V, const, fun
from native import NativeRun

ATOMS = ["Equal", "GreaterEqual", "LessEqual", "NotEqual"]
SHORT = {"Equal": "Eq", "GreaterEqual": "Ge", "LessEqual": "Le", "NotEqual": "Ne"}
VAL = z3.Function("VAL", V, z3.IntSort())
DENF = z3.Function("DEN", V, z3.IntSort(), z3.BoolSort())
I0 = z3.Int("i0")


def rel(kind, i, n):
    return {"Equal": i == n, "GreaterEqual": i >= n, "LessEqual": i <= n, "NotEqual": i != n}[kind]


# ---------------------------------------------------------------------------------------------
# shapes:  ("atom", kind|None) | ("leaf",) | ("bool",) | ("and", x, y) | ("or", [x, ...])

def shape_name(sp):
    if sp[0] == "atom":
        return SHORT[sp[1]] if sp[1] else "a"
    if sp[0] == "leaf":
        return "p"
    if sp[0] == "bool":
        return "Bool"
    if sp[0] == "and":
        return "And(%s,%s)" % (shape_name(sp[1]), shape_name(sp[2]))
    if sp[0] == "not":
        return "Not(%s)" % shape_name(sp[1])
    return "Or(%s)" % ",".join(shape_name(x) for x in sp[1])


class World:
    """one symbolic run: the operand values, their denotation at i0, the callee models"""

    def __init__(self, fns, vidx, mode, choices=()):
        self.fns, self.vidx, self.mode = fns, vidx, mode
        self.choices = list(choices)
        self.arity = []
        self.atoms = {}          # name -> z3 term
        self.bools = {}
        self.pidx = {v: i for i, v in enumerate(vidx["Predicate"])}
        self.oidx = {v: i for i, v in enumerate(vidx["TyParamOrdering"])}
        self.main = [f for f in fns.values() if f.short == "is_super_pred_of"]
        self.models_used = set()
        self.flow = None

    # ---- construction of operands
    def build(self, P, sp, name, under_and=False):
        pl = "p_" + name
        if sp[0] in ("atom", "leaf"):
            t = const(name)
            if sp[0] == "atom":
                kinds = [sp[1]] if sp[1] else ATOMS
                P.pc.append(z3.Or([DISC(t) == self.pidx[k] for k in kinds]))
                for k in ATOMS:
                    n = VAL(fun("field1", 1)(fun("as_" + k, 1)(t)))
                    P.pc.append(z3.Implies(DISC(t) == self.pidx[k], DENF(t, I0) == rel(k, I0, n)))
                self.atoms[name] = t
            else:
                P.pc.append(z3.And(DISC(t) >= 0, DISC(t) < len(self.pidx)))
                vo = fun("field0", 1)(fun("as_Value", 1)(t))          # an opaque predicate that happens to be Value(Bool b) denotes b
                bidx = self.vidx["ValueObj"].index("Bool")
                P.pc.append(z3.Implies(z3.And(DISC(t) == self.pidx["Value"], DISC(vo) == bidx),
                                       DENF(t, I0) == (DISC(S.SV(fun("field0", 1)(fun("as_Bool", 1)(vo)))) != 0)))
                if under_and:
                    P.pc.append(DISC(t) != self.pidx["And"])
            P.locals[pl] = t
        elif sp[0] == "bool":
            b = const(name + "_b")
            P.pc.append(z3.Or(DISC(S.SV(b)) == 0, DISC(S.SV(b)) == 1))
            self.bools[name] = b
            P.locals[pl] = ("agg", "predicate::Predicate::Value", [("agg", "value::ValueObj::Bool", [b])])
        elif sp[0] == "and":
            l = self.build(P, sp[1], name + "l", True)
            r = self.build(P, sp[2], name + "r", True)
            P.locals[pl] = ("agg", "predicate::Predicate::And", [self.box(l), self.box(r)])
        elif sp[0] == "or":
            el = [self.build(P, x, "%so%d" % (name, i)) for i, x in enumerate(sp[1])]
            P.locals[pl] = ("agg", "predicate::Predicate::Or", [("set", el)])
        elif sp[0] == "not":
            P.locals[pl] = ("agg", "predicate::Predicate::Not", [self.box(self.build(P, sp[1], name + "n"))])
        else:
            raise ValueError(sp)
        return Ref(pl)

    @staticmethod
    def box(ref):
        return ("agg", "Box", [("agg", "Unique", [ref])])

    @staticmethod
    def unbox(b):
        return b[2][0][2][0]

    # ---- denotation at i0
    def den(self, P, v):
        v = self.flow.deref_all(P, v)
        if z3.is_expr(v):
            return DENF(v, I0)
        if isinstance(v, tuple) and v[0] == "agg":
            last = v[1].split("::")[-1]
            if last == "And":
                return z3.And(self.den(P, self.unbox(v[2][0])), self.den(P, self.unbox(v[2][1])))
            if last == "Or":
                return z3.Or([self.den(P, e) for e in v[2][0][1]])
            if last == "Value":
                return S.truth(self.flow, v[2][0][2][0])
            if last == "Not":
                return z3.Not(self.den(P, self.unbox(v[2][0])))
            if last in ATOMS:
                return rel(last, I0, VAL(self.flow.term(v[2][1])))
        raise Unsupported("denotation of %r" % (v,))

    def as_atom(self, x):
        """[(condition, kind, bound)] when x is an atom (a symbolic atom term or an atom aggregate), else None"""
        if z3.is_expr(x) and any(x.eq(t) for t in self.atoms.values()):
            return [(DISC(x) == self.pidx[k], k, VAL(fun("field1", 1)(fun("as_" + k, 1)(x)))) for k in ATOMS]
        if isinstance(x, tuple) and x[0] == "agg" and x[1].split("::")[-1] in ATOMS:
            return [(z3.BoolVal(True), x[1].split("::")[-1], VAL(self.flow.term(x[2][1])))]
        return None

    def struct_eq(self, P, a, b):
        """(z3 Bool, exact?) for structural equality of two predicate values"""
        a, b = self.flow.deref_all(P, a), self.flow.deref_all(P, b)
        aa, ab = self.as_atom(a), self.as_atom(b)
        if aa and ab:
            return z3.Or([z3.And(ca, cb, va == vb) for ca, ka, va in aa for cb, kb, vb in ab if ka == kb]), True
        agg = lambda x: isinstance(x, tuple) and x[0] == "agg"
        if (aa and agg(b)) or (ab and agg(a)):
            return z3.BoolVal(False), True
        if agg(a) and agg(b):
            la, lb = a[1].split("::")[-1], b[1].split("::")[-1]
            if la != lb:
                return z3.BoolVal(False), True
            if la == "Value":
                return S.truth(self.flow, a[2][0][2][0]) == S.truth(self.flow, b[2][0][2][0]), True
            if la == "Not":
                return self.struct_eq(P, self.unbox(a[2][0]), self.unbox(b[2][0]))
            if la == "And":
                e0, x0 = self.struct_eq(P, self.unbox(a[2][0]), self.unbox(b[2][0]))
                e1, x1 = self.struct_eq(P, self.unbox(a[2][1]), self.unbox(b[2][1]))
                if x0 and x1:
                    return z3.And(e0, e1), True
        e = z3.Bool("eq_%d" % self.flow.ctr.next())
        P.pc.append(z3.Implies(e, self.den(P, a) == self.den(P, b)))
        return e, False

    # ---- sets
    def mkset_refs(self, P, elems):
        """a Set<&Predicate>: one slot place per element, holding the reference"""
        return ("set", [self.flow.new_place(P, "pslot", e) for e in elems])

    def flatten_and(self, P, ref):
        v = self.flow.deref_all(P, ref)
        if isinstance(v, tuple) and v[0] == "agg" and v[1].endswith("::And"):
            return self.flatten_and(P, self.unbox(v[2][0])) + self.flatten_and(P, self.unbox(v[2][1]))
        return [self.lastref(P, ref)]

    def lastref(self, P, ref):
        """the innermost reference of a chain (a reference to the place that holds the predicate value)"""
        cur = ref
        for _ in range(8):
            v = self.flow.read(P, cur.local, list(cur.path))
            if isinstance(v, Ref):
                cur = v
            else:
                return cur
        raise Unsupported("reference chain")

    def choose(self, P, k):
        """non-empty subsets of k elements: the caller enumerates the choice vectors"""
        i = P.locals.get("#choice", 0)
        P.locals["#choice"] = i + 1
        n = (1 << k) - 1
        while len(self.arity) <= i:
            self.arity.append(n)
        self.arity[i] = max(self.arity[i], n)
        c = self.choices[i] if i < len(self.choices) else 0
        mask = (n - c) if c < n else n          # choice 0 = the full set
        return [j for j in range(k) if mask >> j & 1]

    def closure_fn(self, loc):
        c = [f for f in self.fns.values() if "{closure#" in f.short and f.params and loc in f.params[0][1]]
        if len({f.name for f in c}) != 1:
            raise Unsupported("closure at %s not found uniquely" % loc)
        return c[0]

    # ---- the models
    def models(self):
        W = self
        used = self.models_used

        def m(name):
            def deco(f):
                def g(flow, P, callee, args):
                    used.add(name)
                    return f(flow, P, callee, args)
                return g
            return deco

        @m("<&Predicate as PartialEq>::eq: structural equality (exact on atoms; otherwise only 'equal implies same denotation')")
        def pred_eq(flow, P, callee, args):
            e, _ = W.struct_eq(P, args[0], args[1])
            return flow.mkbool(P, e)

        @m("<&TyParam as PartialEq>::ne / eq: integer literals are equal iff their values are")
        def tp_ne(flow, P, callee, args):
            a, b = flow.deref_all(P, args[0]), flow.deref_all(P, args[1])
            e = VAL(a) != VAL(b)
            return flow.mkbool(P, e if callee.endswith("::ne") else z3.Not(e))

        @m("Context::try_cmp on integer literals: Some(Less | Equal | Greater), exactly")
        def try_cmp(flow, P, callee, args):
            a, b = VAL(flow.deref_all(P, args[1])), VAL(flow.deref_all(P, args[2]))
            opt = flow.fresh("opt")
            o = fun("field0", 1)(fun("as_Some", 1)(opt))
            P.pc.append(DISC(opt) == 1)
            P.pc.append(DISC(o) == z3.If(a < b, W.oidx["Less"], z3.If(a == b, W.oidx["Equal"], W.oidx["Greater"])))
            return opt

        @m("Context::supertype_of_tp on integer literals: true iff equal")
        def sup_tp(flow, P, callee, args):
            return flow.mkbool(P, VAL(flow.deref_all(P, args[1])) == VAL(flow.deref_all(P, args[2])))

        @m("TyParam::has_upper_bound / has_lower_bound: true for integer literals")
        def has_bound(flow, P, callee, args):
            return S.TRUE

        def closure_loc(callee):
            mm = re.search(r"\{closure@([^}]*)\}", callee)
            if not mm:
                raise Unsupported("closure type in " + callee)
            return mm.group(1).strip()

        @m("Option::is_some_and(f): Some(x) and f(x)  (std contract; the closure is inlined)")
        def is_some_and(flow, P, callee, args):
            opt = args[0]
            r = flow.inline(P, W.closure_fn(closure_loc(callee)), [const("zst_closure"), fun("field0", 1)(fun("as_Some", 1)(opt))])
            return flow.mkbool(P, z3.And(DISC(opt) == 1, S.truth(flow, r)))

        @m("Option::map(f): None -> None, Some(x) -> Some(f(x))  (std contract; the closure is inlined)")
        def opt_map(flow, P, callee, args):
            opt = args[0]
            r = flow.inline(P, W.closure_fn(closure_loc(callee)), [const("zst_closure"), fun("field0", 1)(fun("as_Some", 1)(opt))])
            mres = flow.fresh("optm")
            P.pc.append(DISC(mres) == DISC(opt))
            P.pc.append(fun("field0", 1)(fun("as_Some", 1)(mres)) == flow.term(r))
            return mres

        @m("Option::unwrap_or(d)  (std contract)")
        def unwrap_or(flow, P, callee, args):
            o, d = args
            r = flow.fresh("uw")
            P.pc.append(z3.If(DISC(o) == 1, r == fun("field0", 1)(fun("as_Some", 1)(o)), r == flow.term(d)))
            return r

        @m("TyParamOrdering::{is_*, canbe_*}: inlined from the MIR dump")
        def ordering(flow, P, callee, args):
            short = callee.rsplit("::", 1)[-1]
            fn = flow.find_fn(short, param0_contains="TyParamOrdering", name_contains="typaram::")
            if fn is None:
                raise Unsupported("TyParamOrdering::" + short)
            return flow.inline(P, fn, args)

        @m("is_super_pred_of on sub-predicates: inlined (mode concrete) or the induction hypothesis 'true implies inclusion' (mode rule)")
        def rec(flow, P, callee, args):
            a, b = flow.deref_all(P, args[1]), flow.deref_all(P, args[2])
            known = lambda x: (z3.is_expr(x) and any(x.eq(t) for t in W.atoms.values())) or (isinstance(x, tuple) and x[0] == "agg" and x[1].endswith("::Value"))
            if W.mode == "concrete" and known(a) and known(b):
                return flow.inline(P, W.main[0], args)
            s = z3.Bool("ih_%d" % flow.ctr.next())
            P.pc.append(z3.Implies(s, z3.Implies(W.den(P, b), W.den(P, a))))
            return flow.mkbool(P, s)

        @m("Predicate::ands: the conjuncts of nested And nodes (leaves of a shape are not And)")
        def ands(flow, P, callee, args):
            return W.mkset_refs(P, W.flatten_and(P, args[0]))

        @m("Predicate::ors: the elements of an Or, else the predicate itself")
        def ors(flow, P, callee, args):
            v = flow.deref_all(P, args[0])
            if isinstance(v, tuple) and v[0] == "agg" and v[1].endswith("::Or"):
                return W.mkset_refs(P, list(v[2][0][1]))
            return W.mkset_refs(P, [W.lastref(P, args[0])])

        @m("Context::reduce_preds(mode, S): a non-empty subset of S with the same intersection / union (every subset is explored)")
        def reduce_preds(flow, P, callee, args):
            mode = "and" if "and" in str(args[1]) else "or"
            st = flow.deref_all(P, args[2])
            elems = st[1]
            keep = [elems[j] for j in W.choose(P, len(elems))]
            comb = z3.And if mode == "and" else z3.Or
            P.pc.append(comb([W.den(P, e) for e in keep]) == comb([W.den(P, e) for e in elems]))
            return ("set", keep)

        @m("erg_common::Set::iter / IntoIterator::into_iter / Iterator::next over a set of known size (std contract)")
        def set_iter(flow, P, callee, args):
            st = flow.deref_all(P, args[0])
            if not (isinstance(st, tuple) and st[0] == "set"):
                raise Unsupported("iter over %r" % (st,))
            return ("iter", list(st[1]), 0)

        def into_iter(flow, P, callee, args):
            a = args[0]
            if isinstance(a, tuple) and a[0] == "set":      # by-value iteration of a Set<&T> yields the elements themselves
                return ("iter", [flow.read(P, e.local, list(e.path)) for e in a[1]], 0)
            return a

        @m("Iterator::find(f) over a set of known size: the first element satisfying f, one continuation per candidate (std contract; the closure is inlined per element)")
        def it_find(flow, P, callee, args):
            r = args[0]
            it = flow.read(P, r.local, list(r.path))
            clo = args[1]
            fn = W.closure_fn(clo[1].split("@", 1)[1])
            place = flow.new_place(P, "pclo", clo)
            rest = it[1][it[2]:]
            cs = [S.truth(flow, flow.inline(P, fn, [place, flow.new_place(P, "pitem", e)])) for e in rest]
            pseudo = {k: v for k, v in P.locals.items() if not re.fullmatch(r"_\d+", k)}
            alts = [([z3.Not(c) for c in cs[:j]] + [cs[j]], ("agg", "Option::Some", [e]), pseudo) for j, e in enumerate(rest)]
            alts.append(([z3.Not(c) for c in cs], ("agg", "Option::None", []), pseudo))
            return ("fork", alts)

        @m("erg_common::Set::{new, insert, linear_remove} on a set of references: a set is the list of its elements")
        def set_new(flow, P, callee, args):
            return ("set", [])

        def set_insert(flow, P, callee, args):
            r = args[0]
            st = flow.read(P, r.local, list(r.path))
            flow.write(P, r.local, list(r.path), ("set", list(st[1]) + [flow.new_place(P, "pslot", args[1])]))
            return flow.fresh("ins")

        def linear_remove(flow, P, callee, args):
            r = args[0]
            st = flow.read(P, r.local, list(r.path))
            tgt = args[1]
            same = lambda x: isinstance(x, Ref) and isinstance(tgt, Ref) and x.local == tgt.local and x.path == tgt.path
            flow.write(P, r.local, list(r.path), ("set", [e for e in st[1] if not same(flow.read(P, e.local, list(e.path)))]))
            return flow.fresh("rm")

        @m("<str as PartialEq>::eq between the `mode` argument and a string literal: decided by the literal's text")
        def str_eq(flow, P, callee, args):
            a, b = flow.deref_all(P, args[0]), flow.deref_all(P, args[1])
            if z3.is_expr(a) and z3.is_expr(b) and str(a).startswith("const__") and str(b).startswith("const__"):
                return S.TRUE if a.eq(b) else S.FALSE
            raise Unsupported("str comparison of %r and %r" % (a, b))

        @m("Context::is_sub_pred_of: inlined from the MIR dump")
        def sub_pred(flow, P, callee, args):
            fn = flow.find_fn("is_sub_pred_of")
            if fn is None:
                raise Unsupported("is_sub_pred_of not in the MIR dump")
            return flow.inline(P, fn, args)

        def it_next(flow, P, callee, args):
            r = args[0]
            it = flow.read(P, r.local, list(r.path))
            if not (isinstance(it, tuple) and it[0] == "iter"):
                raise Unsupported("next on %r" % (it,))
            if it[2] < len(it[1]):
                flow.write(P, r.local, list(r.path), ("iter", it[1], it[2] + 1))
                return ("agg", "Option::Some", [it[1][it[2]]])
            return ("agg", "Option::None", [])

        @m("erg_common::Set::get_by(v, cmp): some element e with cmp(e, v)  (the closure is inlined per element)")
        def get_by(flow, P, callee, args):
            st = flow.deref_all(P, args[0])
            clo = args[2]
            fn = W.closure_fn(clo[1].split("@", 1)[1])
            place = flow.new_place(P, "pclo", clo)
            found = [S.truth(flow, flow.inline(P, fn, [place, e, args[1]])) for e in st[1]]
            return ("optflag", z3.Or(found) if found else z3.BoolVal(False))

        @m("Option::is_none  (std contract)")
        def is_none(flow, P, callee, args):
            o = flow.deref_all(P, args[0])
            if isinstance(o, tuple) and o[0] == "optflag":
                return flow.mkbool(P, z3.Not(o[1]))
            raise Unsupported("is_none on %r" % (o,))

        def quant(flow, P, callee, args, comb):
            r = args[0]
            it = flow.read(P, r.local, list(r.path))
            clo = args[1]
            fn = W.closure_fn(clo[1].split("@", 1)[1])
            place = flow.new_place(P, "pclo", clo)
            res = [S.truth(flow, flow.inline(P, fn, [place, e])) for e in it[1][it[2]:]]
            return flow.mkbool(P, comb(res) if res else z3.BoolVal(comb is z3.And))

        @m("Iterator::all(f) over a set of known size  (std contract; the closure is inlined per element)")
        def it_all(flow, P, callee, args):
            return quant(flow, P, callee, args, z3.And)

        @m("Iterator::any(f) over a set of known size  (std contract; the closure is inlined per element)")
        def it_any(flow, P, callee, args):
            return quant(flow, P, callee, args, z3.Or)

        @m("<&bool as Not>::not")
        def b_not(flow, P, callee, args):
            return flow.mkbool(P, z3.Not(S.truth(flow, flow.deref_all(P, args[0]))))

        return [
            (r"^<&(ty::)?predicate::Predicate as PartialEq>::eq$", pred_eq),
            (r"^<&(ty::)?typaram::TyParam as PartialEq>::(ne|eq)$", tp_ne),
            (r"::try_cmp$", try_cmp),
            (r"::supertype_of_tp$", sup_tp),
            (r"TyParam::has_(upper|lower)_bound$", has_bound),
            (r"^Option::<TyParamOrdering>::is_some_and::", is_some_and),
            (r"^Option::<TyParamOrdering>::map::", opt_map),
            (r"^Option::<bool>::unwrap_or$", unwrap_or),
            (r"^TyParamOrdering::(is|canbe)_\w+$", ordering),
            (r"::is_super_pred_of$", rec),
            (r"::is_sub_pred_of$", sub_pred),
            (r"^<str as PartialEq>::eq$", str_eq),
            (r"set::Set::<&predicate::Predicate>::new$", set_new),
            (r"set::Set::<&predicate::Predicate>::insert$", set_insert),
            (r"set::Set::<&predicate::Predicate>::linear_remove::", linear_remove),
            (r"as Iterator>::find::", it_find),
            (r"Predicate::ands$", ands),
            (r"Predicate::ors$", ors),
            (r"::reduce_preds$", reduce_preds),
            (r"set::Set::<.*>::iter$", set_iter),
            (r"as IntoIterator>::into_iter$", into_iter),
            (r"as Iterator>::next$", it_next),
            (r"set::Set::<.*>::get_by::", get_by),
            (r"^Option::<.*>::is_none$", is_none),
            (r"as Iterator>::all::", it_all),
            (r"as Iterator>::any::", it_any),
            (r"^<&bool as (std::ops::)?Not>::not$", b_not),
        ]

    def run_reduce(self, mode, specs, order):
        """execute reduce_preds(mode, {specs...}) with the set iterated in the given order; returns (flow, input refs, paths)"""
        fn = [f for f in self.fns.values() if f.short == "reduce_preds"]
        if len(fn) != 1:
            raise Unsupported("reduce_preds not found uniquely in the MIR dump")
        flow = S.SemFlow(self.fns, fn[0], None, self.vidx)
        flow.models = self.models()
        self.flow = flow
        P0 = S.Path()
        P0.pc = list(S.BASE_AXIOMS)
        refs = [self.build(P0, sp, "E%d" % i) for i, sp in enumerate(specs)]
        st = ("set", [flow.new_place(P0, "pslot", refs[j]) for j in order])
        pre = dict(P0.locals)
        pre.update({"_1": const("ctx"), "_2": const("const__%s_" % mode), "_3": st})
        outs = flow.run("bb0", stop_at=(), pre=pre, pc=P0.pc)
        return flow, refs, [(Q, Q.locals.get("_0")) for Q, end in outs if end == "return"]

    # ---- one run
    def run(self, lsp, rsp):
        fn = self.main[0]
        flow = S.SemFlow(self.fns, fn, None, self.vidx)
        flow.models = self.models()
        self.flow = flow
        P0 = S.Path()
        P0.pc = list(S.BASE_AXIOMS)
        L = self.build(P0, lsp, "L")
        R = self.build(P0, rsp, "R")
        pre = dict(P0.locals)
        pre.update({"_1": const("ctx"), "_2": L, "_3": R})
        outs = flow.run("bb0", stop_at=(), pre=pre, pc=P0.pc)
        return flow, L, R, [(Q, Q.locals.get("_0")) for Q, end in outs if end == "return"]


# ---------------------------------------------------------------------------------------------
# concrete predicates (for replay, validation and the generated programs)

def conc_from_model(W, mdl, sp, name):
    ev = lambda e: mdl.eval(e, model_completion=True)
    if sp[0] == "atom":
        t = W.atoms[name]
        k = W.vidx["Predicate"][ev(DISC(t)).as_long()]
        n = ev(VAL(fun("field1", 1)(fun("as_" + k, 1)(t)))).as_long()
        return ("atom", k, n)
    if sp[0] == "bool":
        return ("bool", ev(DISC(S.SV(W.bools[name]))).as_long() != 0)
    if sp[0] == "and":
        l, r = conc_from_model(W, mdl, sp[1], name + "l"), conc_from_model(W, mdl, sp[2], name + "r")
        return None if l is None or r is None else ("and", l, r)
    if sp[0] == "or":
        el = [conc_from_model(W, mdl, x, "%so%d" % (name, i)) for i, x in enumerate(sp[1])]
        return None if None in el else ("or", el)
    if sp[0] == "not":
        x = conc_from_model(W, mdl, sp[1], name + "n")
        return None if x is None else ("not", x)
    return None          # an opaque leaf has no concrete instance


def conc_rust(c):
    if c[0] == "atom":
        return "atom(%d, %d)" % (ATOMS.index(c[1]), c[2])
    if c[0] == "bool":
        return "pbool(%s)" % str(c[1]).lower()
    if c[0] == "and":
        return "pand(%s, %s)" % (conc_rust(c[1]), conc_rust(c[2]))
    if c[0] == "not":
        return "pnot(%s)" % conc_rust(c[1])
    return "por(vec![%s])" % ", ".join(conc_rust(x) for x in c[1])


def conc_erg(c):
    if c[0] == "atom":
        return "I %s %d" % ({"Equal": "==", "GreaterEqual": ">=", "LessEqual": "<=", "NotEqual": "!="}[c[1]], c[2])
    if c[0] == "bool":
        return "True" if c[1] else "False"
    if c[0] == "and":
        return "(%s) and (%s)" % (conc_erg(c[1]), conc_erg(c[2]))
    if c[0] == "not":
        return "not (%s)" % conc_erg(c[1])
    return " or ".join("(%s)" % conc_erg(x) for x in c[1])


def conc_den(c, i):
    if c[0] == "atom":
        return {"Equal": i == c[2], "GreaterEqual": i >= c[2], "LessEqual": i <= c[2], "NotEqual": i != c[2]}[c[1]]
    if c[0] == "bool":
        return c[1]
    if c[0] == "and":
        return conc_den(c[1], i) and conc_den(c[2], i)
    if c[0] == "not":
        return not conc_den(c[1], i)
    return any(conc_den(x, i) for x in c[1])


def conc_constraints(W, c, sp, name):
    """z3 constraints that pin the symbolic operand `name` of shape sp to the concrete predicate c"""
    if sp[0] == "atom":
        t = W.atoms[name]
        return [DISC(t) == W.pidx[c[1]], VAL(fun("field1", 1)(fun("as_" + c[1], 1)(t))) == c[2]]
    if sp[0] == "bool":
        return [DISC(S.SV(W.bools[name])) == (1 if c[1] else 0)]
    if sp[0] == "and":
        return conc_constraints(W, c[1], sp[1], name + "l") + conc_constraints(W, c[2], sp[2], name + "r")
    if sp[0] == "not":
        return conc_constraints(W, c[1], sp[1], name + "n")
    out = []
    for i, x in enumerate(sp[1]):
        out += conc_constraints(W, c[1][i], x, "%so%d" % (name, i))
    return out


HELPERS_BASE = r"""
    fn tpv(v: i64) -> TyParam { if v >= 0 { TyParam::value(v as usize) } else { TyParam::value(v as i32) } }
    fn atom(k: u8, v: i64) -> Predicate {
        let lhs = erg_common::Str::ever("I");
        let rhs = tpv(v);
        match k {
            0 => Predicate::Equal { lhs, rhs },
            1 => Predicate::GreaterEqual { lhs, rhs },
            2 => Predicate::LessEqual { lhs, rhs },
            _ => Predicate::NotEqual { lhs, rhs },
        }
    }
    fn pand(a: Predicate, b: Predicate) -> Predicate { Predicate::And(Box::new(a), Box::new(b)) }
    fn por(v: Vec<Predicate>) -> Predicate { Predicate::Or(v.into_iter().collect()) }
    fn pbool(b: bool) -> Predicate { Predicate::Value(ValueObj::Bool(b)) }
    fn pnot(a: Predicate) -> Predicate { Predicate::Not(Box::new(a)) }
    fn ival(tp: &TyParam) -> i64 {
        match tp {
            TyParam::Value(ValueObj::Int(i)) => *i as i64,
            TyParam::Value(ValueObj::Nat(n)) => *n as i64,
            _ => panic!("non-integer bound"),
        }
    }
    fn den(p: &Predicate, i: i64) -> bool {
        match p {
            Predicate::Value(ValueObj::Bool(b)) => *b,
            Predicate::Equal { rhs, .. } => i == ival(rhs),
            Predicate::GreaterEqual { rhs, .. } => i >= ival(rhs),
            Predicate::LessEqual { rhs, .. } => i <= ival(rhs),
            Predicate::NotEqual { rhs, .. } => i != ival(rhs),
            Predicate::And(l, r) => den(l, i) && den(r, i),
            Predicate::Or(s) => s.iter().any(|q| den(q, i)),
            Predicate::Not(q) => !den(q, i),
            _ => panic!("shape"),
        }
    }
"""
HELPERS = HELPERS_BASE + r"""
    thread_local! { static CTX: Context = Context::default_with_name("<module>"); }
    fn sup(l: &Predicate, r: &Predicate) -> bool { CTX.with(|c| c.is_super_pred_of(l, r)) }
    fn red(mode: &str, v: Vec<Predicate>, i: i64) -> String {
        CTX.with(|c| {
            let set: erg_common::set::Set<&Predicate> = v.iter().collect();
            let r = c.reduce_preds(mode, set);
            let (inp, out) = if mode == "and" { (v.iter().all(|p| den(p, i)), r.iter().all(|p| den(p, i))) } else { (v.iter().any(|p| den(p, i)), r.iter().any(|p| den(p, i))) };
            format!("{} {}", inp, out)
        })
    }
"""


def atom_sp(k=None):
    return ("atom", k)


def shape_pairs(tier):
    """[(mode, lhs shape, rhs shape)]"""
    a, p, B = atom_sp(), ("leaf",), ("bool",)
    out = []
    for k1 in ATOMS:
        for k2 in ATOMS:
            out.append(("concrete", atom_sp(k1), atom_sp(k2)))
    for k in ATOMS:
        out.append(("concrete", B, atom_sp(k)))
        out.append(("concrete", atom_sp(k), B))
    out.append(("concrete", B, B))
    for leaf, mode in ((a, "concrete"), (p, "rule")):
        A2, O2 = ("and", leaf, leaf), ("or", [leaf, leaf])
        comp = [A2, O2]
        if tier == "thorough":
            comp += [("and", leaf, ("and", leaf, leaf)), ("or", [leaf, leaf, leaf])]
        for X in comp:
            out.append((mode, a, X))
            out.append((mode, X, a))
            out.append((mode, B, X))
            out.append((mode, X, B))
        for X in comp:
            for Y in comp:
                out.append((mode, X, Y))
    if tier == "thorough":
        out.append(("concrete", ("and", a, ("or", [a, a])), ("and", a, a)))
        out.append(("concrete", ("and", a, a), ("and", a, ("or", [a, a]))))
        out.append(("concrete", ("or", [a, ("and", a, a)]), ("or", [a, a])))
        out.append(("concrete", ("or", [a, a]), ("or", [a, ("and", a, a)])))
    return out


MUST_ACCEPT = {"Ge:>Ge", "Ge:>Eq", "Le:>Le", "Ne:>Eq", "Ne:>Ge", "Eq:>Eq", "And(a,a):>And(a,a)", "Or(a,a):>Or(a,a)", "And(a,a):>a", "a:>Or(a,a)"}


def run(tier, seed, only=None):
    rep = Report("C03", tier, seed, "other",
                 "Kernel-level partial claim: the predicate-implication judgement Context::is_super_pred_of, which decides whether "
                 "{I: Int | P} is accepted where {I: Int | Q} is required.  Its rustc MIR is executed symbolically (engine mirsem: closures, "
                 "TyParamOrdering predicates and the recursive calls inlined from the MIR dump; integer bounds as unbounded z3 integers; atom "
                 "kinds as solver variables) for every pair of operand shapes up to depth 2 (atoms ==, >=, <=, !=, True/False, And, Or), "
                 "and z3 decides that a true answer implies set inclusion at an arbitrary integer.  Mode `rule` replaces the sub-predicates "
                 "by opaque predicates with the induction hypothesis, i.e. one inductive step for trees of any depth.  Counterexamples are "
                 "rebuilt as Predicate values and run through the real function on a real Context; callee contracts and the encoding are "
                 "validated natively on every run.  Not decided: how structural_supertype_of reaches the judgement, predicates over "
                 "non-literal bounds (type variables: try_cmp answers `Any`), Float bounds, the Call/Attr/General* arms.", partial=bool(only))
    rep.trusted += ["rustc nightly -Zunpretty=mir as the semantics of the source", "engines/mirsem.py + engines/mirflow.py", "z3 " + z3.get_version_string()]
    s = Scratch("c03")
    try:
        csrc = s.read("crates/erg_compiler/context/compare.rs")
        psrc = s.read("crates/erg_compiler/ty/predicate.rs")
        tsrc = s.read("crates/erg_compiler/ty/typaram.rs")
        vsrc = s.read("crates/erg_compiler/ty/value.rs")
        vidx = {"Predicate": M.rust_enum_variants(psrc, "Predicate"), "TyParamOrdering": M.rust_enum_variants(tsrc, "TyParamOrdering"),
                "ValueObj": M.rust_enum_variants(vsrc, "ValueObj"), "Option": ["None", "Some"]}
        rep.add_function("Context::is_super_pred_of", "crates/erg_compiler/context/compare.rs", extract_fn(csrc, "is_super_pred_of"))
        rep.add_function("Context::reduce_preds (contract only)", "crates/erg_compiler/context/compare.rs", extract_fn(csrc, "reduce_preds"))
        rep.add_function("impl TyParamOrdering", "crates/erg_compiler/ty/typaram.rs", extract_fn(tsrc, "TyParamOrdering", kind="impl"))
        if None in vidx.values() or any(k not in vidx["Predicate"] for k in ATOMS + ["And", "Or", "Value"]):
            rep.add(Obligation(key="source/enums", verdict=BROKEN, reason="Predicate / TyParamOrdering / ValueObj variants could not be read from the source"))
            return rep.finish()
        text, dt, err, rc = M.dump_mir(s, "erg_compiler", overflow_checks=True, extra_cargo=["--lib"])
        if rc != 0 or len(text) < 1000:
            log("MIR dump failed:\n" + err[-3000:])
            rep.add(Obligation(key="mir-dump", verdict=BROKEN, reason="cargo +nightly rustc -Zunpretty=mir failed"))
            return rep.finish()
        log("  MIR dump erg_compiler: %.0fs, %d MB" % (dt, len(text) >> 20))
        fns = M.parse_mir(text, want=["::is_super_pred_of", "::is_sub_pred_of", "::reduce_preds", "typaram.rs:"])
        del text
        mains = [f for f in fns.values() if f.short == "is_super_pred_of"]
        if len(mains) != 1:
            rep.add(Obligation(key="mir/functions", verdict=BROKEN, reason="is_super_pred_of not found uniquely in the MIR dump (%d)" % len(mains)))
            return rep.finish()
        solver = z3.Solver()
        solver.set("timeout", 60000)
        nq = [0]

        def check(conds):
            solver.push()
            solver.add(*conds)
            r = solver.check()
            mdl = solver.model() if r == z3.sat else None
            solver.pop()
            nq[0] += 1
            return str(r), mdl

        pairs = shape_pairs(tier)
        to_replay = []          # (obligation, concrete L, concrete R, i0)
        runs = {}               # key -> [(W, paths, lsp, rsp)]   (kept for the translation validation)
        models_used = set()
        inlined = set()
        t_all = time.time()
        for mode, lsp, rsp in pairs:
            pname = "%s:>%s" % (shape_name(lsp), shape_name(rsp))
            key = "implies/%s" % pname + ("@rule" if mode == "rule" else "")
            if only and not any(o in key for o in only.split(',')):
                continue
            base = dict(engine="mirsem (MIR -> z3 %s)" % z3.get_version_string(), solver="z3", functions=["Context::is_super_pred_of"],
                        shape="%s ; mode %s" % (pname, mode),
                        symbolic=["every integer bound (unbounded z3 Int)", "the kind of every atom written `a`", "truth value of Bool", "the integer i0 tested for membership"]
                        + (["the sub-predicates `p` (opaque, induction hypothesis)"] if mode == "rule" else []),
                        bounds={"depth": 2 if tier == "quick" else 3})
            ob = Obligation(base, key=key)
            t0 = time.time()
            nqs = nq[0]
            try:
                W0 = World(fns, vidx, mode)
                W0.run(lsp, rsp)
                vecs = list(itertools.product(*[range(n) for n in W0.arity])) if W0.arity else [()]
                npaths = accepting = 0
                verdict, reason, cex = HELD, "", None
                keep = []
                inq = 0
                for vec in vecs:
                    W = World(fns, vidx, mode, vec)
                    flow, L, R, paths = W.run(lsp, rsp)
                    inq += flow.queries
                    models_used |= W.models_used
                    inlined |= flow.inlined
                    keep.append((W, paths, vec))
                    for Q, rv in paths:
                        if rv is None:
                            raise Unsupported("path without a return value")
                        tr = S.truth(flow, rv)
                        r0, _ = check(Q.pc)
                        if r0 != "sat":
                            continue
                        npaths += 1
                        ra, _ = check(Q.pc + [tr])
                        if ra == "sat":
                            accepting += 1
                        r1, mdl = check(Q.pc + [tr, W.den(Q, R), z3.Not(W.den(Q, L))])
                        if r1 == "sat" and cex is None:
                            cl, cr = conc_from_model(W, mdl, lsp, "L"), conc_from_model(W, mdl, rsp, "R")
                            i0 = mdl.eval(I0, model_completion=True).as_long()
                            cex = (cl, cr, i0, vec)
                            verdict = VIOLATED
                        elif r1 not in ("sat", "unsat") and verdict == HELD:
                            verdict, reason = INCONCLUSIVE, "solver " + r1
                runs[key] = (keep, lsp, rsp)
                ob["queries"] = nq[0] - nqs + inq
                ob["detail"] = {"paths": npaths, "accepting_paths": accepting, "reduce_preds_choice_vectors": len(vecs)}
                if npaths == 0:
                    verdict, reason = BROKEN, "no feasible path (vacuous encoding)"
                elif pname in MUST_ACCEPT and accepting == 0:
                    verdict, reason = BROKEN, "vacuity: the judgement can never answer true for %s in the encoding" % pname
                if verdict == HELD:
                    reason = "on all %d paths (%d can answer true): a true answer implies that every integer satisfying the right operand satisfies the left one" % (npaths, accepting)
                elif verdict == VIOLATED:
                    cl, cr, i0, vec = cex
                    if cl is not None and cr is not None:
                        ob["model"] = {"Q (left)": conc_erg(cl), "P (right)": conc_erg(cr), "i0": i0}
                        reason = "answers true for {I | %s} :> {I | %s}, but %d satisfies the right operand and not the left" % (conc_erg(cl), conc_erg(cr), i0)
                        to_replay.append((ob, cl, cr, i0))
                    else:
                        ob["model"] = {"i0": i0, "note": "opaque sub-predicates: see the concrete twin"}
                        reason = "the combination rule is unsound for opaque sub-predicates (induction step fails)"
                ob.update(verdict=verdict, reason=reason, solver_s=round(time.time() - t0, 2))
            except Unsupported as e:
                ob.update(verdict=INCONCLUSIVE, reason="unsupported-construct: " + str(e)[:200], solver_s=round(time.time() - t0, 2))
            rep.add(ob)
        # ---- reduce_preds: the contract the And/And and Or/Or arms rely on, decided on its own MIR (sets of k atoms, every iteration order)
        red_replay = []
        red_runs = {}
        for rmode in ("and", "or"):
            for k in ((1, 2) if tier == "quick" else (1, 2, 3)):
                key = "reduce_preds/%s/k=%d" % (rmode, k)
                if only and not any(o in key for o in only.split(",")):
                    continue
                ob = Obligation(dict(engine="mirsem (MIR -> z3 %s)" % z3.get_version_string(), solver="z3", functions=["Context::reduce_preds", "Context::is_super_pred_of", "Context::is_sub_pred_of"],
                                     shape="a set of %d atoms, mode \"%s\", every iteration order" % (k, rmode),
                                     symbolic=["kind and bound of every atom", "the integer i0"], bounds={"set size": k}), key=key)
                t0 = time.time()
                try:
                    comb = z3.And if rmode == "and" else z3.Or
                    npaths, cands, inq = 0, [], 0
                    keepr = []
                    for order in itertools.permutations(range(k)):
                        W = World(fns, vidx, "concrete")
                        flow, refs, paths = W.run_reduce(rmode, [atom_sp()] * k, order)
                        inq += flow.queries
                        models_used |= W.models_used
                        inlined |= flow.inlined
                        keepr.append((W, flow, refs, paths, order))
                        for Q, rv in paths:
                            if check(Q.pc)[0] != "sat":
                                continue
                            npaths += 1
                            out = comb([W.den(Q, e) for e in rv[1]]) if rv[1] else z3.BoolVal(rmode == "and")
                            bad = [out != comb([W.den(Q, r) for r in refs])]
                            block = []
                            for _ in range(4):
                                r1, mdl = check(Q.pc + bad + block)
                                if r1 != "sat" or len(cands) >= 12:
                                    break
                                cs = [conc_from_model(W, mdl, atom_sp(), "E%d" % i) for i in range(k)]
                                cands.append((cs, mdl.eval(I0, model_completion=True).as_long()))
                                block.append(z3.Or([VAL(fun("field1", 1)(fun("as_" + c[1], 1)(W.atoms["E%d" % i]))) != c[2] for i, c in enumerate(cs)]))
                    red_runs[key] = (keepr, rmode, k)
                    ob["queries"] = inq + 2 * npaths
                    ob["detail"] = {"paths": npaths, "orders": len(keepr)}
                    if npaths == 0:
                        ob.update(verdict=BROKEN, reason="no feasible path (vacuous encoding)")
                    elif cands:
                        cs, i0 = cands[0]
                        ob["model"] = {"set": [conc_erg(c) for c in cs], "i0": i0}
                        ob.update(verdict=VIOLATED, reason="reduce_preds(\"%s\", {%s}) changes the set's meaning at the integer %d (for some iteration order)" % (rmode, "; ".join(conc_erg(c) for c in cs), i0))
                        red_replay.append((ob, rmode, cands))
                    else:
                        ob.update(verdict=HELD, reason="on all %d paths (all %d iteration orders) the reduced set has the same %s as the input" % (npaths, len(keepr), "intersection" if rmode == "and" else "union"))
                    ob["solver_s"] = round(time.time() - t0, 2)
                except Unsupported as e:
                    ob.update(verdict=INCONCLUSIVE, reason="unsupported-construct: " + str(e)[:200], solver_s=round(time.time() - t0, 2))
                rep.add(ob)
        log("  symbolic stage: %d obligations, %.0fs, %d z3 queries" % (len(rep.obls), time.time() - t_all, nq[0]))

        # a rule-mode violation is reported only together with its concrete twin (an opaque counterexample cannot be replayed)
        byk = {o["key"]: o for o in rep.obls}
        for o in rep.obls:
            if o["key"].endswith("@rule") and o["verdict"] == VIOLATED:
                twin = byk.get("implies/" + o["key"][len("implies/"):-5].replace("p", "a"))
                if twin is None or twin["verdict"] not in (VIOLATED,):
                    o["verdict"] = INCONCLUSIVE
                    o["reason"] = "induction step fails only for sub-predicates no atom realises (concrete twin: %s)" % (twin and twin["verdict"])
                else:
                    o["twin"] = twin["key"]

        # ---- native stage: contracts, translation validation, replay
        nr = NativeRun(s, "erg_compiler", "crates/erg_compiler/context/compare.rs", helpers=HELPERS)
        ints = [-3, -1, 0, 1, 2, 7]
        for a in ints:
            for b in ints:
                nr.add("k.%d.%d" % (a + 10, b + 10),
                       "let (a, b) = (tpv(%d), tpv(%d)); CTX.with(|c| format!(\"{:?} {} {} {} {}\", c.try_cmp(&a, &b), c.supertype_of_tp(&a, &b, Variance::Covariant), a != b, a.has_upper_bound(), a.has_lower_bound()))" % (a, b))
        # translation validation vectors: concrete predicate pairs per validated key
        vvals = [-1, 0, 2]
        tv = []
        for key, (keep, lsp, rsp) in sorted(runs.items()):
            if key.endswith("@rule"):
                continue
            names = []

            def leaves(sp):
                if sp[0] == "atom":
                    return [sp]
                if sp[0] == "bool":
                    return [sp]
                if sp[0] == "and":
                    return leaves(sp[1]) + leaves(sp[2])
                return [x for y in sp[1] for x in leaves(y)]
            nl = len(leaves(lsp)) + len(leaves(rsp))
            import random
            rnd = random.Random(seed * 1000 + len(tv))
            cases = 9 if nl <= 2 else 6

            def inst(sp):
                if sp[0] == "atom":
                    return ("atom", sp[1] or rnd.choice(ATOMS), rnd.choice(vvals))
                if sp[0] == "bool":
                    return ("bool", rnd.random() < 0.5)
                if sp[0] == "and":
                    return ("and", inst(sp[1]), inst(sp[2]))
                return ("or", [inst(x) for x in sp[1]])
            seen = set()
            for _ in range(cases * 3):
                cl, cr = inst(lsp), inst(rsp)
                if (repr(cl), repr(cr)) in seen:
                    continue
                seen.add((repr(cl), repr(cr)))
                tv.append((key, cl, cr))
                if len(seen) >= cases:
                    break
        for i, (key, cl, cr) in enumerate(tv):
            nr.add("t.%d" % i, "let l = %s; let r = %s; format!(\"{}\", sup(&l, &r))" % (conc_rust(cl), conc_rust(cr)))
        unlisted = [t for t in to_replay if not rep.known.lookup(rep.prop, t[0]["key"])]
        for i, (ob, cl, cr, i0) in enumerate(to_replay):
            nr.add("r.%d" % i, "let l = %s; let r = %s; format!(\"{} {} {}\", sup(&l, &r), den(&l, %d), den(&r, %d))" % (conc_rust(cl), conc_rust(cr), i0, i0))
        for i, (ob, rmode, cands) in enumerate(red_replay):
            for j, (cs, i0) in enumerate(cands):
                nr.add("q.%d.%d" % (i, j), "red(\"%s\", vec![%s], %d)" % (rmode, ", ".join(conc_rust(c) for c in cs), i0))
        rtv = []
        import random as _r
        rr = _r.Random(seed + 303)
        for key, (keepr, rmode, k) in sorted(red_runs.items()):
            for _ in range(5 if k > 1 else 2):
                rtv.append((key, [("atom", rr.choice(ATOMS), rr.choice([-1, 0, 2])) for _i in range(k)], rr.choice([-2, -1, 0, 1, 2, 3])))
        for i, (key, cs, i0) in enumerate(rtv):
            nr.add("u.%d" % i, "red(\"%s\", vec![%s], %d)" % (red_runs[key][1], ", ".join(conc_rust(c) for c in cs), i0))
        res, dtn = nr.run()
        log("  native stage: %d cases, %.0fs" % (len(nr.cases), dtn))
        cbase = dict(engine="native (cargo test on the scratch copy)", functions=["Context::try_cmp", "Context::supertype_of_tp", "TyParam::eq", "TyParam::has_upper_bound", "TyParam::has_lower_bound"])
        if res is None:
            rep.add(Obligation(cbase, key="contracts/validated", verdict=BROKEN, reason="the native validation binary did not build or run"))
            return rep.finish()
        bad = []
        for a in ints:
            for b in ints:
                got = res.get("k.%d.%d" % (a + 10, b + 10), "")
                want = "Some(%s) %s %s true true" % ("Less" if a < b else "Equal" if a == b else "Greater", str(a == b).lower(), str(a != b).lower())
                if got != want:
                    bad.append("(%d, %d): %s, contract %s" % (a, b, got, want))
        rep.add(Obligation(cbase, key="contracts/validated", nontrivial=False, verdict=BROKEN if bad else HELD,
                           reason=("callee contract differs from the real code: " + "; ".join(bad[:3])) if bad else
                           "try_cmp / supertype_of_tp / TyParam equality / has_*_bound agree with the assumed contracts on %d integer-literal pairs" % (len(ints) ** 2)))
        # translation validation
        tbad, tn = [], 0
        for i, (key, cl, cr) in enumerate(tv):
            got = res.get("t.%d" % i)
            keep, lsp, rsp = runs[key]
            outcomes = set()
            for W, paths, vec in keep:
                pins = conc_constraints(W, cl, lsp, "L") + conc_constraints(W, cr, rsp, "R")
                for Q, rv in paths:
                    tr = S.truth(W.flow, rv)
                    if check(Q.pc + pins + [tr])[0] == "sat":
                        outcomes.add("true")
                    if check(Q.pc + pins + [z3.Not(tr)])[0] == "sat":
                        outcomes.add("false")
            tn += 1
            rep.replayed += 1
            if got not in outcomes:
                tbad.append("%s: {%s} :> {%s}: real %s, encoding %s" % (key, conc_erg(cl), conc_erg(cr), got, sorted(outcomes)))
        rep.add(Obligation(dict(engine="mirsem vs native", functions=["Context::is_super_pred_of"]), key="translation/validated", nontrivial=False,
                           verdict=BROKEN if tbad else HELD,
                           reason=("the encoding disagrees with the real function: " + " | ".join(tbad[:4])) if tbad else
                           "the symbolic execution predicts the real function's answer on %d concrete predicate pairs" % tn))
        for i, (ob, cl, cr, i0) in enumerate(to_replay):
            got = res.get("r.%d" % i)
            rep.replayed += 1
            ob["native_replay"] = {"call": "is_super_pred_of(%s, %s); membership of %d" % (conc_rust(cl), conc_rust(cr), i0), "result (answer, in left, in right)": got}
            if got != "true false true":
                ob["verdict"] = BROKEN
                ob["reason"] = "counterexample did not reproduce natively (%s): %s" % (got, ob["reason"])
        for i, (ob, rmode, cands) in enumerate(red_replay):
            got = [(j, res.get("q.%d.%d" % (i, j))) for j in range(len(cands))]
            hit = [j for j, g in got if g in ("true false", "false true")]
            rep.replayed += len(cands)
            ob["native_replay"] = {"candidates": len(cands), "reproduced": len(hit), "results (input contains i0, reduced set contains i0)": [g for _, g in got][:6]}
            if hit:
                cs, i0 = cands[hit[0]]
                ob["model"] = {"set": [conc_erg(c) for c in cs], "i0": i0}
                ob["reason"] = "reduce_preds(\"%s\", {%s}) changes the set's meaning at the integer %d" % (rmode, "; ".join(conc_erg(c) for c in cs), i0)
            else:
                ob["verdict"] = INCONCLUSIVE
                ob["reason"] = "order-dependent counterexample: none of %d value choices reproduced under the real hash set's iteration order (%s)" % (len(cands), ob["reason"])
        ubad = []
        for i, (key, cs, i0) in enumerate(rtv):
            keepr, rmode, k = red_runs[key]
            comb = z3.And if rmode == "and" else z3.Or
            preds = set()
            for W, flow, refs, paths, order in keepr:
                W.flow = flow
                pins = [c for j in range(k) for c in conc_constraints(W, cs[j], atom_sp(), "E%d" % j)] + [I0 == i0]
                for Q, rv in paths:
                    out = comb([W.den(Q, e) for e in rv[1]]) if rv[1] else z3.BoolVal(rmode == "and")
                    for val in (True, False):
                        if check(Q.pc + pins + [out == val])[0] == "sat":
                            preds.add("%s %s" % (str((all if rmode == "and" else any)(conc_den(c, i0) for c in cs)).lower(), str(val).lower()))
            rep.replayed += 1
            if res.get("u.%d" % i) not in preds:
                ubad.append("%s {%s} at %d: real %s, encoding %s" % (key, "; ".join(conc_erg(c) for c in cs), i0, res.get("u.%d" % i), sorted(preds)))
        if red_runs:
            rep.add(Obligation(dict(engine="mirsem vs native", functions=["Context::reduce_preds"]), key="translation/reduce_preds", nontrivial=False,
                               verdict=BROKEN if ubad else HELD,
                               reason=("the encoding disagrees with the real function: " + " | ".join(ubad[:4])) if ubad else
                               "the symbolic execution of reduce_preds predicts the real result's meaning on %d concrete sets" % len(rtv)))
        for o in rep.obls:
            if o.get("twin") and byk[o["twin"]]["verdict"] == BROKEN:
                o["verdict"] = BROKEN
                o["reason"] = "concrete twin did not reproduce"
        # ---- end to end (thorough, or whenever an unlisted violation is about to be reported)
        confirmed = [t for t in to_replay if t[0]["verdict"] == VIOLATED]
        if confirmed and (tier == "thorough" or any(not rep.known.lookup(rep.prop, t[0]["key"]) for t in confirmed)):
            e2e(s, rep, confirmed)
        rep.assumptions += sorted(models_used) + [
            "bounds of all predicates are integer literals and all predicates speak about the same variable (the refinement variable)",
            "the order in which a hash set is iterated does not matter (each loop is a conjunction / disjunction over its elements)",
            "panics / unreachable arms are not modelled (the judgement has none on these shapes)",
        ]
        rep.extra["inlined_from_mir"] = sorted(inlined)
        rep.extra["z3_queries"] = nq[0]
        return rep.finish()
    finally:
        s.cleanup()


def e2e(s, rep, confirmed):
    """build the compiler from the scratch copy and feed it `g(x: {I: Int | P}): {I: Int | Q} = x; print! g(i0)`"""
    t0 = time.time()
    tdir = os.path.join(s.root, "native")
    rc, out, dt = sh(["cargo", "build", "--offline", "--bin", "erg"], cwd=s.src, env=s.env(CARGO_TARGET_DIR=tdir), timeout=2400)
    exe = os.path.join(tdir, "debug", "erg")
    if rc != 0 or not os.path.exists(exe):
        log("  e2e: building erg failed (rc=%s)" % rc)
        return
    for n, (ob, cl, cr, i0) in enumerate(confirmed[:6]):
        src = "g(x: {I: Int | %s}): {I: Int | %s} = x\nprint! g(%d)\n" % (conc_erg(cr), conc_erg(cl), i0)
        f = os.path.join(s.root, "e2e_%d.er" % n)
        open(f, "w").write(src)
        rc1, out1, _ = sh([exe, "check", f], env=s.env(), timeout=120)
        rc2, out2, _ = sh([exe, "run", f], env=s.env(), timeout=120)
        ob["end_to_end"] = {"program": src, "erg check exit": rc1, "erg run exit": rc2, "stdout tail": out2.strip()[-80:]}
        log("  e2e %s: check rc=%s run rc=%s out=%r" % (ob["key"], rc1, rc2, out2.strip()[-40:]))
    log("  e2e stage: %.0fs" % (time.time() - t0))
