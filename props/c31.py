"""C31 — module path normalisation identifies only identical files (kernel: `cheap_canonicalize_path`).

Engine: E2 mir2smt.  The rustc MIR of `erg_common::cheap_canonicalize_path` is executed on an input path given as a sequence of
k components whose *kinds* are solver variables; `std::path` is the environment and is modelled by its documented contract:
`Path::components` yields RootDir only first, CurDir only first (interior `.` are normalised away by std), then ParentDir /
Normal; `PathBuf::push` of a root replaces the buffer, of anything else appends; `PathBuf::pop` removes the last component
(`..` included) and does nothing on `/` or the empty path.  Oracle: lexical resolution (a `..` with nothing to cancel is kept in
a relative path and dropped at the root).  Every explored path is also run natively and must give the string the model
predicts (translation validation of the std model), and counterexamples are replayed natively.

A first attempt with Kani on the compiled code (std::path::Components over symbolic bytes) did not finish: 300 s timeouts on
4-byte paths, 40 min without a result on a 7-byte path.  `normalize_path` (`to_string_lossy().replace(..)`, a no-op on Unix
paths) is not encoded."""
import re
import time

import z3

import mir2smt as M
from common import (BROKEN, HELD, INCONCLUSIVE, VIOLATED, Obligation, Report, Scratch, extract_fn, log)
from native import NativeRun

ROOT, CUR, PARENT, NORMAL = 1, 2, 3, 4
KIND = {ROOT: "RootDir", CUR: "CurDir", PARENT: "ParentDir", NORMAL: "Normal"}


class PIter:
    def __init__(self, items, pos=0):
        self.items, self.pos = items, pos

    def __repr__(self):
        return "PIter(%d/%d)" % (self.pos, len(self.items))


class PBuf:
    def __init__(self, entries=()):
        self.entries = tuple(entries)

    def __repr__(self):
        return "PBuf%r" % (self.entries,)


class OsV:
    def __init__(self, kind, name=None):
        self.kind, self.name = kind, name


def run(tier, seed, only=None):
    rep = Report("C31", tier, seed, "other",
                 "Kernel-level claim on cheap_canonicalize_path (the function NormalizedPathBuf::new rests on): symbolic execution of its rustc MIR over "
                 "paths of up to 4 (thorough: 6) components whose kinds (root, `.`, `..`, name) are solver variables, std::path modelled by its "
                 "documented contract; z3-guided path exploration decides that the result is the lexically resolved path (so normalisation is "
                 "idempotent, equal normal forms name the same file, leading `..` of relative paths survive); every explored path is "
                 "replayed natively against the real function and std.  normalize_path and symbolic links are outside.", partial=bool(only))
    rep.trusted += ["rustc nightly -Zunpretty=mir", "engines/mir2smt.py", "the std::path contract model in props/c31.py (validated natively on every explored path)", "z3 " + z3.get_version_string()]
    s = Scratch("c31")
    try:
        text, dt, err, rc = M.dump_mir(s, "erg_common", overflow_checks=True, extra_cargo=["--lib"])
        if rc != 0 or len(text) < 1000:
            log("MIR dump failed:\n" + err[-3000:])
            rep.add(Obligation(key="mir-dump", verdict=BROKEN, reason="cargo +nightly rustc -Zunpretty=mir failed"))
            return rep.finish()
        log("  MIR dump erg_common: %.0fs, %d KB" % (dt, len(text) >> 10))
        fns = M.parse_mir(text, want=["cheap_canonicalize_path"])
        fn = [f for f in fns.values() if f.short == "cheap_canonicalize_path"]
        ltxt = s.read("crates/erg_common/lib.rs")
        rep.add_function("cheap_canonicalize_path", "crates/erg_common/lib.rs", extract_fn(ltxt, "cheap_canonicalize_path"))
        if len(fn) != 1:
            rep.add(Obligation(key="mir/function", verdict=BROKEN, reason="cheap_canonicalize_path not found in the MIR dump"))
            return rep.finish()
        fn = fn[0]
        enums = {"Option": ["None", "Some"], "Component": ["Prefix", "RootDir", "CurDir", "ParentDir", "Normal"]}
        kmax = 4 if tier == "quick" else 6
        all_paths = []          # (kinds, names, predicted string)
        to_report = []

        def deref(I, st, v):
            if isinstance(v, M.Ref):
                fr = I.frame_by_id(st, v.frame)
                return I.load_raw(st, fr, v.local, list(v.proj))
            return v

        def put(I, st, r, val):
            fr = I.frame_by_id(st, r.frame)
            if r.proj:
                raise M.Unsupported("projected reference to a path object")
            fr.locals[r.local] = val

        def kind_of(I, st, comp):
            ks = [k for k in (0, ROOT, CUR, PARENT, NORMAL) if I.feasible(st.pc, comp.discr == k)]
            if len(ks) != 1:
                raise M.Unsupported("component kind not determined on this path (%s)" % ks)
            return ks[0]

        for k in range(0, kmax + 1):
            if only and only != "k%d" % k:
                continue
            I = M.Interp(fns, enums, max_paths=6000, timeout_s=600)
            comps = []
            assm = []
            for i in range(k):
                c = M.Enum("std::path::Component<'_>", z3.BitVec("c%d_kind" % i, 64), {"Normal": {0: OsV(NORMAL, z3.BitVec("c%d_name" % i, 8))}})
                comps.append(c)
                allowed = [PARENT, NORMAL] + ([ROOT, CUR] if i == 0 else [])
                assm.append(z3.Or([c.discr == a for a in allowed]))

            def comp_of(entry):
                kd = {"root": ROOT, "parent": PARENT, "cur": CUR, "name": NORMAL}[entry[0]]
                pl = {"Normal": {0: OsV(NORMAL, entry[1])}} if kd == NORMAL else {}
                return M.Enum("std::path::Component<'_>", M.bv(64, kd), pl)

            def m_components(I_, st, fr, callee, args, dty, work, at):
                a = deref(I_, st, args[0])
                if isinstance(a, M.Ref):
                    a = deref(I_, st, a)
                if isinstance(a, PBuf):          # the components of a buffer built so far
                    return PIter(tuple(comp_of(e) for e in a.entries))
                return PIter(tuple(comps))       # the input path

            def m_next_back(I_, st, fr, callee, args, dty, work, at):
                r = args[0]
                it = deref(I_, st, r)
                if it.pos >= len(it.items):
                    return M.Enum(dty, M.bv(64, 0), {})
                put(I_, st, r, PIter(it.items[:-1], it.pos))
                return M.Enum(dty, M.bv(64, 1), {"Some": {0: it.items[-1]}})

            def m_ident(I_, st, fr, callee, args, dty, work, at):
                return args[0]

            def m_peek(I_, st, fr, callee, args, dty, work, at):
                it = deref(I_, st, args[0])
                if it.pos >= len(it.items):
                    return M.Enum(dty, M.bv(64, 0), {})
                return M.Enum(dty, M.bv(64, 1), {"Some": {0: it.items[it.pos]}})       # cloned() right after: the component itself

            def m_next(I_, st, fr, callee, args, dty, work, at):
                r = args[0]
                it = deref(I_, st, r)
                if it.pos >= len(it.items):
                    return M.Enum(dty, M.bv(64, 0), {})
                put(I_, st, r, PIter(it.items, it.pos + 1))
                return M.Enum(dty, M.bv(64, 1), {"Some": {0: it.items[it.pos]}})

            def m_as_os_str(I_, st, fr, callee, args, dty, work, at):
                c = args[0]
                kd = kind_of(I_, st, c)
                if kd == NORMAL:
                    return c.payload["Normal"][0]
                return OsV(kd)

            def m_pb_new(I_, st, fr, callee, args, dty, work, at):
                return PBuf(())

            def m_pb_from(I_, st, fr, callee, args, dty, work, at):
                raise M.Unsupported("PathBuf::from(prefix): no prefixes on this platform")

            def m_push(I_, st, fr, callee, args, dty, work, at):
                r, o = args
                pb = deref(I_, st, r)
                if isinstance(o, M.Opaque) and o.tag.strip('"') in ("..", ".", "/"):
                    o = OsV({"..": PARENT, ".": CUR, "/": ROOT}[o.tag.strip('"')])
                if not isinstance(o, OsV) or not isinstance(pb, PBuf):
                    raise M.Unsupported("PathBuf::push argument %r" % (o,))
                if o.kind == ROOT:
                    put(I_, st, r, PBuf((("root",),)))           # pushing an absolute path replaces the buffer
                elif o.kind == NORMAL:
                    put(I_, st, r, PBuf(pb.entries + (("name", o.name),)))
                elif o.kind == PARENT:
                    put(I_, st, r, PBuf(pb.entries + (("parent",),)))
                elif o.kind == CUR:
                    put(I_, st, r, PBuf(pb.entries + (("cur",),)))
                return M.Agg("()", [])

            def m_pop(I_, st, fr, callee, args, dty, work, at):
                r = args[0]
                pb = deref(I_, st, r)
                if pb.entries and pb.entries[-1][0] != "root":
                    put(I_, st, r, PBuf(pb.entries[:-1]))
                    return M.Scalar(z3.BoolVal(True), "bool")
                return M.Scalar(z3.BoolVal(False), "bool")

            def m_parent(I_, st, fr, callee, args, dty, work, at):
                # Path::parent on a PathBuf model (used by refactorings of the `..` arm): None for `/` and for the empty path
                pb = deref(I_, st, args[0])
                if isinstance(pb, M.Ref):
                    pb = deref(I_, st, pb)
                if not isinstance(pb, PBuf):
                    raise M.Unsupported("Path::parent argument")
                if pb.entries and pb.entries[-1][0] != "root":
                    return M.Enum(dty, M.bv(64, 1), {"Some": {0: PBuf(pb.entries[:-1])}})
                return M.Enum(dty, M.bv(64, 0), {})

            def m_unwrap_or_default(I_, st, fr, callee, args, dty, work, at):
                e = args[0]
                if z3.is_true(z3.simplify(e.discr == 1)):
                    return e.payload["Some"][0]
                return PBuf(())

            def m_opt_map_to_path_buf(I_, st, fr, callee, args, dty, work, at):
                return args[0]
            I.models[r"^Path::components$"] = m_components
            I.models[r"as Iterator>::peekable$|as IntoIterator>::into_iter$|^Option::<&Component<'_>>::cloned$|^Path::to_path_buf$|as Deref>::deref$|as AsRef<Path>>::as_ref$|^PathBuf::as_path$"] = m_ident
            I.models[r"^Peekable::<Components<'_>>::peek$"] = m_peek
            I.models[r"^<Peekable<Components<'_>> as Iterator>::next$|^<Components<'_> as Iterator>::next$"] = m_next
            I.models[r"as DoubleEndedIterator>::next_back$"] = m_next_back
            I.models[r"^Component::<'_>::as_os_str$"] = m_as_os_str
            I.models[r"^PathBuf::new$"] = m_pb_new
            I.models[r"^<PathBuf as From<&OsStr>>::from$"] = m_pb_from
            I.models[r"^PathBuf::push::<"] = m_push
            I.models[r"^PathBuf::pop$"] = m_pop
            I.models[r"^Path::parent$"] = m_parent
            I.models[r"^Option::<PathBuf>::unwrap_or_default$"] = m_unwrap_or_default
            I.models[r"^Option::<&Path>::map::<PathBuf"] = m_opt_map_to_path_buf
            base = dict(engine="mir2smt (MIR -> z3 %s)" % z3.get_version_string(), solver="z3", functions=["cheap_canonicalize_path"],
                        shape="paths of %d component(s)" % k, symbolic=["the kind of every component (RootDir/CurDir only first, ParentDir, Normal)", "component names (8-bit ids)"],
                        bounds={"components": k})
            t0 = time.time()
            outs = I.run(fn, [M.Opaque("&Path", "path")], assm)
            base["stubs"] = sorted(I.models_used)
            unsup = [o for o in outs if o.kind == "unsupported"]
            if unsup:
                rep.add(Obligation(base, key="canon/k=%d" % k, verdict=INCONCLUSIVE, reason="unsupported-construct: %s @%s" % (unsup[0].msg[:160], unsup[0].where)))
                continue
            bad = None
            npaths = 0
            for o in outs:
                if o.kind == "panic":
                    I.solver.push()
                    for c in list(o.pc) + assm:
                        I.solver.add(c)
                    if I.solver.check() == z3.sat:
                        mdl = I.solver.model()
                        kinds = [mdl.eval(c.discr, model_completion=True).as_long() for c in comps]
                        bad = bad or (kinds, None, "a panic is reachable: " + o.msg)
                    I.solver.pop()
                    continue
                I.solver.push()
                for c in list(o.pc) + assm:
                    I.solver.add(c)
                r = I.solver.check()
                mdl = I.solver.model() if r == z3.sat else None
                I.solver.pop()
                if mdl is None:
                    continue
                npaths += 1
                kinds = [mdl.eval(c.discr, model_completion=True).as_long() for c in comps]
                got = o.value.entries if isinstance(o.value, PBuf) else None
                # reference: lexical resolution
                absolute = bool(kinds) and kinds[0] == ROOT
                stack = []
                for i, kd in enumerate(kinds):
                    if kd in (ROOT, CUR):
                        continue
                    if kd == PARENT:
                        if stack and stack[-1][0] == "name":
                            stack.pop()
                        elif absolute and not stack:
                            pass
                        else:
                            stack.append(("parent",))
                    else:
                        stack.append(("name", i))
                want = ([("root",)] if absolute else []) + stack

                def norm(entries):
                    out_ = []
                    for e in entries or ():
                        if e[0] == "name":
                            nm = e[1]
                            if not isinstance(nm, int):
                                nm = [j for j, c in enumerate(comps) if c.payload["Normal"][0].name is nm][0]
                            out_.append(("name", nm))
                        else:
                            out_.append((e[0],))
                    return out_

                def as_str(entries, kinds_):
                    parts = []
                    root = False
                    for e in entries:
                        if e[0] == "root":
                            root = True
                        elif e[0] == "parent":
                            parts.append("..")
                        elif e[0] == "cur":
                            parts.append(".")
                        else:
                            parts.append("n%d" % e[1])
                    return ("/" if root else "") + "/".join(parts)
                inp = ("/" if absolute else "") + "/".join({CUR: ".", PARENT: "..", NORMAL: None, ROOT: ""}[kd] if kd != NORMAL else "n%d" % i for i, kd in enumerate(kinds) if kd != ROOT)
                all_paths.append((k, kinds, inp, as_str(norm(got), kinds) if got is not None else None, as_str(want, kinds)))
                if got is None or norm(got) != want:
                    bad = bad or (kinds, inp, "cheap_canonicalize_path(%r) is %r in the model, lexical resolution gives %r" % (inp, as_str(norm(got), kinds) if got is not None else None, as_str(want, kinds)))
            if npaths == 0:
                rep.add(Obligation(base, key="canon/k=%d" % k, verdict=BROKEN, reason="no path explored (vacuous)"))
            elif bad:
                ob = Obligation(base, key="canon/k=%d" % k, verdict=VIOLATED, model={"kinds": [KIND.get(x, x) for x in bad[0]], "path": bad[1]}, reason=bad[2], queries=I.queries)
                rep.add(ob)
                to_report.append((ob, bad[1]))
            else:
                rep.add(Obligation(base, key="canon/k=%d" % k, verdict=HELD, queries=I.queries, solver_s=round(I.solver_s, 3),
                                   reason="for all %d kind sequences of %d component(s) the result is the lexically resolved path (leading `..` kept, `.` and resolvable `..` removed)" % (npaths, k)))
        # native: every explored path through the real function (translation validation of the std::path model) + replay of counterexamples
        if all_paths:
            nr = NativeRun(s, "erg_common", "crates/erg_common/lib.rs")
            seen = {}
            for k, kinds, inp, pred, want in all_paths:
                if inp not in seen:
                    seen[inp] = "p%d" % len(seen)
                    nr.add(seen[inp], 'cheap_canonicalize_path(std::path::Path::new("%s")).to_string_lossy().to_string()' % inp)
            res, _dt = nr.run()
            if res is None:
                rep.add(Obligation(key="translation-validation", engine="native", verdict=BROKEN, reason="native build/run failed: " + nr.logs.get("dev", "")[-300:]))
            else:
                mism = []
                for k, kinds, inp, pred, want in all_paths:
                    real = res.get(seen[inp])
                    if real != pred:
                        mism.append("%r: model %r, real %r" % (inp, pred, real))
                    else:
                        rep.replayed += 1
                if mism:
                    rep.add(Obligation(key="translation-validation", engine="mir2smt vs native", verdict=BROKEN,
                                       reason="the std::path model disagrees with the real code on: " + "; ".join(mism[:4])))
                else:
                    rep.add(Obligation(key="translation-validation", engine="mir2smt vs native (cargo test on the scratch copy)", verdict=HELD, nontrivial=False,
                                       reason="all %d explored paths give natively exactly the string the model predicts" % len(seen)))
                for ob, inp in to_report:
                    if inp is not None:
                        ob["native_replay"] = {"input": inp, "real": res.get(seen.get(inp))}
        rep.assumptions += [
            "std::path is the environment, modelled by its documented contract (Unix): Components yields RootDir / CurDir only as the first item and drops interior `.`; "
            "PathBuf::push(root) replaces, push(other) appends; PathBuf::pop removes the last component, `..` included, and is a no-op on `/` and on the empty path; the model is "
            "validated natively on every explored path",
            "normalize_path (verbatim-prefix stripping, case folding on case-insensitive platforms) is not encoded; symbolic links and the file system are outside (the reference is lexical resolution)",
            "components beyond the stated count are outside the claim; names are opaque and distinct ids",
        ]
        rep.extra["explored_paths"] = len(all_paths)
        return rep.finish()
    finally:
        s.cleanup()
