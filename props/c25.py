"""C25 — REPL results stay in step; the client-server framing decodes every message exactly as sent.

Engines:
  * Kani/CBMC over the real root crate (`src/dummy.rs`): `Inst::from`, `Message::new`,
    `MessageStream::{send_msg, recv_msg}` over a harness stream whose `read`/`write` transfer an arbitrary
    number k >= 1 of the requested bytes per call (k is a solver variable per call).
  * CrossHair (z3) over `MessageStream` cut out of the real `src/scripts/repl_server.py`, over a fake
    socket whose recv(n)/send(b) transfer an arbitrary non-empty prefix.
Shape concrete, scalars symbolic: payload length per harness is concrete; payload bytes, instruction byte
and every chunk size are symbolic.  The 16-bit size field is decided with a symbolic payload length."""
import os
import re
import subprocess
import sys
import tempfile
import time

from common import (BROKEN, HELD, INCONCLUSIVE, VIOLATED, Obligation, Report, Scratch, extract_fn, log, sh, VERIF)
from kani import Harness, KaniRun, confirm_violations

PIPE = r"""
    /// Harness stream: a byte pipe.  `chunk` = 0: every read()/write() moves an arbitrary number k >= 1 of the bytes
    /// asked for (k is a solver variable per call); `chunk` = c > 0: moves min(c, asked, available) bytes (a concrete
    /// split pattern, so that CBMC's constant propagation keeps the header bytes concrete).  `hdr` > 0: reads that
    /// start inside the 3-byte header use the concrete chunk `hdr` even when chunk == 0.
    pub struct Pipe<const N: usize> { pub buf: [u8; N], pub r: usize, pub w: usize, pub reads: usize, pub writes: usize,
                                      pub chunk: usize, pub hdr: usize, pub frame0: usize }
    impl<const N: usize> Pipe<N> { pub fn new(chunk: usize, hdr: usize) -> Self {
        Pipe { buf: [0u8; N], r: 0, w: 0, reads: 0, writes: 0, chunk, hdr, frame0: 0 } } }
    impl<const N: usize> std::io::Read for Pipe<N> {
        fn read(&mut self, out: &mut [u8]) -> std::io::Result<usize> {
            let avail = self.w - self.r;
            if out.is_empty() || avail == 0 { return Ok(0); }
            let max = if avail < out.len() { avail } else { out.len() };
            let c = if self.hdr > 0 && self.r < 3 { self.hdr } else { self.chunk };
            let k: usize = if max == 1 { 1 } else if c > 0 { if c < max { c } else { max } } else {
                let k: usize = kani::any(); kani::assume(k >= 1 && k <= max); k };
            let mut i = 0;
            while i < k { out[i] = self.buf[self.r + i]; i += 1; }
            self.r += k; self.reads += 1;
            Ok(k)
        }
    }
    impl<const N: usize> std::io::Write for Pipe<N> {
        fn write(&mut self, inp: &[u8]) -> std::io::Result<usize> {
            let room = N - self.w;
            if inp.is_empty() || room == 0 { return Ok(0); }
            let max = if room < inp.len() { room } else { inp.len() };
            let c = self.chunk;
            let k: usize = if max == 1 { 1 } else if c > 0 { if c < max { c } else { max } } else {
                let k: usize = kani::any(); kani::assume(k >= 1 && k <= max); k };
            let mut i = 0;
            while i < k { self.buf[self.w + i] = inp[i]; i += 1; }
            self.w += k; self.writes += 1;
            Ok(k)
        }
        fn flush(&mut self) -> std::io::Result<()> { Ok(()) }
    }
    pub fn __inst_ok(b: u8, i: Inst) -> bool {
        match b { 1 => i == Inst::Print, 2 => i == Inst::Load, 3 => i == Inst::Exception, 4 => i == Inst::Initialize,
                  5 => i == Inst::Exit, 6 => i == Inst::Execute, _ => i == Inst::Unknown }
    }
"""


def chunk_name(c):
    return "sym" if c == 0 else "c%d" % c


def h_send(l, chunk, some_empty=False):
    """send_msg puts inst, 2-byte big-endian length and the payload on the wire, however write() splits it."""
    n = 3 + l
    L = ["        let mut st = MessageStream::new(Pipe::<%d>::new(%d, 0));" % (n, chunk),
         "        let b: u8 = kani::any(); kani::assume(b >= 1 && b <= 6); let inst = Inst::from(b);",
         "        assert!(__inst_ok(b, inst) && inst as u8 == b, \"inst: Inst::from is the inverse of `as u8` on 1..=6\");"]
    if l > 0:
        L += ["        let d: [u8; %d] = kani::any();" % l, "        let m = Message::new(inst, Some(d.to_vec()));"]
    elif some_empty:
        L += ["        let m = Message::new(inst, Some(Vec::new()));"]
    else:
        L += ["        let m = Message::new(inst, None);"]
    L += ["        assert!(m.size as usize == %d, \"size: header size field equals the payload length\");" % l,
          "        kani::cover!(true, \"reach\");",
          "        let r = st.send_msg(&m); assert!(r.is_ok(), \"send-ok: send_msg succeeds on a writable stream\"); std::mem::forget(r);",
          "        assert!(st.stream.w == %d, \"wire-len: exactly 3 + len bytes are written\");" % n,
          "        assert!(st.stream.buf[0] == b && st.stream.buf[1] == %d && st.stream.buf[2] == %d, \"header: 1-byte inst, 2-byte big-endian length\");" % ((l >> 8) & 255, l & 255)]
    if l > 0:
        L += ["        { let mut j = 0; let mut ok = true; while j < %d { if st.stream.buf[3 + j] != d[j] { ok = false; } j += 1; } assert!(ok, \"wire-data: payload bytes follow the header unchanged\"); }" % l]
    if n > 1 and chunk != 0 and chunk < n:
        L += ["        kani::cover!(st.stream.writes > 1, \"reach-split\");"]
    L += ["        std::mem::forget(m); std::mem::forget(st);"]
    asserts = {"inst": "", "size": "", "send-ok": "", "wire-len": "", "header": ""}
    if l > 0:
        asserts["wire-data"] = ""
    covers = ["reach"] + (["reach-split"] if (n > 1 and chunk != 0 and chunk < n) else [])
    name = "send_%d_%s%s" % (l, chunk_name(chunk), "_someempty" if some_empty else "")
    return Harness(name, "\n".join(L), "framing-rust/send/len=%d%s/%s" % (l, "/Some(empty)" if some_empty else "", chunk_name(chunk)),
                   unwind=n + 4, fmt_stub=True, asserts=asserts, covers=covers,
                   meta=dict(shape="one message, payload length %d, write split: %s" % (l, "arbitrary (symbolic k per call)" if chunk == 0 else "%d bytes per call" % chunk),
                             symbolic=["instruction byte 1..=6", "every payload byte"] + (["chunk size k of every write() call"] if chunk == 0 else []),
                             bounds={"payload_bytes": l}, cost=n * (8 if chunk == 0 else 1)))


def h_recv(lens, chunk, hdr):
    """frames with payload lengths `lens` lie on the wire back to back; recv_msg decodes each as sent and stops at the boundary."""
    total = sum(3 + l for l in lens)
    L = ["        let mut st = MessageStream::new(Pipe::<%d>::new(%d, %d));" % (total, chunk, hdr)]
    off = 0
    for i, l in enumerate(lens):
        L.append("        let b%d: u8 = kani::any();" % i)
        L.append("        st.stream.buf[%d] = b%d; st.stream.buf[%d] = %d; st.stream.buf[%d] = %d;" % (off, i, off + 1, (l >> 8) & 255, off + 2, l & 255))
        if l > 0:
            L.append("        let d%d: [u8; %d] = kani::any();" % (i, l))
            L.append("        { let mut j = 0; while j < %d { st.stream.buf[%d + j] = d%d[j]; j += 1; } }" % (l, off + 3, i))
        off += 3 + l
    L.append("        st.stream.w = %d;" % total)
    L.append("        kani::cover!(true, \"reach\");")
    for i, l in enumerate(lens):
        L.append("        let g%d = st.recv_msg();" % i)
        L.append("        assert!(g%d.is_ok(), \"recv-ok: recv_msg succeeds when a whole frame is available, however it is split into reads\");" % i)
        L.append("        if let Ok(g) = &g%d {" % i)
        L.append("            assert!(__inst_ok(b%d, g.inst), \"rt-inst: instruction decoded as sent\");" % i)
        L.append("            assert!(g.size as usize == %d, \"rt-size: size decoded as sent\");" % l)
        if l > 0:
            L.append("            match &g.data { Some(v) => { assert!(v.len() == %d, \"rt-len: payload length as sent\");" % l)
            L.append("                let mut j = 0; let mut ok = true; while j < %d { if v[j] != d%d[j] { ok = false; } j += 1; } assert!(ok, \"rt-data: payload bytes as sent\"); }" % (l, i))
            L.append("              None => { assert!(false, \"rt-none: a payload is present\"); } }")
        else:
            L.append("            assert!(g.data.as_ref().map(|v| v.len()).unwrap_or(0) == 0, \"rt-len: payload length as sent\");")
        L.append("        }")
        L.append("        std::mem::forget(g%d);" % i)
    L.append("        assert!(st.stream.r == st.stream.w, \"boundary: the stream is left at the frame boundary (nothing unread, nothing over-read)\");")
    L.append("        std::mem::forget(st);")
    asserts = {"recv-ok": "", "rt-inst": "", "rt-size": "", "rt-len": "", "boundary": ""}
    if sum(lens) > 0:
        asserts["rt-data"] = ""
    name = "recv_" + "_".join(str(l) for l in lens) + "_%s_h%d" % (chunk_name(chunk), hdr)
    split = "payload reads arbitrary (symbolic k per call)" if chunk == 0 else "%d bytes per read" % chunk
    if hdr:
        split += ", header reads %d byte(s) per call" % hdr
    return Harness(name, "\n".join(L), "framing-rust/recv/len=%s/%s/h%d" % (",".join(map(str, lens)), chunk_name(chunk), hdr),
                   unwind=max(lens + [3]) + 4, fmt_stub=True, asserts=asserts, covers=["reach"],
                   meta=dict(shape="%d frame(s) on the wire, payload lengths %s; %s" % (len(lens), lens, split),
                             symbolic=["instruction byte (all 256)", "every payload byte"] + (["chunk size k of every payload read()"] if chunk == 0 else []),
                             bounds={"payload_bytes": lens}, cost=total * (8 if chunk == 0 else 1)))


def h_sizefield():
    body = """        let n: usize = kani::any();
        kani::assume(n <= 131072);
        let b: u8 = kani::any();
        let v: Vec<u8> = vec![0u8; n];
        kani::cover!(n > 65535, "reach-big");
        kani::cover!(n == 65535, "reach-edge");
        let m = Message::new(Inst::from(b), Some(v));
        let dl = m.data.as_ref().map(|d| d.len()).unwrap_or(0);
        assert!(m.size as usize == dl, "agree: the header size field equals the number of payload bytes send_msg will write (else the next frame is misread)");
        std::mem::forget(m);"""
    return Harness("sizefield", body, "Message::new/size-field", unwind=3, fmt_stub=True,
                   asserts={"agree": "size field == data.len() for every payload length up to 2^17"},
                   covers=["reach-big", "reach-edge"],
                   meta=dict(shape="payload of symbolic length n <= 131072 (zero bytes)", symbolic=["n: usize <= 2^17", "instruction byte"],
                             bounds={"n_max": 131072}, cost=50))


def h_instfrom():
    body = """        let b: u8 = kani::any();
        kani::cover!(true, "reach");
        let i = Inst::from(b);
        assert!(__inst_ok(b, i), "table: Inst::from maps 1..=6 to the documented instructions and every other byte to Unknown");
        assert!(b > 6 || b == 0 || i as u8 == b, "inverse: `as u8` inverts Inst::from on 1..=6");"""
    return Harness("inst_from", body, "Inst::from/all-bytes", fmt_stub=True,
                   asserts={"table": "", "inverse": ""}, covers=["reach"],
                   meta=dict(shape="every byte", symbolic=["b: u8"], bounds={}, cost=1))


def h_trunc(l):
    """a stream that ends inside a frame gives Err, not a panic and not a short message."""
    body = """        let mut st = MessageStream::new(Pipe::<%d>::new(1, 1));
        let cut: usize = kani::any(); kani::assume(cut < %d);
        let hdr: [u8; %d] = kani::any();
        let mut j = 0; while j < %d { st.stream.buf[j] = hdr[j]; j += 1; }
        st.stream.buf[1] = 0; st.stream.buf[2] = %d;
        st.stream.w = cut;
        kani::cover!(true, "reach");
        let g = st.recv_msg();
        assert!(g.is_err(), "trunc-err: a frame cut short is an error, never a message");
        std::mem::forget(g); std::mem::forget(st);""" % (3 + l, 3 + l, 3 + l, 3 + l, l)
    return Harness("trunc_%d" % l, body, "framing-rust/truncated/len=%d" % l, unwind=l + 8, fmt_stub=True,
                   asserts={"trunc-err": ""}, covers=["reach"],
                   meta=dict(shape="frame of payload length %d cut after `cut` < %d bytes" % (l, 3 + l),
                             symbolic=["cut", "bytes", "chunk sizes"], bounds={}, cost=l * 4 + 20))


# ---------------------------------------------------------------------------------------------
# Python side: CrossHair over the class cut out of the real script

PY_HARNESS = '''
from typing import List, Tuple

class FakeSocket:
    """recv(n) returns an arbitrary non-empty prefix (length chosen by `cuts`) of what is pending, at most n bytes;
    send(b) accepts an arbitrary non-empty prefix and returns its length (like socket.send); sendall accepts all."""
    def __init__(self, pending: bytes, cuts: List[int]):
        self.pending = bytearray(pending)
        self.cuts = list(cuts)
        self.sent = bytearray()
        self.calls = 0
    def _k(self, mx: int) -> int:
        self.calls += 1
        if self.cuts:
            c = self.cuts.pop(0)
            if 1 <= c <= mx:
                return c
        return mx
    def recv(self, n: int) -> bytes:
        mx = min(n, len(self.pending))
        if mx <= 0:
            return b""
        k = self._k(mx)
        out = bytes(self.pending[:k])
        del self.pending[:k]
        return out
    def send(self, b: bytes) -> int:
        if len(b) == 0:
            return 0
        k = self._k(len(b))
        self.sent.extend(b[:k])
        return k
    def sendall(self, b: bytes) -> None:
        self.sent.extend(b)
    def close(self):
        pass


def frame(inst: int, payload: bytes) -> bytes:
    return bytes([inst]) + len(payload).to_bytes(2, "big") + payload
'''


def py_functions(tier):
    """one CrossHair condition per concrete shape; every parameter is an int (instruction, payload bytes, chunk sizes)"""
    out = []
    recv_shapes = [[0], [1], [2], [3], [1, 1], [0, 2]] if tier == "quick" else [[0], [1], [2], [3], [4], [6], [1, 1], [0, 2], [2, 1], [1, 0, 1]]
    send_shapes = [0, 1, 3] if tier == "quick" else [0, 1, 2, 3, 5]
    maxcuts = 4 if tier == "quick" else 6
    for lens in recv_shapes:
        total = sum(3 + l for l in lens)
        ps, pre, frames, exp = [], [], [], []
        for i, l in enumerate(lens):
            ps.append("i%d: int" % i)
            pre.append("0 <= i%d <= 255" % i)
            bs = ["b%d_%d" % (i, j) for j in range(l)]
            ps += [x + ": int" for x in bs]
            pre += ["0 <= %s < 128" % x for x in bs]
            frames.append("frame(i%d, bytes([%s]))" % (i, ", ".join(bs)))
            exp.append("(i%d, bytes([%s]).decode('utf-8'))" % (i, ", ".join(bs)))
        cs = ["c%d" % k for k in range(min(total, maxcuts))]
        ps += [c + ": int" for c in cs]
        name = "recv_" + "_".join(map(str, lens))
        body = "def %s(%s) -> bool:\n    \"\"\"\n    pre: %s\n    post: __return__\n    \"\"\"\n" % (name, ", ".join(ps), " and ".join(pre))
        body += "    sock = FakeSocket(%s, [%s])\n    st = MessageStream(sock)\n" % (" + ".join(frames), ", ".join(cs))
        body += "    got = [st.recv_msg() for _ in range(%d)]\n" % len(lens)
        body += "    return got == [%s] and len(sock.pending) == 0\n" % ", ".join(exp)
        out.append((name, body, "recv_msg decodes %d frame(s) with payload lengths %s exactly as sent, however recv() splits the stream, and stops at the frame boundary" % (len(lens), lens),
                    dict(shape="frames with payload lengths %s" % lens, chunks=min(total, maxcuts))))
    for l in send_shapes:
        bs = ["b%d" % j for j in range(l)]
        cs = ["c%d" % k for k in range(min(3 + l, maxcuts))]
        ps = ["inst: int"] + [x + ": int" for x in bs + cs]
        pre = ["0 <= inst <= 255"] + ["0 <= %s < 128" % x for x in bs]
        name = "send_%d" % l
        body = "def %s(%s) -> bool:\n    \"\"\"\n    pre: %s\n    post: __return__\n    \"\"\"\n" % (name, ", ".join(ps), " and ".join(pre))
        body += "    data = bytes([%s]).decode('utf-8')\n    sock = FakeSocket(b'', [%s])\n    st = MessageStream(sock)\n    st.send_msg(inst, data)\n" % (", ".join(bs), ", ".join(cs))
        body += "    return bytes(sock.sent) == frame(inst, data.encode())\n"
        out.append((name, body, "send_msg puts inst + 2-byte big-endian length + data (%d bytes) on the wire, however send() splits it" % l,
                    dict(shape="payload length %d" % l, chunks=min(3 + l, maxcuts))))
    # non-ASCII payloads: the size field counts bytes, not characters
    body = ("def send_u(inst: int, c: int, d: int, c0: int, c1: int) -> bool:\n    \"\"\"\n    pre: 0 <= inst <= 255 and 128 <= c <= 0x7ff and 0 <= d < 128\n    post: __return__\n    \"\"\"\n"
            "    data = chr(c) + chr(d)\n    sock = FakeSocket(b'', [c0, c1])\n    st = MessageStream(sock)\n    st.send_msg(inst, data)\n"
            "    return bytes(sock.sent) == frame(inst, data.encode())\n")
    out.append(("send_u", body, "send_msg of a payload with a 2-byte character announces its byte length", dict(shape="payload = one 2-byte UTF-8 character + one ASCII character", chunks=2)))
    body = ("def recv_u(inst: int, b0: int, b1: int, c0: int, c1: int, c2: int) -> bool:\n    \"\"\"\n    pre: 0 <= inst <= 255 and 0xC2 <= b0 <= 0xDF and 0x80 <= b1 <= 0xBF\n    post: __return__\n    \"\"\"\n"
            "    payload = bytes([b0, b1])\n    sock = FakeSocket(frame(inst, payload), [c0, c1, c2])\n    st = MessageStream(sock)\n    got = st.recv_msg()\n"
            "    return got == (inst, payload.decode('utf-8')) and len(sock.pending) == 0\n")
    out.append(("recv_u", body, "recv_msg decodes a 2-byte UTF-8 payload however the stream is split", dict(shape="payload = one 2-byte UTF-8 character", chunks=3)))
    return out


def cut_class(text, name):
    m = re.search(r"^class %s\b.*?(?=^\S)" % name, text, re.S | re.M)
    return m.group(0) if m else None


def crosshair(rep, s, tier):
    src = s.read("src/scripts/repl_server.py")
    cls = cut_class(src, "MessageStream")
    rep.add_function("repl_server.py MessageStream", "src/scripts/repl_server.py", cls)
    if not cls:
        rep.add(Obligation(key="framing-python/*", engine="crosshair", verdict=BROKEN, reason="class MessageStream not found in repl_server.py"))
        return
    d = os.path.join(s.root, "py")
    os.makedirs(d, exist_ok=True)
    funcs = py_functions(tier)
    # the script's own top-level imports come along (the class may use them); its top level proper opens a socket and cannot be imported
    imports = "\n".join(l for l in src.splitlines() if re.match(r"^(import |from \S+ import )", l))
    mod = imports + "\n\n" + cls + "\n" + PY_HARNESS + "\n\n" + "\n\n".join(f[1] for f in funcs)
    path = os.path.join(d, "repl_framing.py")
    with open(path, "w") as f:
        f.write(mod)
    cap = 240 if tier == "quick" else 900
    import concurrent.futures

    def one(fn):
        return sh(["python3-vt", "-m", "crosshair", "check", "--report_all", "--per_condition_timeout", str(cap),
                   "--per_path_timeout", str(cap), "repl_framing." + fn],
                  cwd=d, env=dict(os.environ, PYTHONPATH=d), timeout=cap * 2 + 60)
    with concurrent.futures.ThreadPoolExecutor(max_workers=6) as ex:
        results = list(ex.map(one, [f[0] for f in funcs]))
    for (fn, _, what, meta), (rc, out, dt) in zip(funcs, results):
        o = Obligation(key="framing-python/%s" % fn, engine="CrossHair (z3) on the class text cut from the real script",
                       functions=["repl_server.py MessageStream.recv_msg / send_msg"],
                       shape=meta["shape"] + "; the first %d recv()/send() calls take a symbolic chunk size (any int; out-of-range means 'everything available'), later calls transfer everything" % meta["chunks"],
                       symbolic=["instruction byte", "payload bytes (ASCII)", "chunk size of every recv()/send() call"],
                       bounds={"per_condition_timeout_s": cap},
                       solver="z3 (inside CrossHair)", solver_s=round(dt, 2), detail=out.strip()[-1200:])
        low = out.lower()
        if "confirmed over all paths" in low and "false when calling" not in low and "error:" not in low:
            o.update(verdict=HELD, reason=what)
        elif "when calling" in low:
            m = re.search(r"error: (.*)", out)
            o.update(verdict=VIOLATED, reason=(m.group(1) if m else out.strip())[:400])
        else:
            o.update(verdict=INCONCLUSIVE, reason="CrossHair did not confirm over all paths within %ds: %s" % (cap, out.strip()[-200:]))
        rep.add(o)
    # replay python counterexamples natively (python3.11 on the same module)
    for o in rep.obls:
        if o.get("engine", "").startswith("CrossHair") and o["verdict"] == VIOLATED and not rep.known.lookup(rep.prop, o["key"]):
            m = re.search(r"when calling (\w+\(.*\))", o["reason"])
            if not m:
                o["verdict"] = BROKEN
                o["reason"] = "unparsable CrossHair counterexample: " + o["reason"]
                continue
            call = m.group(1)
            code = "import repl_framing as M\nfrom repl_framing import *\ntry:\n    r = M.%s\nexcept Exception as e:\n    r = repr(e)\nprint('PYREPLAY', r)\n" % call
            rc, out, _ = sh(["python3-vt", "-c", code], cwd=d, timeout=60)
            rep.replayed += 1
            o["native_replay"] = out.strip()[-300:]
            if "PYREPLAY True" in out:
                o["verdict"] = BROKEN
                o["reason"] = "CrossHair counterexample did not reproduce: " + call
            else:
                rd = os.path.join(VERIF, "replays", "C25")
                os.makedirs(rd, exist_ok=True)
                rp = os.path.join(rd, "py_%s.py" % o["key"].split("/")[-1])
                with open(rp, "w") as f:
                    f.write(mod + "\n\nif __name__ == '__main__':\n    print(%s)\n" % call)
                o["replay"] = rp
                o["model"] = call


def py2smt_send(rep, s):
    """send_msg for a payload of *symbolic* length (py2smt): the size field is the UTF-8 byte length for every payload that
    fits the 16-bit field, and nothing is raised; longer payloads are the listed known finding."""
    import z3
    import py2smt as P
    src = s.read("src/scripts/repl_server.py")
    cls = cut_class(src, "MessageStream")
    base = dict(engine="py2smt (ast -> z3 %s)" % z3.get_version_string(), functions=["repl_server.py MessageStream.send_msg"], solver="z3",
                symbolic=["instruction byte", "payload: a string of symbolic character count n and UTF-8 byte length m, n <= m <= 4n (contents opaque)"],
                bounds={"payload_bytes": "unbounded"})
    try:
        I = P.Interp({"repl_server": cls})
        inst = P.VInt("int", z3.Int("inst"))
        n = z3.Int("nchars")
        data = P.VStr("?", length=n)
        sock = P.VObj("socket")
        st = P.VObj("MessageStream")
        st.attrs["socket"] = sock
        st.attrs["_read_buf"] = I.construct("bytearray", [])
        assume = [inst.t >= 0, inst.t <= 255, n >= 0]
        I.base_extra = []
        results = []

        def thunk():
            sock.attrs["_sent"] = []
            try:
                r = I.call(I.getattr_(st, "send_msg"), [inst, data])
                results.append(("ok", list(sock.attrs["_sent"])))
                return r
            except P.PyRaise as e:
                results.append(("raise", e))
                raise
        paths = I.explore(thunk, assume)
        extra = list(I.base_extra)
    except (P.Unsupported, RecursionError) as e:
        rep.add(Obligation(base, key="framing-python/send-any-length/*", verdict=INCONCLUSIVE, reason="unsupported-construct: %s" % e))
        return
    if len(paths) != len(results):
        rep.add(Obligation(base, key="framing-python/send-any-length/*", verdict=INCONCLUSIVE, reason="path bookkeeping mismatch"))
        return
    sol = z3.Solver()
    sol.set("timeout", 20000)

    def sat(conds):
        sol.push()
        for c in conds:
            sol.add(c)
        r = sol.check()
        m = sol.model() if r == z3.sat else None
        sol.pop()
        return str(r), m
    found = {}
    reach = 0
    mlen = None
    for (pc, outc, _), (kind, val) in zip(paths, results):
        r, m = sat(assume + extra + pc)
        if r != "sat":
            continue
        reach += 1
        if kind == "raise":
            # which payload lengths raise?
            found.setdefault("raises", (val.cls, pc))
            continue
        segs = [x for b in val for x in b.segs]
        if len(segs) != 3 or segs[0][0] != "int" or segs[1][0] != "int" or segs[2][0] != "opaque" or segs[0][2] != 1 or segs[1][2] != 2:
            found.setdefault("layout", ("wire is not inst(1) + size(2) + payload: %r" % ([(x[0], x[2]) for x in segs],), pc))
            continue
        mlen = segs[2][2]
        r1, m1 = sat(assume + extra + pc + [segs[0][1] != inst.t])
        if r1 == "sat":
            found.setdefault("layout", ("the first byte is not the instruction", pc))
        r2, m2 = sat(assume + extra + pc + [segs[1][1] != mlen])
        if r2 == "sat":
            found.setdefault("size", ("the size field differs from the payload's byte length, e.g. %s characters / %s bytes -> size %s"
                                      % (m2.eval(n, model_completion=True), m2.eval(mlen, model_completion=True), m2.eval(segs[1][1], model_completion=True)), pc))
    if reach == 0:
        rep.add(Obligation(base, key="framing-python/send-any-length/*", verdict=BROKEN, reason="no path reachable"))
        return
    for key, why in (("layout", "the wire is inst (1 byte) + size (2 bytes, big-endian) + the payload"), ("size", "the size field is the payload's UTF-8 byte length")):
        if key in found:
            rep.add(Obligation(base, key="framing-python/send-any-length/" + key, verdict=VIOLATED, reason=found[key][0], replay_note="symbolic-length counterexample; see the model in the reason"))
        else:
            rep.add(Obligation(base, key="framing-python/send-any-length/" + key, verdict=HELD, reason=why, vacuity={"paths_reachable": reach}))
    # exceptions: only for payloads that do not fit the 16-bit size field
    if "raises" in found and mlen is None:
        # find the byte length term from the raising path: UTF8LEN term appears in extra
        pass
    exc_small = None
    for (pc, outc, _), (kind, val) in zip(paths, results):
        if kind != "raise":
            continue
        # is the exception possible for a payload of at most 65535 bytes?
        lens = [c for c in extra]
        ln_terms = [t for c in extra for t in c.children()] if extra else []
        # the byte length is the UTF8LEN application in `extra` (And(ln >= n, ln <= 4n))
        ln = extra[0].arg(0).arg(0) if extra else None
        if ln is None:
            continue
        r, m = sat(assume + extra + pc + [ln <= 65535])
        if r == "sat":
            exc_small = (val.cls, m.eval(ln, model_completion=True))
        r, m = sat(assume + extra + pc + [ln > 65535])
        if r == "sat":
            rep.add(Obligation(base, key="framing-python/send-any-length/fits-or-fails-cleanly", verdict=VIOLATED,
                               reason="%s is raised inside send_msg for a payload of %s bytes (> 65535): the server thread dies and the session is lost" % (val.cls, m.eval(ln, model_completion=True)),
                               replay_note="python3 -c 'int(70000).to_bytes(2, \"big\")' raises OverflowError; confirmed with the real class below"))
    if exc_small:
        rep.add(Obligation(base, key="framing-python/send-any-length/no-exception<=65535", verdict=VIOLATED,
                           reason="%s is raised for a payload of %s bytes, which fits the 16-bit size field" % exc_small))
    else:
        rep.add(Obligation(base, key="framing-python/send-any-length/no-exception<=65535", verdict=HELD,
                           reason="no exception for any payload of at most 65535 bytes"))
    # native replay of the unlisted ones: run the real class with a payload of the model's size
    for o in rep.obls:
        if o["key"].startswith("framing-python/send-any-length/") and o["verdict"] == VIOLATED and not rep.known.lookup(rep.prop, o["key"]):
            mm = re.search(r"payload of (\d+) bytes|(\d+) characters / (\d+) bytes", o["reason"])
            nbytes = int(mm.group(1) or mm.group(3)) if mm else 40000
            nchars = int(mm.group(2)) if (mm and mm.group(2)) else nbytes
            code = ("import sys\nexec(open(sys.argv[1]).read())\n"
                    "class S:\n    def __init__(self): self.sent = bytearray()\n    def send(self, b): self.sent.extend(b); return len(b)\n    def sendall(self, b): self.sent.extend(b)\n"
                    "s = S(); st = MessageStream(s)\n"
                    "k = %d - %d\ndata = chr(0xe9) * k + 'a' * (%d - 2 * k) if %d >= %d else 'a' * %d\n"
                    "try:\n    st.send_msg(1, data); b = data.encode(); ok = bytes(s.sent) == bytes([1]) + len(b).to_bytes(2, 'big') + b\n    print('PYREPLAY', 'ok' if ok else 'mismatch')\nexcept Exception as e:\n    print('PYREPLAY', 'raised', type(e).__name__)\n"
                    % (nbytes, nchars, nbytes, nbytes, nchars, nbytes))
            d = os.path.join(s.root, "py")
            os.makedirs(d, exist_ok=True)
            with open(os.path.join(d, "ms_class.py"), "w") as f:
                f.write("\n".join(l for l in src.splitlines() if re.match(r"^(import |from \S+ import )", l)) + "\n\n" + cls)
            rc, out, _ = sh(["python3-vt", "-c", code, os.path.join(d, "ms_class.py")], timeout=120)
            rep.replayed += 1
            o["native_replay"] = out.strip()[-200:]
            if "PYREPLAY ok" in out:
                o["verdict"] = BROKEN
                o["reason"] = "counterexample did not reproduce with the real class: " + o["reason"]


def run(tier, seed, only=None):
    rep = Report("C25", tier, seed, "other",
                 "Bounded model checking (Kani/CBMC) of the REPL client framing in src/dummy.rs (Inst::from, Message::new, "
                 "MessageStream::send_msg/recv_msg) over a stream that splits every read and write arbitrarily, for concrete payload "
                 "lengths with symbolic bytes, plus the 16-bit size field for a symbolic payload length up to 2^17; and CrossHair (z3) "
                 "on the server-side MessageStream cut from src/scripts/repl_server.py over a socket returning arbitrary prefixes.",
                 partial=bool(only))
    s = Scratch("c25")
    try:
        kr = KaniRun(s, "erg", "src", tier, workers=8, mem_gb=10, cap=400 if tier == "quick" else 1800)
        kr.extra_args = ["--lib"]
        dtxt = s.read("src/dummy.rs")
        for fn in ("send_msg", "recv_msg"):
            rep.add_function("MessageStream::" + fn, "src/dummy.rs", extract_fn(dtxt, fn))
        rep.add_function("Message::new", "src/dummy.rs", extract_fn(dtxt, "new"))
        rep.add_function("Inst::from", "src/dummy.rs", extract_fn(dtxt, "from"))
        hs = [h_instfrom(), h_sizefield()]
        if tier == "quick":
            sends = [(0, 1), (1, 1), (2, 2), (3, 1), (3, 0)]
            recvs = [([0], 1, 1), ([1], 1, 1), ([2], 1, 2), ([3], 2, 1), ([3], 0, 1), ([3], 0, 2), ([1, 1], 1, 1), ([0, 2], 2, 2), ([2, 0], 1, 3)]
            trunc = [0, 2]
        else:
            sends = [(l, c) for l in (0, 1, 2, 3, 4, 7) for c in (1, 2, 0)]
            recvs = [([l], c, h) for l in (0, 1, 2, 3, 4, 7) for c in (1, 2) for h in (1, 2, 3)] + \
                    [([l], 0, h) for l in (2, 3, 4, 7) for h in (1, 2, 3)] + \
                    [(ls, c, c) for ls in ([1, 1], [0, 2], [2, 0], [3, 1], [1, 0, 1]) for c in (1, 2, 3)]
            trunc = [0, 1, 2, 4]
        for l, c in sends:
            hs.append(h_send(l, c))
        hs.append(h_send(0, 1, some_empty=True))
        for ls, c, h in recvs:
            hs.append(h_recv(ls, c, h))
        for l in trunc:
            hs.append(h_trunc(l))
        for h in hs:
            if not only or only in h.name:
                kr.add("src/dummy.rs", h, PIPE)
        kr.run()
        for h in kr.all_harnesses():
            for o in kr.obligations(h, functions=["src/dummy.rs " + h.role.split("/")[0]]):
                rep.add(o)
        confirm_violations(rep, s, [kr])
        if not only or "py" in only:
            crosshair(rep, s, tier)
            py2smt_send(rep, s)
        rep.trusted += ["Kani 0.68, CBMC 6.11, CaDiCaL", "CrossHair + z3 (python3-vt)", "std::io::Read::read_exact / Write::write_all as compiled from std"]
        rep.assumptions += [
            "the stream delivers bytes in order without loss; read()/write() move any k >= 1 of the requested bytes (no EINTR, no zero-length reads before EOF)",
            "payload lengths beyond the listed ones are decided only through the size-field obligation (symbolic length <= 2^17, zero bytes)",
            "DummyVM::eval end to end (process spawn, TCP, compilation) is outside the claim",
            "Python side (CrossHair): payload bytes ASCII except the two non-ASCII shapes; the first 4 (quick) / 6 (thorough) socket calls take a symbolic chunk size, later calls transfer everything; symbolic payload *length* is decided by py2smt for send_msg only (contents opaque)",
            "std::fmt::format stubbed in the Rust harnesses (eprintln!/error text is not the subject)",
        ]
        rep.extra["kani_build_s"] = kr.build_s
        return rep.finish()
    finally:
        s.cleanup()
