"""`mirflow`: symbolic execution of one rustc-MIR function in which *every call is an uninterpreted function of its
arguments* (z3, one uninterpreted sort).  It decides dataflow obligations of glue code whose callees are decided
elsewhere: "the value passed here is exactly f(g(that local), that field)".  Equality is decided by z3 by congruence; a
term built through a call the obligation does not name can never be proved equal, so refactorings that route the same
value through a helper are reported as *inconclusive* by the caller, not as violations.

Supported MIR: copy/move/ref of places with field, downcast and deref projections, aggregates `T { f: op, .. }` and tuples,
`discriminant(..)`, `switchInt` (forks), `goto`, `drop`, calls, `return`/`unreachable`.  References are (root local, path)
pairs; a call that receives `&mut x` may be given an *effect* by the caller (e.g. String::replace_range)."""
import re

import z3

from mir2smt import parse_mir, split_top

V = z3.DeclareSort("V")
_fun_cache = {}


def fun(name, arity):
    key = (name, arity)
    if key not in _fun_cache:
        _fun_cache[key] = z3.Function(name, *([V] * arity + [V]))
    return _fun_cache[key]


def const(name):
    return z3.Const(name, V)


DISC = z3.Function("discriminant", V, z3.IntSort())


class Ref:
    def __init__(self, local, path=(), mut=False):
        self.local, self.path, self.mut = local, tuple(path), mut

    def __repr__(self):
        return "&%s%s%s" % ("mut " if self.mut else "", self.local, "".join(".%s" % (p,) for p in self.path))


class Unsupported(Exception):
    pass


class Path:
    def __init__(self):
        self.locals = {}
        self.pc = []
        self.calls = []        # (callee name, [arg values], result)
        self.trace = []


class Flow:
    def __init__(self, fn, effects=None, max_steps=400):
        self.fn = fn
        self.effects = effects or {}     # regex -> effect(flow, path, callee, args) -> result value (may mutate path.locals)
        self.max_steps = max_steps
        self.n = 0

    # ---- places
    def parse_place(self, txt):
        """returns (local, [proj...]) where proj is ('field', i) | ('variant', name) | ('deref',)"""
        txt = txt.strip()
        m = re.fullmatch(r"_\d+", txt)
        if m:
            return txt, []
        if txt.startswith("(") and txt.endswith(")"):
            inner = txt[1:-1]
            # (place.N: type)  |  (place as Variant)  |  (*place)
            if inner.startswith("*"):
                l, p = self.parse_place(inner[1:])
                return l, p + [("deref",)]
            m = re.match(r"^(.*) as (\w+)$", inner)
            if m and self._balanced(m.group(1)):
                l, p = self.parse_place(m.group(1))
                return l, p + [("variant", m.group(2))]
            # field: find the last ".N:" at depth 0
            depth = 0
            for i in range(len(inner)):
                c = inner[i]
                if c in "(<[":
                    depth += 1
                elif c in ")>]":
                    depth -= 1
                elif c == ":" and depth == 0 and inner[i + 1:i + 2] == " ":
                    left = inner[:i]
                    mm = re.match(r"^(.*)\.(\d+)$", left)
                    if mm:
                        l, p = self.parse_place(mm.group(1))
                        return l, p + [("field", int(mm.group(2)))]
            raise Unsupported("place syntax: " + txt)
        if txt.startswith("*"):
            l, p = self.parse_place(txt[1:])
            return l, p + [("deref",)]
        raise Unsupported("place syntax: " + txt)

    @staticmethod
    def _balanced(s):
        d = 0
        for c in s:
            if c in "(<[":
                d += 1
            elif c in ")>]":
                d -= 1
            if d < 0:
                return False
        return d == 0

    def init_value(self, P, local):
        if local not in P.locals:
            P.locals[local] = const("init_" + local)       # arbitrary state at the entry block
        return P.locals[local]

    def read(self, P, local, proj):
        v = self.init_value(P, local)
        for p in proj:
            v = self.project(P, v, p)
        return v

    def project(self, P, v, p):
        if p[0] == "deref":
            if isinstance(v, Ref):
                return self.read(P, v.local, list(v.path))
            return fun("deref", 1)(v)
        if isinstance(v, Ref):
            raise Unsupported("projection through a reference without deref")
        if isinstance(v, tuple) and v and v[0] == "agg":
            if p[0] == "field" and p[1] < len(v[2]):
                return v[2][p[1]]
            raise Unsupported("projection of an aggregate")
        if p[0] == "field":
            return fun("field%d" % p[1], 1)(v)
        if p[0] == "variant":
            return fun("as_" + p[1], 1)(v)
        raise Unsupported("projection " + repr(p))

    def referent(self, P, a):
        """the value a reference argument points to (references into locals, and references into an unknown pointer's referent)"""
        if isinstance(a, Ref):
            return self.read(P, a.local, list(a.path))
        if isinstance(a, tuple) and a and a[0] == "refinto":
            v = fun("deref", 1)(self.term(a[1]))
            for p in a[2]:
                v = self.project(P, v, p)
            return v
        return a

    def term(self, v):
        """z3 term of a value (aggregates become constructor applications)"""
        if isinstance(v, tuple) and v and v[0] == "agg":
            return fun("mk_" + re.sub(r"\W+", "_", v[1]), len(v[2]))(*[self.term(x) for x in v[2]])
        if isinstance(v, Ref):
            raise Unsupported("reference used as a value")
        if isinstance(v, tuple) and v and v[0] == "refinto":
            return fun("ref", 1)(self.term(self.referent(None, v)))
        if isinstance(v, tuple) and v and v[0] == "disc":
            return fun("discriminant_value", 1)(v[1])
        return v

    def write(self, P, local, proj, val):
        if not proj:
            P.locals[local] = val
            return
        # write through a reference: (*_r) = v   or   ((*_r).0) = v
        if proj[0] == ("deref",):
            r = self.init_value(P, local)
            if isinstance(r, Ref):
                return self.write(P, r.local, list(r.path) + proj[1:], val)
            # store through an unknown pointer: record as an effect on a pseudo-local
            P.calls.append(("store", [r, tuple(proj[1:]), val], None))
            return
        # field write on a local: functional update
        old = self.init_value(P, local)
        P.locals[local] = fun("with_" + "_".join(str(x) for p in proj for x in p), 2)(self.term(old), self.term(val))

    def operand(self, P, txt):
        txt = txt.strip()
        m = re.match(r"^(?:no_retag )?(copy|move) (.*)$", txt)
        if m:
            l, p = self.parse_place(m.group(2))
            return self.read(P, l, p)
        if txt.startswith("const "):
            return const("const_" + re.sub(r"\W+", "_", txt[6:])[:60])
        raise Unsupported("operand: " + txt)

    def rvalue(self, P, txt):
        txt = txt.strip()
        m = re.match(r"^&(mut )?(?:raw (?:const|mut) )?(.*)$", txt)
        if m and not txt.startswith("&&"):
            l, p = self.parse_place(m.group(2))
            # a reference to (*r).x is a reference into r's referent
            if p and p[0] == ("deref",):
                base = self.init_value(P, l)
                if isinstance(base, Ref):
                    return Ref(base.local, list(base.path) + p[1:], bool(m.group(1)))
                return ("refinto", base, tuple(p[1:]))
            return Ref(l, p, bool(m.group(1)))
        m = re.match(r"^discriminant\((.*)\)$", txt)
        if m:
            l, p = self.parse_place(m.group(1))
            return ("disc", self.term(self.read(P, l, p)))
        m = re.match(r"^(?:no_retag )?(copy|move) ", txt)
        if m or txt.startswith("const "):
            return self.operand(P, txt)
        m = re.match(r"^(Add|Sub|Mul|Div|Rem|BitAnd|BitOr|BitXor|Shl|Shr|Eq|Ne|Lt|Le|Gt|Ge|AddWithOverflow|SubWithOverflow|MulWithOverflow|Offset|Cmp)\((.*)\)$", txt)
        if m:
            parts = split_top(m.group(2))
            return fun("op_" + m.group(1), len(parts))(*[self.term(self.operand(P, x)) for x in parts])
        m = re.match(r"^(Not|Neg|PtrMetadata)\((.*)\)$", txt)
        if m:
            return fun("op_" + m.group(1), 1)(self.term(self.operand(P, m.group(2))))
        m = re.match(r"^(.*) as ([\w:<>&' ]+) \((\w+)\)$", txt)
        if m:       # casts
            return fun("cast_" + re.sub(r"\W+", "_", m.group(2)), 1)(self.term(self.operand(P, m.group(1))))
        if txt.startswith("[") and txt.endswith("]"):
            parts = [x for x in split_top(txt[1:-1]) if x.strip()]
            return ("agg", "array%d" % len(parts), [self.operand(P, x) for x in parts])
        m = re.match(r"^\{(closure|coroutine)@[^}]*\}\s*(?:\{(.*)\})?$", txt)
        if m:
            # a closure value: an aggregate of its captures
            fields = []
            for part in split_top(m.group(2) or ""):
                if not part.strip():
                    continue
                mm = re.match(r"^\s*\w+:\s*(.*)$", part.strip())
                v = self.operand(P, mm.group(1) if mm else part)
                if isinstance(v, Ref):
                    v = fun("ref", 1)(self.term(self.read(P, v.local, list(v.path))))
                fields.append(v)
            return ("agg", "closure", fields)
        m = re.match(r"^([\w:<>, ]+?)\s*\{(.*)\}$", txt)
        if m:
            fields = []
            for part in split_top(m.group(2)):
                mm = re.match(r"^\s*\w+:\s*(.*)$", part.strip())
                fields.append(self.operand(P, mm.group(1) if mm else part))
            return ("agg", re.sub(r"::<.*>", "", m.group(1).strip()), fields)
        if txt.startswith("(") and txt.endswith(")"):
            parts = [x for x in split_top(txt[1:-1]) if x.strip()]
            return ("agg", "tuple%d" % len(parts), [self.operand(P, x) for x in parts])
        m = re.match(r"^(\w[\w:<>, ]*?)\((.*)\)$", txt)      # variant constructor  Option::<T>::Some(x)
        if m and "::" in m.group(1):
            return ("agg", re.sub(r"::<.*?>", "", m.group(1)), [self.operand(P, x) for x in split_top(m.group(2)) if x.strip()])
        if re.fullmatch(r"[\w:<>]+", txt):      # a unit variant / unit struct
            return const("unit_" + re.sub(r"\W+", "_", txt))
        raise Unsupported("rvalue: " + txt[:80])

    # ---- execution
    stop_calls = ()

    def run(self, entry, stop_at, pre=None, pc=None):
        """all paths from block `entry` until a block in `stop_at` is entered again / `return`; returns [(Path, end block)]"""
        P = Path()
        P.locals = dict(pre or {})
        P.pc = list(pc or [])
        work = [(P, entry, 0, True)]
        done = []
        while work:
            P, bb, steps, first = work.pop()
            while True:
                steps += 1
                if steps > self.max_steps:
                    raise Unsupported("step bound")
                if bb in stop_at and not first:
                    done.append((P, bb))
                    break
                first = False
                stmts = self.fn.blocks.get(bb)
                if stmts is None:
                    raise Unsupported("missing block " + bb)
                nxt = None
                for st in stmts:
                    r = self.exec(P, st, work, steps)
                    if r is not None:
                        nxt = r
                        break
                if nxt is None:
                    raise Unsupported("block without terminator " + bb)
                if nxt in ("return", "unreachable", "forked"):
                    if nxt == "return":
                        done.append((P, "return"))
                    break
                bb = nxt
        return done

    def exec(self, P, st, work, steps):
        st = st.rstrip(";").strip()
        st = re.sub(r"\s*//.*$", "", st)
        if st.startswith(("StorageLive", "StorageDead", "nop", "FakeRead", "PlaceMention", "Retag", "AscribeUserType", "Coverage", "ConstEvalCounter", "debug ")):
            return None
        m = re.match(r"^goto -> (bb\d+)$", st)
        if m:
            return m.group(1)
        if st == "return":
            return "return"
        if st in ("unreachable", "resume", "abort") or st.startswith("unwind"):
            return "unreachable"
        m = re.match(r"^drop\((.*)\) -> \[return: (bb\d+)", st)
        if m:
            return m.group(2)
        m = re.match(r"^switchInt\((.*?)\) -> \[(.*)\]$", st)
        if m:
            v = self.operand(P, m.group(1))
            if not (isinstance(v, tuple) and v and v[0] == "disc"):
                v = ("disc", fun("switch_value", 1)(self.term(v)))     # a bool / integer: branch on its (uninterpreted) value
            arms = []
            for part in split_top(m.group(2)):
                k, tgt = part.split(":")
                arms.append((k.strip(), tgt.strip()))
            vals = [int(k) for k, _ in arms if k != "otherwise"]
            forks = []
            for k, tgt in arms:
                if k == "otherwise":
                    cond = z3.And([DISC(v[1]) != x for x in vals]) if vals else z3.BoolVal(True)
                    # the otherwise arm of an Option/Result match is `unreachable`: skip it when it leads there
                    if self.fn.blocks.get(tgt) and self.fn.blocks[tgt][0].strip().rstrip(";") == "unreachable":
                        continue
                else:
                    cond = DISC(v[1]) == int(k)
                forks.append((cond, tgt))
            for cond, tgt in forks:
                Q = Path()
                Q.locals = dict(P.locals)
                Q.pc = P.pc + [cond]
                Q.calls = list(P.calls)
                work.append((Q, tgt, steps, False))
            return "forked"
        m = re.match(r"^assert\(.*\) -> \[success: (bb\d+)", st)
        if m:
            return m.group(1)
        # call:  dest = callee(args) -> [return: bbN, ...]   (dest may be a place)
        m = re.match(r"^(.*?) = (.*) -> \[return: (bb\d+).*\]$", st)
        if m and "(" in m.group(2):
            dest, call, ret = m.group(1), m.group(2), m.group(3)
            k = call.rfind(")")
            depth = 0
            start = None
            for i in range(k, -1, -1):
                if call[i] == ")":
                    depth += 1
                elif call[i] == "(":
                    depth -= 1
                    if depth == 0:
                        start = i
                        break
            callee = call[:start].strip()
            if any(re.search(pat, callee) for pat in self.stop_calls):
                P.calls.append(("STOP:" + callee, [], None))
                return "return"
            args = [self.operand(P, a) for a in split_top(call[start + 1:k]) if a.strip()]
            res = None
            for pat, eff in self.effects.items():
                if re.search(pat, callee):
                    res = eff(self, P, callee, args)
                    break
            else:
                name = re.sub(r"<impl at [^>]*>", "impl", callee)
                name = re.sub(r"\W+", "_", name)[:80]
                targs = []
                for a in args:
                    if isinstance(a, Ref):
                        targs.append(fun("ref", 1)(self.term(self.read(P, a.local, list(a.path)))))
                    elif isinstance(a, tuple) and a and a[0] == "refinto":
                        targs.append(fun("ref", 1)(self.term(a[1])))
                    else:
                        targs.append(self.term(a))
                res = fun("call_" + name, len(targs))(*targs) if targs else const("call_" + name)
                P.calls.append((callee, args, res))
                # a call that takes `&mut x` may change x: havoc it (fresh value) unless an effect says otherwise
                for a in args:
                    if isinstance(a, Ref) and a.mut:
                        self.n += 1
                        self.write(P, a.local, list(a.path), const("havoc_%s_%d" % (a.local, self.n)))
            l, p = self.parse_place(dest)
            self.write(P, l, p, res)
            return ret
        m = re.match(r"^(.*?) = (.*)$", st)
        if m:
            l, p = self.parse_place(m.group(1))
            self.write(P, l, p, self.rvalue(P, m.group(2)))
            return None
        raise Unsupported("statement: " + st[:100])


def load_fn(text, name_contains, short):
    fns = parse_mir(text, want=[name_contains])
    c = [f for f in fns.values() if f.short == short]
    return c[0] if len(c) == 1 else None
