"""C17 — transpiled Python: the string-literal kernel (kernel-level partial claim).

`PyScriptGenerator::transpile_lit` writes a string literal of the program into the Python script.  Two questions are decided
on the rustc MIR (engine mirsem with the String model of props/c18_str.py):

 1. dispatch (`literal/str-dispatch`): for a literal whose value is `ValueObj::Str(s)`, the text is `<class>(K(x))` for one
    crate-local function K, and x is either the value s or the token's content (the lexer's cooked text between quotes);
    K and x are discovered, not assumed.
 2. kernel (`py-string-kernel/chars=k`): K is executed on a string of k characters, each an arbitrary Unicode scalar value
    (when x is the token content: a quote, the k characters, a quote).  Every feasible path yields a sequence of code-point
    terms; a reference decoder for Python's string-literal syntax (double-quoted, not raw: `\\\\ \\' \\" \\a \\b \\f \\n \\r \\t \\v`,
    octal escapes with their greedy up-to-three digits, `\\xhh`, `\\uhhhh`, `\\Uhhhhhhhh`, backslash-newline, unknown escapes
    that keep the backslash; a raw quote, newline, carriage return or NUL ends or breaks the literal) parses it with z3
    entailment queries under the path condition, and the decoded characters must equal the input.

A failed query gives a concrete string; it is replayed on the real K (cargo test) and read back with python's
`ast.literal_eval`, and a program printing that string is run both ways (`erg run` vs `erg transpile` + python3)."""
import ast
import json
import os
import re
import time

import z3

import mir2smt as M
import mirsem as S
from common import (BROKEN, HELD, INCONCLUSIVE, VIOLATED, Obligation, Report, Scratch, extract_fn, log, sh)
from mirflow import Ref, Unsupported, const
from native import NativeRun
from c18_str import Decoder, HEXV, INPUT, StrFlow, fmt_models, models as str_models, rust_str_lit, rust_unescape, _subterms

SIMPLE = {92: 92, 39: 39, 34: 34, 97: 7, 98: 8, 102: 12, 110: 10, 114: 13, 116: 9, 118: 11}
SPECIAL = [10, 92, 39, 34, 97, 98, 102, 110, 114, 116, 118, 120, 78, 117, 85] + list(range(48, 56))


class PyDecoder(Decoder):
    """Python 3 string-literal syntax ("...", no prefix) over a sequence of code-point terms, under a path condition"""

    def hexn(self, items, at, end, k):
        if at + k > end:
            return None, ("a \\x / \\u escape is cut short by the closing quote", None)
        hs = [HEXV(items[at + j]) for j in range(k)]
        m = self.refute(z3.And([h >= 0 for h in hs]))
        if m is not None:
            return None, ("a \\x / \\u escape is not followed by %d hex digits" % k, m)
        v = z3.IntVal(0)
        for h in hs:
            v = 16 * v + h
        return z3.simplify(v), None

    def decode(self, items):
        n = len(items)
        if n < 2 or self.concrete(items[0]) != 34 or self.concrete(items[n - 1]) != 34:
            return None, ("the text is not enclosed in double quotes", None, False)
        out, i = [], 1
        while i < n - 1:
            x = items[i]
            cx = self.concrete(x)
            if cx is None:
                m = self.refute(z3.And(x != 34, x != 92, x != 10, x != 13, x != 0))
                if m is not None:
                    return None, ("a quote, backslash, newline, carriage return or NUL is written raw", m, False)
                out.append(x)
                i += 1
                continue
            if cx in (34, 10, 13, 0):
                return None, ("a raw %s inside the literal" % {34: "quote", 10: "newline", 13: "carriage return", 0: "NUL"}[cx], None, False)
            if cx != 92:
                out.append(z3.IntVal(cx))
                i += 1
                continue
            if i + 1 >= n - 1:
                return None, ("a backslash escapes the closing quote", None, False)
            e = items[i + 1]
            ce = self.concrete(e)
            if ce is None:
                m = self.refute(z3.And([e != v for v in SPECIAL]))
                if m is not None:
                    return None, ("a backslash is followed by an input character that completes an escape sequence", m, False)
                out += [z3.IntVal(92), e]
                i += 2
                continue
            if ce == 10:
                i += 2
                continue
            if ce in SIMPLE:
                out.append(z3.IntVal(SIMPLE[ce]))
                i += 2
                continue
            if 48 <= ce <= 55:
                val, j, cnt = ce - 48, i + 2, 1
                while cnt < 3 and j < n - 1:
                    cd = self.concrete(items[j])
                    if cd is None:
                        m = self.refute(z3.Or(items[j] < 48, items[j] > 55))
                        if m is not None:
                            return None, ("an octal escape is followed by an input character that may be an octal digit (it would be swallowed)", m, False)
                        break
                    if 48 <= cd <= 55:
                        val, j, cnt = val * 8 + cd - 48, j + 1, cnt + 1
                    else:
                        break
                out.append(z3.IntVal(val))
                i = j
                continue
            if ce in (120, 117, 85):
                k = {120: 2, 117: 4, 85: 8}[ce]
                cp, err = self.hexn(items, i + 2, n - 1, k)
                if err:
                    return None, (err[0], err[1], False)
                if k == 8:
                    m = self.refute(cp <= 0x10FFFF)
                    if m is not None:
                        return None, ("a \\U escape beyond U+10FFFF", m, False)
                out.append(cp)
                i += 2 + k
                continue
            if ce == 78:
                return None, ("a \\N{...} escape: not modelled by the reference", None, True)
            out += [z3.IntVal(92), z3.IntVal(ce)]      # an unknown escape keeps its backslash
            i += 2
        return out, None


def replace_model(input_items):
    """str::replace::<char, &str>(self, from, to) on a sequence of code-point terms: a symbolic character forks the path"""
    def as_seq(flow, P, x):
        v = flow.deref_all(P, x)
        if isinstance(v, tuple) and v and v[0] == "strbuf":
            return list(v[1])
        if z3.is_expr(v) and v.eq(INPUT):
            return list(input_items)
        raise Unsupported("str::replace on %r" % (v,))

    def replace(flow, P, callee, args):
        seq = as_seq(flow, P, args[0])
        pat, to = args[1], flow.deref_all(P, args[2])
        if not flow.is_int(pat) or not (isinstance(to, tuple) and to[0] == "strlit"):
            raise Unsupported("str::replace with a non-literal pattern or replacement")
        rep = [z3.IntVal(ord(c)) for c in to[1]]
        sym = [i for i, x in enumerate(seq) if not z3.is_int_value(x)]
        if len(sym) > 4:
            raise Unsupported("str::replace on more than four symbolic characters")
        alts = []
        for mask in range(1 << len(sym)):
            pc, out = [], []
            hit = {sym[b] for b in range(len(sym)) if mask >> b & 1}
            for i, x in enumerate(seq):
                if z3.is_int_value(x):
                    out += rep if x.as_long() == pat[1] else [x]
                elif i in hit:
                    pc.append(x == pat[1])
                    out += rep
                else:
                    pc.append(x != pat[1])
                    out.append(x)
            alts.append((pc, ("strbuf", out), {}))
        if len(alts) == 1:
            return alts[0][1]
        return ("fork", alts)

    def deref(flow, P, callee, args):
        return flow.deref_all(P, args[0])

    return [(r"str::<impl str>::replace(?:::<char(?:, &str)?>)?$", replace), (r"<String as Deref>::deref$|String::as_str$", deref)]


def dispatch(rep, s, tsrc, fns, structs, vvariants, base):
    """returns (K, source) or (None, None)"""
    ob = Obligation(dict(base, functions=["PyScriptGenerator::transpile_lit"], shape="hir::Literal with value ValueObj::Str(s)", symbolic=["s, the token (opaque)"], bounds={}), key="literal/str-dispatch")
    rep.add(ob)
    mains = [f for f in fns.values() if f.short == "transpile_lit" and f.params and "PyScriptGenerator" in f.params[0][1]]
    lf = structs.get("Literal") or []
    if len(mains) != 1 or "value" not in lf or "token" not in lf:
        ob.update(verdict=BROKEN, reason="PyScriptGenerator::transpile_lit / struct Literal not found as expected")
        return None, None
    local = set(re.findall(r"^\s*(?:pub(?:\([^)]*\))?\s+)?fn (\w+)", tsrc, re.M)) - {"transpile_lit", "load_builtin_types_if_not"}
    sval, tok = const("lit_str_value"), const("lit_token")

    def kernel(flow, P, callee, args):
        short = re.sub(r"::<.*$", "", callee).rsplit("::", 1)[-1]
        a = args[-1]
        try:
            at = flow.term(flow.referent(P, a)) if isinstance(a, (Ref, tuple)) else a
        except Unsupported:
            at = None
        src = "?"
        if at is not None and z3.is_expr(at):
            subs = list(_subterms(at))
            src = "value" if any(x.eq(sval) for x in subs) else ("token" if any(x.eq(tok) for x in subs) else "?")
        return ("strbuf", [("piece", "kernel", (short, src))])

    def as_items(flow, P, x):
        v = flow.deref_all(P, x)
        if isinstance(v, tuple) and v and v[0] == "strbuf":
            return list(v[1])
        if isinstance(v, tuple) and v and v[0] == "strlit":
            return [z3.IntVal(ord(c)) for c in v[1]]
        if z3.is_expr(v):
            return [("piece", "display", str(v)[:60])]
        raise Unsupported("not a string value: %r" % (v,))

    mods = [(r"^(?:PyScriptGenerator::|transpile::)?(?:%s)(?:::<.*>)?$" % "|".join(sorted(local)), kernel)] + fmt_models(as_items)
    try:
        flow = StrFlow(fns, mains[0], mods, {"ValueObj": vvariants, "Option": ["None", "Some"]}, max_steps=8000)
        fields = [const("lit_" + f) for f in lf]
        fields[lf.index("value")] = ("agg", "ty::value::ValueObj::Str", [sval])
        fields[lf.index("token")] = tok
        pre = {"_1": const("generator"), "_2": ("agg", "hir::Literal", fields)}
        outs = flow.run("bb0", stop_at=(), pre=pre, pc=list(S.BASE_AXIOMS))
        found, np_, shapes = set(), 0, set()
        for Q, end in outs:
            if end != "return" or not flow.feasible(Q.pc):
                continue
            np_ += 1
            r = Q.locals.get("_0")
            if not (isinstance(r, tuple) and r and r[0] == "strbuf"):
                found.add(("!", "the result is not built text: %s" % str(r)[:80]))
                continue
            ks = [x[2] for x in r[1] if isinstance(x, tuple) and x[1] == "kernel"]
            txt = "".join(chr(x.as_long()) if z3.is_expr(x) else ("<K>" if x[1] == "kernel" else "<class>") for x in r[1])
            shapes.add(txt)
            if len(ks) == 1 and txt == "<class>(<K>)":
                found.add(ks[0])
            else:
                found.add(("!", "the text is `%s`" % txt))
        ob["queries"] = flow.queries
        ob["detail"] = {"paths": np_, "text": sorted(shapes)}
        if np_ == 0:
            ob.update(verdict=BROKEN, reason="no path of transpile_lit returns (vacuous encoding)")
        elif len(found) == 1 and next(iter(found))[0] != "!" and next(iter(found))[1] in ("value", "token"):
            K, src = next(iter(found))
            ob.update(verdict=HELD, reason="a string literal is written as <class>(%s(%s)) on all %d paths" % (K, {"value": "the literal's value", "token": "the token's content"}[src], np_))
            return K, src
        else:
            ob.update(verdict=INCONCLUSIVE, reason="the text of a string literal is not <class>(K(x)) for one crate-local K: %s" % sorted(map(str, found))[:2])
    except Unsupported as e:
        ob.update(verdict=INCONCLUSIVE, reason="unsupported-construct: " + str(e)[:200])
    return None, None


def number_dispatch(rep, s, tsrc, fns, structs, vvariants, base):
    """integer literals: the text must be <class>(std's rendering of the value), not the source spelling (`007` is not Python)"""
    viol = []
    mains = [f for f in fns.values() if f.short == "transpile_lit" and f.params and "PyScriptGenerator" in f.params[0][1]]
    lf = structs.get("Literal") or []
    local = set(re.findall(r"^\s*(?:pub(?:\([^)]*\))?\s+)?fn (\w+)", tsrc, re.M)) - {"transpile_lit", "load_builtin_types_if_not"}
    for kind in ("Nat",):
        ob = Obligation(dict(base, functions=["PyScriptGenerator::transpile_lit"], shape="hir::Literal with value ValueObj::%s(n)" % kind, symbolic=["n, the token (opaque)"], bounds={}),
                        key="literal/number-dispatch/%s" % kind)
        rep.add(ob)
        if len(mains) != 1 or "value" not in lf or "token" not in lf:
            ob.update(verdict=BROKEN, reason="PyScriptGenerator::transpile_lit / struct Literal not found as expected")
            continue
        nval, tok = const("lit_number_value"), const("lit_token")

        def kernel(flow, P, callee, args):
            short = re.sub(r"::<.*$", "", callee).rsplit("::", 1)[-1]
            a = args[-1]
            try:
                at = flow.term(flow.referent(P, a)) if isinstance(a, (Ref, tuple)) else a
            except Unsupported:
                at = None
            subs = list(_subterms(at)) if at is not None and z3.is_expr(at) else []
            src = "value" if any(x.eq(nval) for x in subs) else ("token" if any(x.eq(tok) for x in subs) else "?")
            return ("strbuf", [("piece", "kernel", (short, src))])

        def as_items(flow, P, x):
            v = flow.deref_all(P, x)
            if isinstance(v, tuple) and v and v[0] == "strbuf":
                return list(v[1])
            if isinstance(v, tuple) and v and v[0] == "strlit":
                return [z3.IntVal(ord(c)) for c in v[1]]
            if z3.is_expr(v):
                subs = list(_subterms(v))
                std = "ToString" in str(v.decl()) and any(x.eq(nval) for x in subs) and "ValueObj" not in str(v.decl())
                return [("piece", "std-number" if std else "display", str(v.decl())[:60])]
            raise Unsupported("not a string value: %r" % (v,))
        mods = [(r"^(?:PyScriptGenerator::|transpile::)?(?:%s)(?:::<.*>)?$" % "|".join(sorted(local)), kernel)] + fmt_models(as_items)
        try:
            flow = StrFlow(fns, mains[0], mods, {"ValueObj": vvariants, "Option": ["None", "Some"]}, max_steps=8000)
            fields = [const("lit_" + f) for f in lf]
            fields[lf.index("value")] = ("agg", "ty::value::ValueObj::%s" % kind, [nval])
            fields[lf.index("token")] = tok
            outs = flow.run("bb0", stop_at=(), pre={"_1": const("generator"), "_2": ("agg", "hir::Literal", fields)}, pc=list(S.BASE_AXIOMS))
            np_, texts, bad = 0, set(), None
            for Q, end in outs:
                if end != "return" or not flow.feasible(Q.pc):
                    continue
                np_ += 1
                r = Q.locals.get("_0")
                if not (isinstance(r, tuple) and r and r[0] == "strbuf"):
                    bad = bad or "the result is not built text"
                    continue
                txt = "".join(chr(x.as_long()) if z3.is_expr(x) else {"kernel": "<%s(%s)>" % x[2] if x[1] == "kernel" else "", "std-number": "<std>", "display": "<class>"}.get(x[1], "<?>") for x in r[1])
                texts.add(txt)
                if txt != "<class>(<std>)":
                    bad = bad or "the text is `%s`" % txt
            ob["queries"] = flow.queries
            ob["detail"] = {"paths": np_, "text": sorted(texts)}
            if np_ == 0:
                ob.update(verdict=BROKEN, reason="no path of transpile_lit returns (vacuous encoding)")
            elif bad:
                ob.update(verdict=VIOLATED, reason="an integer literal is not written as <class>(std's rendering of its value): %s - the source spelling is copied (a decimal literal with leading zeros is a SyntaxError in Python)" % bad)
                viol.append(ob)
            else:
                ob.update(verdict=HELD, reason="an integer literal is written as <class>(<%s as ToString>::to_string(value)) on all %d paths" % ({"Nat": "u64", "Int": "i32"}[kind], np_))
        except Unsupported as e:
            ob.update(verdict=INCONCLUSIVE, reason="unsupported-construct: " + str(e)[:200])
    return viol


def number_e2e(s, viol):
    if not viol:
        return
    tdir = os.path.join(s.root, "native")
    rc, out, dt = sh(["cargo", "build", "--offline", "--bin", "erg"], cwd=s.src, env=s.env(CARGO_TARGET_DIR=tdir), timeout=2400)
    exe = os.path.join(tdir, "debug", "erg")
    f = os.path.join(s.root, "num.er")
    open(f, "w").write("print! 007\nprint! 1_000\nprint! 0x10\n")
    res = None
    if rc == 0 and os.path.exists(exe):
        rc1, o1, _ = sh([exe, "run", f], env=s.env(), timeout=120)
        rc2, o2, _ = sh([exe, "transpile", f], env=s.env(), timeout=120)
        py = f[:-3] + ".py"
        rc3, o3, _ = sh(["python3", py], env=s.env(), timeout=120) if os.path.exists(py) else (None, "no script", 0)
        res = {"source": "print! 007; print! 1_000; print! 0x10", "erg run": [rc1, o1[-100:]], "python3 of the transpiled script": [rc3, re.sub(r"\x1b\[[0-9;]*m", "", o3)[-300:]], "differs": (rc1, o1) != (rc3, o3)}
    for ob in viol:
        ob["end_to_end"] = res or {"note": "erg did not build"}
        if not res or not res["differs"]:
            ob.update(verdict=INCONCLUSIVE, reason="%s; the replay program behaves the same both ways" % ob["reason"])


ERG_ESC = {'"': '\\"', "\\": "\\\\", "\n": "\\n", "\r": "\\r", "\0": "\\0"}


def erg_literal(s):
    """an Erg source literal for s, or None when the lexer would change the characters (tab becomes spaces, `{` after a backslash interpolates ...)"""
    if any(c in "\t{}" or (ord(c) < 0x20 and c not in "\n\r\0") or 0xD800 <= ord(c) <= 0xDFFF for c in s):
        return None
    return '"' + "".join(ERG_ESC.get(c, c) for c in s) + '"'


def run(tier, seed, only=None):
    rep = Report("C17", tier, seed, "other",
                 "Kernel-level partial claim on the Python transpiler: the text PyScriptGenerator::transpile_lit writes for a string literal is <class>(K(x)) for one "
                 "function K (decided on the MIR, K and x discovered), and K, executed on its MIR with a model of String building for strings of k characters (every "
                 "Unicode scalar value for each character), writes exactly one double-quoted Python string literal that a reference decoder of Python's literal syntax maps "
                 "back to the input.  Everything else of the transpiler (statements, names, calls, classes, the runtime prelude) and whole-program behaviour are not decided.",
                 partial=bool(only))
    rep.trusted += ["rustc nightly -Zunpretty=mir as the semantics of the source", "engines/mirsem.py + engines/mirflow.py", "z3 " + z3.get_version_string(),
                    "the reference decoder of Python's string-literal syntax in props/c17.py (PyDecoder); python3's ast.literal_eval as the oracle of every replay"]
    s = Scratch("c17")
    try:
        t0 = time.time()
        tsrc = s.read("crates/erg_compiler/transpile.rs")
        hsrc = s.read("crates/erg_compiler/hir.rs")
        m = re.search(r"impl PyScriptGenerator \{(.*?)\nimpl ", tsrc, re.S)
        rep.add_function("PyScriptGenerator::transpile_lit", "crates/erg_compiler/transpile.rs", extract_fn(m.group(1) if m else tsrc, "transpile_lit"))
        structs = {}
        for mm in re.finditer(r"pub struct (\w+)\s*\{(.*?)\n\}", hsrc, re.S):
            structs[mm.group(1)] = re.findall(r"^\s*(?:pub(?:\([^)]*\))?\s+)?(\w+)\s*:", mm.group(2), re.M)
        vvariants = M.rust_enum_variants(s.read("crates/erg_compiler/ty/value.rs"), "ValueObj") or []
        base = dict(engine="mirsem (MIR -> z3 %s)" % z3.get_version_string(), solver="z3")
        text, dt, err, rc = M.dump_mir(s, "erg_compiler", overflow_checks=True, extra_cargo=["--lib"])
        if rc != 0 or len(text) < 1000:
            log("MIR dump failed:\n" + err[-3000:])
            rep.add(Obligation(key="mir-dump", verdict=BROKEN, reason="cargo +nightly rustc -Zunpretty=mir failed"))
            return rep.finish()
        log("  MIR dump erg_compiler: %.0fs, %d MB" % (dt, len(text) >> 20))
        free = set(re.findall(r"^fn (\w+)", tsrc, re.M))
        fns = M.parse_mir(text, want=["<impl at crates/erg_compiler/transpile.rs"] + sorted(free))
        del text
        K, src = dispatch(rep, s, tsrc, fns, structs, vvariants, base)
        nviol = [] if (only and "number" not in only and "dispatch" not in only) else number_dispatch(rep, s, tsrc, fns, structs, vvariants, base)
        number_e2e(s, nviol)
        kmax = 3 if tier == "quick" else 4
        obs = {k: Obligation(dict(base, shape="a string of %d character(s)%s" % (k, " between the token's quotes" if src == "token" else ""),
                                  symbolic=["each character: any Unicode scalar value (0..=0x10FFFF without surrogates)"], bounds={"chars": k}), key="py-string-kernel/chars=%d" % k)
               for k in range(kmax + 1)}
        obT = Obligation(dict(base, engine="native replay vs. the encoding", bounds={}), key="py-string-kernel/translation", nontrivial=False)
        for ob in list(obs.values()) + [obT]:
            rep.add(ob)
        gf = [f for f in fns.values() if f.short == K and "{closure" not in f.name] if K else []
        gsrc = (extract_fn(tsrc, K) or "") if K else ""
        if len(gf) != 1 or not re.search(r"fn %s\(\w+: &str\) -> String" % (K or "?"), gsrc):
            for ob in list(obs.values()) + [obT]:
                ob.update(verdict=INCONCLUSIVE, reason="no string kernel `fn(&str) -> String` identified (stage 1 gave %r)" % (K,))
            return rep.finish()
        rep.add_function(K, "crates/erg_compiler/transpile.rs", gsrc)
        for ob in list(obs.values()) + [obT]:
            ob["functions"] = [K]
        tables = {mm.group(1): ("bytes", list(rust_unescape(mm.group(2)).encode("latin-1"))) for mm in re.finditer(r"const (\w+): &\[u8; \d+\] = b\"([^\"]*)\";", gsrc)}
        results, cex = {}, []
        for k in range(kmax + 1):
            ob = obs[k]
            if only and not any(o in ob["key"] or o in "py-string-kernel/translation" for o in only.split(",")):
                ob.update(verdict=INCONCLUSIVE, reason="filtered out")
                continue
            chars = [z3.Int("c%d" % i) for i in range(k)]
            dom = [z3.And(c >= 0, c <= 0x10FFFF, z3.Or(c < 0xD800, c > 0xDFFF)) for c in chars]
            items_in = ([z3.IntVal(34)] + chars + [z3.IntVal(34)]) if src == "token" else chars
            try:
                flow = StrFlow(fns, gf[0], replace_model(items_in) + str_models(items_in), {"Option": ["None", "Some"]}, max_steps=20000)
                for name, tb in tables.items():
                    flow.named_consts["transpile::%s::%s" % (K, name)] = tb
                outs = flow.run("bb0", stop_at=(), pre={"_1": INPUT}, pc=list(S.BASE_AXIOMS) + dom)
                nq, npaths, bad, inconc, paths = flow.queries, 0, None, None, []
                for Q, end in outs:
                    if end != "return" or not flow.feasible(Q.pc):
                        continue
                    r = Q.locals.get("_0")
                    if not (isinstance(r, tuple) and r and r[0] == "strbuf"):
                        raise Unsupported("the result is not a built String: %r" % (r,))
                    npaths += 1
                    paths.append((Q.pc, r[1]))
                    d = PyDecoder(Q.pc)
                    dec, err = d.decode(r[1])
                    if err is None:
                        if len(dec) != k:
                            err = ("the literal denotes %d character(s) for an input of %d" % (len(dec), k), None, False)
                        else:
                            for j in range(k):
                                mdl = d.refute(dec[j] == chars[j])
                                if mdl is not None:
                                    err = ("character %d of the denoted string differs from the input" % j, mdl, False)
                                    break
                    nq += d.q
                    if err:
                        what, mdl, soft = err
                        if soft:
                            inconc = inconc or what
                            continue
                        if mdl is None:
                            d.s.check()
                            mdl = d.s.model()
                        bad = bad or (what, [mdl.eval(c, model_completion=True).as_long() for c in chars])
                results[k] = paths
                ob["queries"] = nq
                ob["detail"] = {"paths": npaths}
                if npaths == 0:
                    ob.update(verdict=BROKEN, reason="no feasible path returns (vacuous encoding)")
                elif bad:
                    ob["model"] = {"characters": ["U+%04X" % v for v in bad[1]]}
                    ob.update(verdict=VIOLATED, reason="%s: input %s" % (bad[0], json.dumps("".join(chr(v) for v in bad[1]))))
                    cex.append((k, ob, bad[0], bad[1]))
                elif inconc:
                    ob.update(verdict=INCONCLUSIVE, reason="reference decoder: " + inconc)
                else:
                    ob.update(verdict=HELD, reason="on all %d paths the text is one Python string literal that denotes the input, for every choice of the %d character(s)" % (npaths, k))
            except Unsupported as e:
                ob.update(verdict=INCONCLUSIVE, reason="unsupported-construct: " + str(e)[:200])
        # ---- native replay and translation validation
        vectors = ["", "a", "\"", "\\", "\n", "\r", "\t", "\x00", "\x01", "\x1f", " ", "'", "\x7f", "é", "あ", "😀", "a\"", "\\n", "\x001", "\\\"", "{}", "\x08\x0c"]
        vectors = [v for v in vectors if len(v) <= kmax]
        wrap = (lambda v: '"' + v + '"') if src == "token" else (lambda v: v)
        call = ("PyScriptGenerator::%s" % K) if re.search(r"impl PyScriptGenerator \{.*?\n    fn %s\b" % K, tsrc, re.S) and not re.search(r"^fn %s\b" % K, tsrc, re.M) else K
        nat = NativeRun(s, "erg_compiler", "crates/erg_compiler/transpile.rs",
                        helpers="fn __hexs(s: String) -> String { s.bytes().map(|b| format!(\"{:02x}\", b)).collect::<Vec<_>>().join(\"\") }")
        for i, v in enumerate(vectors):
            nat.add("v%d" % i, "__hexs(%s(%s))" % (call, rust_str_lit(wrap(v))))
        for n, (k, ob, what, vals) in enumerate(cex):
            nat.add("x%d" % n, "__hexs(%s(%s))" % (call, rust_str_lit(wrap("".join(chr(v) for v in vals)))))
        res, dt = nat.run()
        if res is None:
            obT.update(verdict=BROKEN, reason="native run failed")
            for k, ob, what, vals in cex:
                ob.update(verdict=INCONCLUSIVE, reason="no native replay available: " + ob["reason"])
            return rep.finish()

        def reads_back(raw, want):
            try:
                v = ast.literal_eval(raw)
                return (isinstance(v, str) and v == want), ("evaluates to %r" % (v,))[:120]
            except (SyntaxError, ValueError) as e:
                return False, "%s: %s" % (type(e).__name__, str(e)[:100])
        confirmed = []
        for n, (k, ob, what, vals) in enumerate(cex):
            want = "".join(chr(v) for v in vals)
            got = res.get("x%d" % n, "PANIC")
            raw = bytes.fromhex(got).decode("utf-8", "replace") if not got.startswith("PANIC") else None
            ok, note = reads_back(raw, want) if raw is not None else (False, "panicked")
            ob["end_to_end"] = {"input": want, "real %s output" % K: raw, "python ast.literal_eval": "the same string" if ok else note}
            if ok:
                ob.update(verdict=BROKEN, reason="counterexample did not reproduce natively: " + ob["reason"])
            else:
                confirmed.append((ob, want))
        mism, nval = [], 0
        for i, v in enumerate(vectors):
            got = res.get("v%d" % i)
            k = len(v)
            if got is None or got.startswith("PANIC") or k not in results:
                continue
            real = bytes.fromhex(got).decode("utf-8")
            pred = None
            for pc, items in results[k]:
                sol = z3.Solver()
                sol.add(*pc)
                sol.add(*[z3.Int("c%d" % j) == ord(ch) for j, ch in enumerate(v)])
                if sol.check() == z3.sat:
                    mdl = sol.model()
                    pred = "".join(chr(mdl.eval(t, model_completion=True).as_long()) for t in items)
                    break
            nval += 1
            if pred != real:
                mism.append((v, pred, real))
        if mism:
            obT.update(verdict=BROKEN, reason="the encoding disagrees with the real %s on %s: predicted %r, real %r" % (K, json.dumps(mism[0][0]), mism[0][1], mism[0][2]))
            for ob in obs.values():
                if ob.get("verdict") in (HELD, VIOLATED):
                    ob.update(verdict=BROKEN, reason="translation validation failed; " + ob["reason"])
        else:
            obT.update(verdict=HELD, reason="%d fixed strings: the encoding's text equals the real %s's text byte for byte" % (nval, K))
        # ---- whole programs for the confirmed counterexamples that have an Erg literal
        progs = [(ob, w) for ob, w in confirmed if erg_literal(w) is not None][:3]
        if progs:
            tdir = os.path.join(s.root, "native")
            rc, out, dt = sh(["cargo", "build", "--offline", "--bin", "erg"], cwd=s.src, env=s.env(CARGO_TARGET_DIR=tdir), timeout=2400)
            exe = os.path.join(tdir, "debug", "erg")
            if rc == 0 and os.path.exists(exe):
                for n, (ob, w) in enumerate(progs):
                    f = os.path.join(s.root, "lit%d.er" % n)
                    open(f, "w").write("print! %s\n" % erg_literal(w))
                    rc1, o1, _ = sh([exe, "run", f], env=s.env(), timeout=120)
                    rc2, o2, _ = sh([exe, "transpile", f], env=s.env(), timeout=120)
                    py = f[:-3] + ".py"
                    rc3, o3, _ = sh(["python3", py], env=s.env(), timeout=120) if os.path.exists(py) else (None, "no script", 0)
                    ob["end_to_end"]["program"] = {"source": "print! %s" % erg_literal(w), "erg run": [rc1, o1[-200:]], "python3 of the transpiled script": [rc3, re.sub(r"\x1b\[[0-9;]*m", "", o3)[-300:]],
                                                   "differs": (rc1, o1) != (rc3, o3)}
        rep.assumptions += [
            "strings longer than the listed k are outside the claim (the kernel handles one character at a time)",
            "models: String::push / push_str / with_capacity / len, str::chars, Chars::next, str::replace::<char, &str> (a symbolic character forks the path), format! with `{}` placeholders",
            "when the kernel's argument is the token's content, the lexer contract `content = quote + cooked text + quote` for single-line literals is assumed (multi-line `\"\"\"` literals are outside)",
            "everything of the Python transpiler except string literals is outside the claim",
        ]
        log("  C17: %.0fs" % (time.time() - t0))
        return rep.finish()
    finally:
        s.cleanup()
