"""C04: concrete cases against the real build — replay of solver counterexamples (oracle: this CPython's
own arithmetic) and validation of the MIR->SMT translation on concrete operand vectors."""
import math
import operator
import random
import re
import struct

import z3

import mir2smt as M

USES = """use crate::ty::value::ValueObj as VO; use crate::ty::typaram::OpKind as OK; use crate::context::Context as CX;"""
HELPERS = r"""
    fn show(v: Option<VO>) -> String {
        match v {
            None => "None".to_string(),
            Some(VO::Int(i)) => format!("Int({})", i),
            Some(VO::Nat(n)) => format!("Nat({})", n),
            Some(VO::Float(f)) => format!("Float(0x{:016x})", (*f).to_bits()),
            Some(VO::Bool(b)) => format!("Bool({})", b),
            Some(VO::Inf) => "Inf".to_string(),
            Some(VO::NegInf) => "NegInf".to_string(),
            Some(_) => "Other".to_string(),
        }
    }
"""

OPERAND = r"(?:Int|Nat|Bool)\([^()]*\)|Float\(f64::(?:from_bits\(0x[0-9a-fA-F]+\)|NAN|INFINITY|NEG_INFINITY)\)"
PYFN = {"+": operator.add, "-": operator.sub, "*": operator.mul, "/": operator.truediv, "//": operator.floordiv,
        "%": operator.mod, "**": operator.pow, ">": operator.gt, ">=": operator.ge, "<": operator.lt, "<=": operator.le,
        "==": operator.eq, "!=": operator.ne, "or": lambda a, b: a or b}


def parse_operand(s):
    """'Int(-5)' -> (variant, python value, rust expression)"""
    s = s.strip()
    m = re.match(r"^(Int|Nat)\((-?\d+)\)$", s)
    if m:
        return m.group(1), int(m.group(2)), "VO::%s(%s)" % (m.group(1), m.group(2))
    m = re.match(r"^Bool\((true|false)\)$", s)
    if m:
        return "Bool", m.group(1) == "true", "VO::Bool(%s)" % m.group(1)
    m = re.match(r"^Float\(f64::from_bits\(0x([0-9a-fA-F]+)\)\)$", s)
    if m:
        bits = int(m.group(1), 16)
        return "Float", struct.unpack("<d", struct.pack("<Q", bits))[0], "VO::from(f64::from_bits(0x%016x))" % bits
    m = re.match(r"^Float\(f64::(NAN|INFINITY|NEG_INFINITY)\)$", s)
    if m:
        v = {"NAN": float("nan"), "INFINITY": float("inf"), "NEG_INFINITY": float("-inf")}[m.group(1)]
        return "Float", v, "VO::from(f64::%s)" % m.group(1)
    raise ValueError("operand syntax: " + s)


def operand_str(var, val):
    if var in ("Int", "Nat"):
        return "%s(%d)" % (var, val)
    if var == "Bool":
        return "Bool(%s)" % ("true" if val else "false")
    bits = struct.unpack("<Q", struct.pack("<d", val))[0]
    return "Float(f64::from_bits(0x%016x))" % bits


def rust_case(role, model, eval_op=None):
    """role + model string of an obligation -> (rust expression: String, python thunk for the oracle or None)"""
    eval_op = eval_op or {}
    m = re.match(r"^(neg|Neg|Pos|Not|Invert) (%s)$" % OPERAND, model)
    if m:
        opk, (var, val, rx) = m.group(1), parse_operand(m.group(2))
        if role == "ValueObj::neg":
            return "show(Some(-(%s)))" % rx, (lambda: -val)
        mm = re.match(r"^eval_unary_val\[(\w+)\]$", role)
        if mm:
            py = {"Neg": lambda: -val, "Pos": lambda: +val, "Not": lambda: (not val), "Invert": lambda: ~val}[mm.group(1)]
            return "show(CX::default().eval_unary_val(OK::%s, %s).ok())" % (mm.group(1), rx), py
        return None
    m = re.match(r"^(%s) (\S+) (%s)$" % (OPERAND, OPERAND), model)
    if not m:
        return None
    (lv, lval, lx), sym, (rv, rval, rxx) = parse_operand(m.group(1)), m.group(2), parse_operand(m.group(3))
    py = (lambda: PYFN[sym](lval, rval)) if sym in PYFN else None
    mm = re.match(r"^(try_\w+)$", role)
    if mm:
        return "show((%s).%s(%s))" % (lx, role, rxx), py
    mm = re.match(r"^eval_bin\[(\w+)\]$", role)
    if mm and mm.group(1) in eval_op:
        return ('format!("{} | {}", show(CX::default().eval_bin(OK::%s, %s, %s).ok()), show((%s).%s(%s)))'
                % (mm.group(1), lx, rxx, lx, eval_op[mm.group(1)], rxx)), None
    mm = re.match(r"^try_binary\[(\w+)\]$", role)
    if mm and mm.group(1) in eval_op:
        return ('format!("{} | {}", show((%s).try_binary(%s, OK::%s)), show((%s).%s(%s)))'
                % (lx, rxx, mm.group(1), lx, eval_op[mm.group(1)], rxx)), None
    return None


def py_result(thunk):
    try:
        return ("value", thunk())
    except ZeroDivisionError as e:
        return ("raises", "ZeroDivisionError: %s" % e)
    except OverflowError as e:
        return ("raises", "OverflowError: %s" % e)


def native_equals_python(native, pv):
    """does the text printed by the native run denote the python value pv?"""
    m = re.match(r"^(Int|Nat)\((-?\d+)\)$", native)
    if m:
        return isinstance(pv, int) and not isinstance(pv, bool) and int(m.group(2)) == pv
    m = re.match(r"^Bool\((true|false)\)$", native)
    if m:
        return isinstance(pv, bool) and pv == (m.group(1) == "true")
    m = re.match(r"^Float\(0x([0-9a-f]+)\)$", native)
    if m:
        if not isinstance(pv, float):
            return False
        nv = struct.unpack("<d", struct.pack("<Q", int(m.group(1), 16)))[0]
        if math.isnan(nv) or math.isnan(pv):
            return math.isnan(nv) and math.isnan(pv)
        return struct.pack("<d", nv) == struct.pack("<d", pv)
    return False


def judge(kind, native, pyres):
    """(reproduced?, text).  kind: the assertion class of the obligation key (no-panic:* | value* | value:python-raises*)"""
    if native is None:
        return None, "no native result"
    if kind.startswith("dispatch"):
        if native.startswith("PANIC") or " | " not in native:
            return None, "native: %s" % native
        x, y = native.split(" | ", 1)
        return x != y, "native (dispatcher | try_* directly): %s" % native
    if kind.startswith("no-panic"):
        return native.startswith("PANIC"), "native: %s" % native
    if native.startswith("PANIC"):
        return True, "native panics (%s) where a value mismatch was predicted" % native
    if pyres is None:
        return None, "no python oracle for this case; native: %s" % native
    if kind.startswith("value:python-raises"):
        return (pyres[0] == "raises" and native != "None"), "native: %s ; python: %s" % (native, pyres[1])
    if native == "None":
        return False, "native returns None ; python: %r" % (pyres[1],)
    if pyres[0] == "raises":
        return True, "native: %s ; python raises %s" % (native, pyres[1])
    return (not native_equals_python(native, pyres[1])), "native: %s ; python: %r" % (native, pyres[1])


# ---------------------------------------------------------------------------------------------
# translation validation: concrete vectors through the symbolic outcomes and through the real code

VEC = {
    "Int": [0, 1, -1, 2, -2, 7, -7, 10, 65536, -65536, 46341, 2147483647, -2147483648, -2147483647, 1073741824],
    "Nat": [0, 1, 2, 3, 7, 10, 65536, 2147483647, 2147483648, 4294967295, 4294967296, (1 << 53) + 1, 1 << 63, (1 << 64) - 1,
            3037000500],
    "Float": [0.0, -0.0, 1.0, -1.0, 1.5, -3.5, 0.1, 2.0, float("inf"), float("-inf"), float("nan"), 9007199254740992.0,
              1e308, 5e-324, 2147483648.0, -7.0],
    "Bool": [True, False],
}


def vectors(pairs, per_pair, seed):
    rnd = random.Random(seed)
    out = []
    for lv, rv in pairs:
        combos = [(x, y) for x in VEC[lv] for y in (VEC[rv] if rv else [None])]
        rnd.shuffle(combos)
        out += [(lv, x, rv, y) for x, y in combos[:per_pair]]
    return out


def assign(e, var, val, idx):
    cs = [e.discr == idx[var]]
    p = e.payload[var][0]
    if var == "Int":
        cs.append(p.t == z3.BitVecVal(val, 32))
    elif var == "Nat":
        cs.append(p.t == z3.BitVecVal(val, 64))
    elif var == "Bool":
        cs.append(p.t == z3.BoolVal(bool(val)))
    else:
        f = p.fields[0] if isinstance(p, M.Agg) else p
        bits = struct.unpack("<Q", struct.pack("<d", val))[0]
        cs.append(f.t == (z3.fpNaN(z3.Float64()) if math.isnan(val) else z3.fpBVToFP(z3.BitVecVal(bits, 64), z3.Float64())))
    return cs


def show_model_value(mdl, val, variants, unwrap):
    """text of a returned symbolic value under a model, in the format of the native `show`"""
    if not isinstance(val, M.Enum):
        return "?", None
    if unwrap:
        ty = str(val.ty or "")
        if "Some" in val.payload or "Option<" in ty:
            if mdl.eval(val.discr, model_completion=True).as_long() != 1:
                return "None", None
            val = val.payload.get("Some", {}).get(0)
        elif "Ok" in val.payload or "Err" in val.payload or "Result<" in ty:
            if mdl.eval(val.discr, model_completion=True).as_long() != 0:
                return "None", None
            val = val.payload.get("Ok", {}).get(0)
        if not isinstance(val, M.Enum):
            return "?", None
    d = mdl.eval(val.discr, model_completion=True).as_long()
    var = variants[d] if d < len(variants) else "?"
    if var in ("Inf", "NegInf"):
        return var, None
    p = val.payload.get(var, {}).get(0)
    if var not in ("Int", "Nat", "Float", "Bool"):
        return "Other", None
    if p is None:
        return "?", None
    if var == "Float":
        f = p.fields[0] if isinstance(p, M.Agg) else p
        v = mdl.eval(f.t, model_completion=True)
        if z3.is_true(z3.simplify(z3.fpIsNaN(v))):
            return "Float(NaN)", f.t
        return "Float(0x%016x)" % z3.simplify(z3.fpToIEEEBV(v)).as_long(), f.t
    v = mdl.eval(p.t, model_completion=True)
    if var == "Int":
        return "Int(%d)" % v.as_signed_long(), p.t
    if var == "Nat":
        return "Nat(%d)" % v.as_long(), p.t
    return "Bool(%s)" % ("true" if z3.is_true(v) else "false"), p.t


def encoder_eval(outs, cs, variants, unwrap=True):
    """which outcome does the symbolic execution take under the concrete assignment cs, and with what value"""
    s = z3.Solver()
    s.set("timeout", 20000)
    for c in cs:
        s.add(c)
    hit = []
    for o in outs:
        s.push()
        for c in o.pc:
            s.add(c)
        defs = M.mul_defs_for(list(o.pc) + list(cs))
        for d in defs:
            s.add(d)
        r = s.check()
        if r == z3.sat:
            if o.kind == "panic":
                hit.append("PANIC")
            elif o.kind == "unsupported":
                hit.append("UNSUPPORTED")
            else:
                mdl = s.model()
                text, term = show_model_value(mdl, o.value, variants, unwrap)
                if term is not None:
                    # a payload that the operands do not determine (float // % **: uninterpreted in the encoding)
                    # is compared by variant only
                    s.push()
                    s.add(term != mdl.eval(term, model_completion=True))
                    if s.check() != z3.unsat:
                        text = text.split("(")[0] + "(*)"
                    s.pop()
                hit.append(text)
        elif r != z3.unsat:
            hit.append("UNKNOWN")
        s.pop()
    if len(hit) == 1:
        return hit[0]
    return "AMBIGUOUS%s" % hit


def same_outcome(enc, nat):
    """nat: normalised native text; enc may end in (*) = payload not determined by the encoding"""
    if enc.endswith("(*)"):
        return nat.startswith(enc[:-3] + "(")
    return enc == nat


def norm_native(t):
    if t.startswith("PANIC"):
        return "PANIC"
    m = re.match(r"^Float\(0x([0-9a-f]+)\)$", t)
    if m:
        v = struct.unpack("<d", struct.pack("<Q", int(m.group(1), 16)))[0]
        if math.isnan(v):
            return "Float(NaN)"
    return t
