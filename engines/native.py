"""Native replay of concrete cases against the real crate: a `#[cfg(test)] mod __verif_native` is
appended to one source file of the scratch copy (so private items are reachable through
`use super::*`) and run with `cargo test`.  Each case is an expression of type String evaluated
inside catch_unwind; the test prints one `VR <id> => <text>` line per case (`PANIC <message>`
when the real code panicked).  Used (a) to replay solver counterexamples before they are
reported and (b) to validate the MIR->SMT translation on concrete vectors."""
import os
import re

from common import log, sh

PRELUDE = r"""
#[cfg(test)]
#[allow(unused, unused_imports, dead_code, clippy::all, non_snake_case, ambiguous_glob_reexports, ambiguous_glob_imports, overflowing_literals)]
mod __verif_native {
    use super::*;
    %(uses)s
    %(helpers)s
    #[test]
    fn vrun() {
        std::panic::set_hook(Box::new(|_| {}));
        println!();
        let cases: Vec<(&'static str, fn() -> String)> = vec![
%(cases)s
        ];
        for (id, f) in cases {
            let r = std::panic::catch_unwind(f);
            match r {
                Ok(s) => println!("VR {} => {}", id, s),
                Err(e) => {
                    let msg = e.downcast_ref::<String>().cloned()
                        .or_else(|| e.downcast_ref::<&str>().map(|s| s.to_string())).unwrap_or_default();
                    println!("VR {} => PANIC {}", id, msg.replace('\n', " "));
                }
            }
        }
        println!("VR-DONE");
    }
}
"""


class NativeRun:
    def __init__(self, scratch, pkg, file_rel, uses="", helpers=""):
        self.s = scratch
        self.pkg = pkg
        self.file_rel = file_rel
        self.uses = uses
        self.helpers = helpers
        self.cases = []          # (id, rust expression of type String)
        self.text = None
        self.logs = {}

    def add(self, cid, expr):
        assert re.match(r"^[A-Za-z0-9_.-]+$", cid), cid
        self.cases.append((cid, expr))

    def run(self, release=False, timeout=3000):
        """returns ({id: text}, seconds) or (None, seconds) when the build/run failed (log in self.logs)"""
        if self.text is None:
            body = "\n".join('            ("%s", || { %s }),' % (cid, e) for cid, e in self.cases)
            self.text = PRELUDE % dict(uses=self.uses, helpers=self.helpers, cases=body)
            self.s.append(self.file_rel, self.text)
        prof = ["--release"] if release else []
        cmd = ["cargo", "test", "--offline", "-p", self.pkg, "--lib"] + prof + \
              ["--", "__verif_native::vrun", "--nocapture", "--test-threads", "1"]
        rc, out, dt = sh(cmd, cwd=self.s.src,
                         env=self.s.env(CARGO_TARGET_DIR=os.path.join(self.s.root, "native")), timeout=timeout)
        self.logs["release" if release else "dev"] = out[-4000:]
        if "VR-DONE" not in out:
            log("native run failed (rc=%s):\n%s" % (rc, out[-3000:]))
            return None, dt
        res = {}
        for m in re.finditer(r"\bVR (\S+) => (.*)$", out, re.M):
            res[m.group(1)] = m.group(2).strip()
        return res, dt
