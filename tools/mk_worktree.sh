#!/bin/bash
# usage: mk_worktree.sh <name>   -> /tmp/mut/<name> (git worktree of /repo HEAD, detached) with a warm target dir and private HOME
set -e
n="$1"; d=/tmp/mut/$n
mkdir -p /tmp/mut
git -C /repo worktree add --detach "$d" HEAD >/dev/null 2>&1
mkdir -p "$d/.home"
cp -a /repo/target "$d/target" 2>/dev/null || true
cat > "$d/.env.sh" <<EOT
export HOME=$d/.home CARGO_HOME=/root/.cargo RUSTUP_HOME=/root/.rustup CARGO_NET_OFFLINE=true
EOT
echo "$d"
