"""Shared infrastructure: scratch copies of /repo, evidence files, known findings,
result accounting and exit codes.  Nothing here decides a property; the engines do."""
import hashlib
import json
import os
import re
import shutil
import subprocess
import sys
import time

VERIF = os.path.dirname(os.path.dirname(os.path.abspath(__file__)))
REPO = os.environ.get("VERIF_REPO", "/repo")
REAL_HOME = os.environ.get("VERIF_REAL_HOME", "/root")
NCPU = os.cpu_count() or 4


def log(*a):
    print(*a, flush=True)


def sh(cmd, cwd=None, env=None, timeout=None, input=None):
    """Run a command, return (rc, stdout+stderr, seconds). rc=-9 on timeout."""
    t0 = time.time()
    try:
        p = subprocess.run(cmd, cwd=cwd, env=env, timeout=timeout, input=input,
                           stdout=subprocess.PIPE, stderr=subprocess.STDOUT,
                           shell=isinstance(cmd, str), text=True, errors="replace")
        return p.returncode, p.stdout, time.time() - t0
    except subprocess.TimeoutExpired as e:
        out = e.stdout or ""
        if isinstance(out, bytes):
            out = out.decode("utf-8", "replace")
        return -9, out, time.time() - t0


class Scratch:
    """A throw-away copy of /repo's *working tree* (no target/, no .git) outside /repo and
    /verif.  HOME is redirected into it because crates/erg_compiler/build.rs copies lib/
    into ~/.erg on every build."""

    def __init__(self, tag):
        base = os.environ.get("VERIF_SCRATCH") or "/var/tmp"
        self.root = os.path.join(base, "ergverif.%s.%d" % (tag, os.getpid()))
        if os.path.exists(self.root):
            shutil.rmtree(self.root, ignore_errors=True)
        os.makedirs(self.root)
        self.src = os.path.join(self.root, "src")
        self.home = os.path.join(self.root, "home")
        os.makedirs(self.home)
        rc, out, _ = sh(["rsync", "-a", "--exclude", "/target", "--exclude", ".git",
                         REPO + "/", self.src + "/"])
        if rc != 0:
            raise RuntimeError("rsync failed: " + out)

    def env(self, **extra):
        e = dict(os.environ)
        e.update({
            "HOME": self.home,
            "CARGO_HOME": os.environ.get("CARGO_HOME", REAL_HOME + "/.cargo"),
            "RUSTUP_HOME": os.environ.get("RUSTUP_HOME", REAL_HOME + "/.rustup"),
            "KANI_HOME": os.environ.get("KANI_HOME", REAL_HOME + "/.kani"),
            "CARGO_NET_OFFLINE": "true",
            "CARGO_TERM_COLOR": "never",
        })
        e.pop("RUSTFLAGS", None)
        e.update(extra)
        return e

    def path(self, *p):
        return os.path.join(self.src, *p)

    def read(self, rel):
        with open(self.path(rel), encoding="utf-8") as f:
            return f.read()

    def append(self, rel, text):
        with open(self.path(rel), "a", encoding="utf-8") as f:
            f.write("\n" + text + "\n")

    def cleanup(self):
        if os.environ.get("VERIF_KEEP_SCRATCH"):
            log("scratch kept at", self.root)
            return
        shutil.rmtree(self.root, ignore_errors=True)


def src_hash(text):
    return hashlib.sha256(text.encode("utf-8")).hexdigest()[:12]


def extract_fn(text, name, kind="fn"):
    """Return the source text of `fn name` (first match) by brace matching; None if absent."""
    m = re.search(r"\b%s\s+%s\b" % (kind, re.escape(name)), text)
    if not m:
        return None
    i = text.find("{", m.end())
    if i < 0:
        return None
    depth = 0
    for j in range(i, len(text)):
        c = text[j]
        if c == "{":
            depth += 1
        elif c == "}":
            depth -= 1
            if depth == 0:
                return text[m.start():j + 1]
    return None


# ---------------------------------------------------------------------------
# known findings

class Known:
    """/verif/known_findings.jsonl: one JSON object per line,
    {"status": "known"|"fixed", "property": id, "key": role key (fnmatch pattern allowed),
     "what": text, "commit": sha (fixed only)}.  Never written at run time."""

    def __init__(self):
        self.entries = []
        p = os.path.join(VERIF, "known_findings.jsonl")
        if os.path.exists(p):
            for line in open(p, encoding="utf-8"):
                line = line.strip()
                if line and not line.startswith("#"):
                    self.entries.append(json.loads(line))

    def lookup(self, prop, key):
        import fnmatch
        for e in self.entries:
            if e.get("status") == "known" and e["property"] == prop and \
                    (e["key"] == key or fnmatch.fnmatchcase(key, e["key"])):
                return e
        return None


# ---------------------------------------------------------------------------
# obligations and the report

HELD, VIOLATED, KNOWN, INCONCLUSIVE, BROKEN = "held", "violated", "known-finding", "inconclusive", "machinery-error"


class Obligation(dict):
    """One solver question.  Keys: key (role), engine, functions, shape, symbolic, bounds,
    stubs, verdict, reason, solver, solver_s, detail, replay."""


class Report:
    def __init__(self, prop, tier, seed, level, explanation, partial=False):
        # partial: a filtered debugging run (--only); its evidence goes to evidence/<id>.partial.json
        # (git-ignored) so that the committed evidence/<id>.json always describes a complete run
        self.partial = bool(partial)
        self.prop = prop
        self.tier = tier
        self.seed = seed
        self.level = level
        self.explanation = explanation
        self.obls = []
        self.assumptions = []
        self.functions = {}
        self.t0 = time.time()
        self.known = Known()
        self.trusted = []
        self.extra = {}
        self.replayed = 0

    def add_function(self, name, path, text):
        self.functions[name] = {"path": path, "sha256_12": src_hash(text) if text else None,
                                "present": text is not None}

    def add(self, ob):
        self.obls.append(ob)
        return ob

    def finish(self):
        """Print the verdict lines, write evidence, return the exit code."""
        viol, known, inconc, broken, held = [], [], [], [], []
        for o in self.obls:
            v = o["verdict"]
            if v == VIOLATED:
                k = self.known.lookup(self.prop, o["key"])
                if k:
                    o["verdict"] = KNOWN
                    o["known_what"] = k["what"]
                    known.append(o)
                else:
                    viol.append(o)
            elif v == KNOWN:
                known.append(o)
            elif v == INCONCLUSIVE:
                inconc.append(o)
            elif v == BROKEN:
                broken.append(o)
            else:
                held.append(o)
        seen = set()
        for o in known:
            what = o.get("known_what") or o.get("reason", "")
            line = "KNOWN-FINDING: property=%s %s [%s]" % (self.prop, what, o["key"])
            if line not in seen:
                seen.add(line)
                log(line)
        for o in inconc:
            log("INCONCLUSIVE property=%s obligation=%s reason=%s" % (self.prop, o["key"], o.get("reason", "?")))
        for o in broken:
            log("ENCODING-ERROR property=%s obligation=%s reason=%s" % (self.prop, o["key"], o.get("reason", "?")))
        for o in viol:
            rp = o.get("replay") or self.write_replay(o)
            log("VIOLATION property=%s replay=%s" % (self.prop, rp))
            log("  obligation=%s : %s" % (o["key"], o.get("reason", "")))
        decided = held + known + viol
        nontrivial = len({o["key"] for o in decided if o.get("nontrivial", True)})
        cov = {
            "explanation": self.explanation,
            "obligations": len(self.obls),
            "discharged": len(held),
            "known_findings": len(known),
            "violations": len(viol),
            "undischarged": [{"key": o["key"], "reason": o.get("reason", "")} for o in inconc + broken],
            "evaluations": len(self.obls),
            "distinct_nontrivial": nontrivial,
            "rule": "one evaluation = one solver query (an obligation: a kernel, a concrete shape, "
                    "an assertion, all scalars symbolic); counted non-trivial when the solver returned a "
                    "verdict (not a timeout / unsupported path), its vacuity witness was reachable and the "
                    "query contained at least one unconstrained scalar; distinct by role key",
            "samples": [self._sample(o) for o in (viol + known + held + inconc)[:0]] or
                       [self._sample(o) for o in self._pick_samples(viol, known, held, inconc)],
            "functions_encoded": self.functions,
            "solver_seconds": round(sum(o.get("solver_s", 0) or 0 for o in self.obls), 3),
            "queries": sum(o.get("queries", 1) for o in self.obls),
            "traces_validated_against_impl": self.replayed,
            "trusted_base": self.trusted,
            "exhaustive": False,
        }
        cov.update(self.extra)
        ev = {
            "property_id": self.prop, "tier": self.tier, "seed": self.seed, "level": self.level,
            "coverage": cov, "assumptions": self.assumptions,
            "wall_s": round(time.time() - self.t0, 2), "violations": len(viol),
            "obligation_table": [self._sample(o) for o in self.obls],
        }
        os.makedirs(os.path.join(VERIF, "evidence"), exist_ok=True)
        mutant = os.environ.get("VERIF_MUTANT")      # detection runs against a seeded change: never touch the committed evidence
        path = os.path.join(VERIF, "evidence", self.prop + (".partial.json" if (self.partial or mutant) else ".json"))
        if mutant:
            path = os.path.join(VERIF, "evidence", "%s.mutant-%s.partial.json" % (self.prop, mutant))
        if self.partial:
            ev["partial_run"] = True
            log("NOTE: filtered run (--only): evidence written to %s, evidence/%s.json left untouched" % (path, self.prop))
        tmp = path + ".tmp"
        with open(tmp, "w") as f:
            json.dump(ev, f, indent=1, default=str)
        os.replace(tmp, path)
        log("SUMMARY property=%s tier=%s obligations=%d held=%d known=%d violations=%d inconclusive=%d broken=%d wall=%.0fs"
            % (self.prop, self.tier, len(self.obls), len(held), len(known), len(viol), len(inconc), len(broken),
               time.time() - self.t0))
        if viol:
            return 1
        if broken:
            return 2
        if not held and not known:
            log("MACHINERY-ERROR: no obligation was decided")
            return 2
        return 0

    def _pick_samples(self, viol, known, held, inconc):
        out = viol[:3] + known[:3] + held[:6] + inconc[:2]
        return out or self.obls[:3]

    @staticmethod
    def _sample(o):
        keep = ("key", "engine", "functions", "shape", "symbolic", "bounds", "stubs", "verdict", "reason",
                "solver", "solver_s", "queries", "model", "replay", "vacuity", "detail", "known_what", "cross",
                "native_replay", "replay_note", "end_to_end", "twin")
        return {k: o[k] for k in keep if k in o}

    def write_replay(self, o):
        d = os.path.join(VERIF, "replays", self.prop)
        os.makedirs(d, exist_ok=True)
        h = hashlib.sha256(o["key"].encode()).hexdigest()[:10]
        p = os.path.join(d, h + ".json")
        with open(p, "w") as f:
            json.dump(self._sample(o), f, indent=1, default=str)
        return p
