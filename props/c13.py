"""C13 — every supported Python target runs the program identically (kernel: the instruction chosen for a binary operator).

The code generator writes a different instruction sequence per target version; for binary operators that choice is one table per
version family (`emit_binop_instr_307` for 3.7 / 3.8, `_309` for 3.9 / 3.10, `_311` for 3.11): operator token -> (opcode,
oparg).  A wrong row gives bytecode that loads and runs but computes another operator, on that target only.

Engine: `mirsem` — the rustc MIR of the three functions is executed with the token kind as a solver variable over `enum
TokenKind` (read from erg_parser); the calls `write_instr(op)` / `write_arg(n)` are recorded, enum constants of the opcode tables
and of `BinOpCode` are read from erg_common's sources as named constants.  Oracle, generated at check time from the installed
interpreters (as for C16): `dis.opmap`, `dis.cmp_op` and, for 3.11, `dis._nb_ops`.  Per (target version, operator) z3 decides
that every feasible path writes the opcode whose *name* in that interpreter denotes the operator, with the operator's oparg.
Violations are replayed on a real `PyCodeGenerator` targeting that version; the encoding is validated the same way on every
operator and version."""
import glob
import json
import os
import re
import subprocess
import time

import z3

import mir2smt as M
import mirsem as S
from common import (BROKEN, HELD, INCONCLUSIVE, VIOLATED, Obligation, Report, Scratch, extract_fn, log)
from mirflow import DISC, Ref, Unsupported, const, fun
from native import NativeRun
import mirflow as F

PY = {v: sorted(glob.glob("/root/.pyenv/versions/3.%d.*/bin/python" % v)) for v in (7, 8, 9, 10, 11)}
TABLE = {"307": "308", "309": "309", "311": "311"}          # which opcode table the family writes from
SNIPPET = r"""
import dis, json, sys
print(json.dumps({"opmap": dis.opmap, "cmp_op": list(dis.cmp_op), "nb_ops": [list(x) for x in getattr(dis, "_nb_ops", [])], "minor": sys.version_info[1]}))
"""
ARITH = {"Plus": ("+", "BINARY_ADD"), "Minus": ("-", "BINARY_SUBTRACT"), "Star": ("*", "BINARY_MULTIPLY"), "Slash": ("/", "BINARY_TRUE_DIVIDE"),
         "FloorDiv": ("//", "BINARY_FLOOR_DIVIDE"), "Pow": ("**", "BINARY_POWER"), "Mod": ("%", "BINARY_MODULO"),
         "AndOp": ("&", "BINARY_AND"), "BitAnd": ("&", "BINARY_AND"), "OrOp": ("|", "BINARY_OR"), "BitOr": ("|", "BINARY_OR"), "BitXor": ("^", "BINARY_XOR")}
COMPARE = {"Less": "<", "LessEq": "<=", "DblEq": "==", "NotEq": "!=", "Gre": ">", "GreEq": ">="}
IDENT = {"IsOp": ("is", 0), "IsNotOp": ("is not", 1)}
MEMBER = {"InOp": ("in", 0), "NotInOp": ("not in", 1)}


def oracle():
    ref = {}
    for v, paths in PY.items():
        if paths:
            out = subprocess.run([paths[-1], "-c", SNIPPET], capture_output=True, text=True, timeout=60)
            if out.returncode == 0:
                ref[v] = json.loads(out.stdout)
    return ref


def expected(ref, v, tok):
    """(opname, oparg or None = any) the interpreter of 3.v needs for the operator token, or None when the token is outside the oracle"""
    r = ref[v]
    if tok in ARITH:
        sym, name = ARITH[tok]
        if v >= 11:
            idx = [i for i, (nm, s) in enumerate(r["nb_ops"]) if s == sym]
            return ("BINARY_OP", idx[0]) if idx else None
        return (name, None) if name in r["opmap"] else None
    if tok in COMPARE:
        return ("COMPARE_OP", r["cmp_op"].index(COMPARE[tok]))
    if tok in IDENT:
        sym, arg = IDENT[tok]
        if v >= 9:
            return ("IS_OP", arg)
        return ("COMPARE_OP", r["cmp_op"].index(sym))
    if tok in MEMBER:
        sym, arg = MEMBER[tok]
        if v >= 9:
            return ("CONTAINS_OP", arg)
        return ("COMPARE_OP", r["cmp_op"].index(sym))
    return None


def table_numbers(src, enum):
    mm = re.search(r"impl_u8_enum!\s*\{\s*%s;(.*?)\n\}" % enum, src, re.S)
    if not mm:
        return {}
    body = re.sub(r"//[^\n]*", "", mm.group(1))
    return {a: int(b) for a, b in re.findall(r"\b([A-Za-z][A-Za-z0-9_]*)\s*=\s*(\d+)", body)}


HELPERS = r"""
    fn __binop(minor: u8, kind: &str) -> String {
        let mut cfg = ErgConfig::default();
        cfg.target_version = Some(erg_common::python_util::PythonVersion::new(3, Some(minor), Some(0)));
        let mut g = PyCodeGenerator::new(cfg);
        let ver = g.py_version;
        g.units.push(PyCodeGenUnit::new(0, ver, vec![], 0, "f.er", "<module>", 1, 0));
        g.mut_cur_block().stack_len = 2;
        let k = match kind {
            %s
            _ => return "unknown-token".to_string(),
        };
        let tok = erg_parser::token::Token::new(k, "op", 1, 0);
        let before = g.cur_block_codeobj().code.len();
        g.emit_binop_instr(tok, TypePair::Others);
        let code = &g.cur_block_codeobj().code[before..];
        format!("{:?}", code)
    }
"""


def run(tier, seed, only=None):
    rep = Report("C13", tier, seed, "other",
                 "Kernel-level partial claim: the per-version tables that choose the instruction for a binary operator (emit_binop_instr_307 / _309 / _311).  "
                 "Their rustc MIR is executed symbolically (engine mirsem) with the operator token as a solver variable; the (opcode, oparg) written on each path "
                 "is compared with what the installed interpreter of each target version (3.7 - 3.11) needs for that operator: the opcode whose name denotes the "
                 "operator in dis.opmap, the operator's index in dis.cmp_op, and for 3.11 its index in dis._nb_ops.  Counterexamples and the encoding are "
                 "replayed on a real PyCodeGenerator per target version.  All other version-specific emission (calls, with-blocks, closures, jumps, exception "
                 "tables), the interpreter selection of `erg run`, and the behaviour of whole programs under each interpreter are not decided.", partial=bool(only))
    rep.trusted += ["rustc nightly -Zunpretty=mir as the semantics of the source", "engines/mirsem.py + engines/mirflow.py", "z3 " + z3.get_version_string(),
                    "dis.opmap / dis.cmp_op / dis._nb_ops of the installed interpreters"]
    ref = oracle()
    if len(ref) < 3:
        log("MACHINERY-ERROR: fewer than 3 reference interpreters available")
        return 2
    s = Scratch("c13")
    try:
        gsrc = s.read("crates/erg_compiler/codegen.rs")
        tsrc = s.read("crates/erg_parser/token.rs")
        kinds = M.rust_enum_variants(tsrc, "TokenKind")
        tokf = re.search(r"pub struct Token \{(.*?)\n\}", tsrc, re.S)
        tfields = re.findall(r"^\s*(?:pub(?:\([^)]*\))?\s+)?(\w+)\s*:", tokf.group(1), re.M) if tokf else []
        numbers = {}
        for tb in ("308", "309", "310", "311"):
            numbers[tb] = table_numbers(s.read("crates/erg_common/opcode%s.rs" % tb), "Opcode" + tb)
        binopcode = table_numbers(s.read("crates/erg_common/opcode311.rs"), "BinOpCode")
        for f in ("emit_binop_instr", "emit_binop_instr_307", "emit_binop_instr_309", "emit_binop_instr_311"):
            rep.add_function("PyCodeGenerator::" + f, "crates/erg_compiler/codegen.rs", extract_fn(gsrc, f))
        if not kinds or "kind" not in tfields or not binopcode or not all(numbers.values()):
            rep.add(Obligation(key="source/shape", verdict=BROKEN, reason="TokenKind / Token / opcode tables could not be read as expected"))
            return rep.finish()
        text, dt, err, rc = M.dump_mir(s, "erg_compiler", overflow_checks=True, extra_cargo=["--lib"])
        if rc != 0 or len(text) < 1000:
            log("MIR dump failed:\n" + err[-3000:])
            rep.add(Obligation(key="mir-dump", verdict=BROKEN, reason="cargo +nightly rustc -Zunpretty=mir failed"))
            return rep.finish()
        log("  MIR dump erg_compiler: %.0fs, %d MB" % (dt, len(text) >> 20))
        fns = M.parse_mir(text, want=["::emit_binop_instr"])
        # the dispatcher, executed once per target version: which family does `emit_binop_instr` call for minor = v?
        promoted = {}
        for mm in re.finditer(r"^const [^\n]*::emit_binop_instr::promoted\[(\d+)\][^\n]*\{(.*?)^\}", text, re.S | re.M):
            val = re.search(r"Option::<u8>::Some\(const (\d+)_u8\)", mm.group(2))
            if val:
                promoted[int(mm.group(1))] = int(val.group(1))
        disp = [f for f in fns.values() if f.short == "emit_binop_instr"]
        family_of = {}
        dob = Obligation(dict(engine="mirsem (MIR -> z3 %s)" % z3.get_version_string(), solver="z3", functions=["PyCodeGenerator::emit_binop_instr"],
                              shape="target minor version 7..11 (concrete per run)", symbolic=[], bounds={}), key="dispatch/by-version")
        try:
            if len(disp) != 1 or not promoted:
                raise Unsupported("dispatcher or its promoted constants not found (%d, %r)" % (len(disp), promoted))
            for v in sorted(ref):
                def ge(flow, P, callee, args, v=v):
                    mm2 = re.search(r"promoted_(\d+)_?$", str(args[1]))
                    if not mm2 or int(mm2.group(1)) not in promoted:
                        raise Unsupported("comparison with an unknown constant %s" % (args[1],))
                    return S.TRUE if v >= promoted[int(mm2.group(1))] else S.FALSE

                def fam_call(flow, P, callee, args):
                    P.calls.append(("FAMILY", [callee.rsplit("_", 1)[-1]], None))
                    return const("unit")
                fl = S.SemFlow(fns, disp[0], [(r"^<Option<u8> as PartialOrd>::(ge)$", ge), (r"PyCodeGenerator::emit_binop_instr_\d+$", fam_call)], {"Option": ["None", "Some"]})
                outs = fl.run("bb0", stop_at=(), pre={"_1": const("gen"), "_2": const("tok"), "_3": const("type_pair")}, pc=list(S.BASE_AXIOMS))
                fams = {c[1][0] for Q, end in outs if end == "return" for c in Q.calls if c[0] == "FAMILY"}
                if len(fams) != 1:
                    raise Unsupported("dispatch for 3.%d is not a single family: %s" % (v, sorted(fams)))
                family_of[v] = fams.pop()
            dob.update(verdict=HELD, nontrivial=False, detail={"family per target": {"3.%d" % v: "_" + f for v, f in family_of.items()}},
                       reason="emit_binop_instr calls exactly one table per target version (%s); each table is checked against that version's interpreter below" % ", ".join("3.%d -> _%s" % (v, f) for v, f in sorted(family_of.items())))
        except Unsupported as e:
            dob.update(verdict=INCONCLUSIVE, reason="unsupported-construct: " + str(e)[:200])
        rep.add(dob)
        iviol = interpreter_selection(rep, s, text, only)
        del text
        solver = z3.Solver()
        solver.set("timeout", 60000)
        nq = [0]

        def check(conds):
            solver.push()
            solver.add(*conds)
            r = solver.check()
            solver.pop()
            nq[0] += 1
            return str(r)
        KI = {k: i for i, k in enumerate(kinds)}
        tokens = [t for t in list(ARITH) + list(COMPARE) + list(IDENT) if t in KI]
        fam_paths = {}
        used = set()
        for fam in ("307", "309", "311"):
            mains = [f for f in fns.values() if f.short == "emit_binop_instr_" + fam]
            if len(mains) != 1:
                rep.add(Obligation(key="mir/emit_binop_instr_" + fam, verdict=BROKEN, reason="function not found uniquely in the MIR dump (%d)" % len(mains)))
                continue
            tb = TABLE[fam]

            def w_instr(flow, P, callee, args):
                used.add("write_instr / write_arg: recorded (the bytes they append are decided under C16 / C14)")
                P.calls.append(("INSTR", [str(args[1])], None))
                return const("unit")

            def w_arg(flow, P, callee, args):
                P.calls.append(("ARG", [args[1]], None))
                return const("unit")
            try:
                flow = S.SemFlow(fns, mains[0], [(r"PyCodeGenerator::write_instr::", w_instr), (r"PyCodeGenerator::write_arg$", w_arg)], {"Option": ["None", "Some"]})
                for nm, val in binopcode.items():
                    flow.named_consts["erg_common::opcode311::BinOpCode::%s::{constant#0}" % nm] = ("int", val)
                K = const("token_kind")
                P0pc = list(S.BASE_AXIOMS) + [DISC(K) >= 0, DISC(K) < len(kinds)]
                for nm, val in numbers[tb].items():          # the opcode enum constants carry their table numbers as discriminants
                    for cn in ("unit_erg_common_opcode%s_Opcode%s_%s" % (tb, tb, nm), "unit_Opcode%s_%s" % (tb, nm), "unit_" + nm):
                        P0pc.append(DISC(const(cn)) == val)
                tokv = [const("tokfld_%s" % f) for f in tfields]
                tokv[tfields.index("kind")] = K
                pre = {"_1": const("gen"), "_2": ("agg", "Token", tokv), "_3": const("type_pair")}
                outs = flow.run("bb0", stop_at=(), pre=pre, pc=P0pc)
                fam_paths[fam] = (flow, K, [(Q, end) for Q, end in outs if end == "return"])
            except Unsupported as e:
                rep.add(Obligation(key="mir/emit_binop_instr_" + fam, verdict=INCONCLUSIVE, reason="unsupported-construct: " + str(e)[:200]))
        to_replay = []
        for v in sorted(ref):
            fam = family_of.get(v)
            if fam not in fam_paths:
                continue
            flow, K, paths = fam_paths[fam]
            tb = TABLE[fam]
            for tok in tokens:
                want = expected(ref, v, tok)
                if want is None:
                    continue
                key = "binop/py3.%d/%s" % (v, tok)
                if only and not any(o in key for o in only.split(",")):
                    continue
                ob = Obligation(dict(engine="mirsem (MIR -> z3 %s)" % z3.get_version_string(), solver="z3", functions=["PyCodeGenerator::emit_binop_instr_" + fam],
                                     shape="operator token %s, target 3.%d" % (tok, v), symbolic=["the token kind (all variants of TokenKind)"], bounds={}), key=key)
                t0 = time.time()
                bad, n = None, 0
                for Q, end in paths:
                    if check(Q.pc + [DISC(K) == KI[tok]]) != "sat":
                        continue
                    n += 1
                    seq = [c for c in Q.calls if c[0] in ("INSTR", "ARG")]
                    instrs = [i for i, c in enumerate(seq) if c[0] == "INSTR"]
                    if not instrs:
                        bad = ("nothing", None)
                        continue
                    last = instrs[-1]
                    opname = re.sub(r"^.*Opcode\d+_", "", re.sub(r"^unit_", "", seq[last][1][0]))
                    arg = seq[last + 1][1][0] if last + 1 < len(seq) and seq[last + 1][0] == "ARG" else None
                    argv = arg[1] if flow.is_int(arg) else None
                    if opname != want[0] or (want[1] is not None and argv != want[1]):
                        bad = (opname, argv)
                ob["queries"] = len(paths)
                if n == 0:
                    ob.update(verdict=BROKEN, reason="no feasible path for this token (vacuous encoding)")
                elif bad:
                    ob["model"] = {"written": {"opcode": bad[0], "oparg": bad[1]}, "needed": {"opcode": want[0], "oparg": want[1]}}
                    ob.update(verdict=VIOLATED, reason="for target 3.%d the operator %s is written as (%s, %s); python3.%d needs (%s, %s)" % (v, tok, bad[0], bad[1], v, want[0], want[1] if want[1] is not None else "any"))
                    to_replay.append((ob, v, tok, want))
                else:
                    ob.update(verdict=HELD, reason="on all %d paths the instruction written is %s%s, which is this operator in python3.%d" % (
                        n, want[0], "" if want[1] is None else " with oparg %d" % want[1], v))
                ob["solver_s"] = round(time.time() - t0, 3)
                rep.add(ob)
        # ---- native: translation validation on every (version, token) and replay
        arms = "\n            ".join('"%s" => erg_parser::token::TokenKind::%s,' % (t, t) for t in tokens)
        nr = NativeRun(s, "erg_compiler", "crates/erg_compiler/codegen.rs", helpers=HELPERS % arms)
        for v in sorted(ref):
            for tok in tokens:
                nr.add("n.%d.%s" % (v, tok), "__binop(%d, \"%s\")" % (v, tok))
        res, dtn = nr.run()
        log("  native stage: %d cases, %.0fs" % (len(nr.cases), dtn))
        if res is None:
            rep.add(Obligation(key="translation/validated", verdict=BROKEN, reason="the native validation binary did not build or run"))
            return rep.finish()
        byk = {o["key"]: o for o in rep.obls}
        tbad, tn = [], 0
        for v in sorted(ref):
            for tok in tokens:
                want = expected(ref, v, tok)
                ob = byk.get("binop/py3.%d/%s" % (v, tok))
                if want is None or ob is None:
                    continue
                got = [int(x) for x in re.findall(r"\d+", res.get("n.%d.%s" % (v, tok), ""))]
                rep.replayed += 1
                tn += 1
                if len(got) < 2:
                    tbad.append("3.%d %s: no bytes (%s)" % (v, tok, res.get("n.%d.%s" % (v, tok))))
                    continue
                opnum, oparg = got[0], got[1]
                real_ok = ref[v]["opmap"].get(want[0]) == opnum and (want[1] is None or oparg == want[1])
                if ob["verdict"] == HELD and not real_ok:
                    tbad.append("3.%d %s: the encoding says (%s, %s) but the real generator wrote bytes %s" % (v, tok, want[0], want[1], got[:2]))
                if ob["verdict"] == VIOLATED:
                    ob["native_replay"] = {"call": "emit_binop_instr(%s) for target 3.%d" % (tok, v), "bytes": got[:4], "needed": [ref[v]["opmap"].get(want[0]), want[1]]}
                    if real_ok:
                        ob["verdict"] = BROKEN
                        ob["reason"] = "counterexample did not reproduce natively (the real generator writes the needed bytes %s): %s" % (got[:2], ob["reason"])
        rep.add(Obligation(dict(engine="mirsem vs native", functions=["PyCodeGenerator::emit_binop_instr"]), key="translation/validated", nontrivial=False,
                           verdict=BROKEN if tbad else HELD,
                           reason=("the encoding disagrees with the real generator: " + " | ".join(tbad[:4])) if tbad else
                           "for %d (target version, operator) pairs the bytes a real PyCodeGenerator appends are the opcode number (per that interpreter's dis.opmap) and oparg the encoding predicts" % tn))
        if iviol:
            e2e_interpreter(s, rep, iviol, ref)
        rep.assumptions += sorted(used) + [
            "operators covered: + - * / // ** % and(&) or(|) ^, the six comparisons, is / is not; `in` / `notin` are rewritten by the desugarer into Erg's `contains` operator before code generation, which like the range operators is compiled to a call and is outside",
            "an opcode is identified by its *name* in the target interpreter's dis.opmap; that the numbers written for those names are that interpreter's is decided under C16",
        ]
        rep.extra["interpreters"] = {str(v): PY[v][-1] for v in ref}
        rep.extra["z3_queries"] = nq[0]
        return rep.finish()
    finally:
        s.cleanup()



# ---------------------------------------------------------------------------------------------
# stage 2: the interpreter `erg run` starts is the one selected by --py-command (dataflow, engine mirflow)

def interpreter_selection(rep, s, text, only):
    """returns [obligation] that are violated (to be replayed end to end)"""
    from common import sh
    out = []
    keyA, keyB = "interpreter/exec-passes-py-command", "interpreter/exec_pyc_code-forwards-py-command"
    if only and not any(o in keyA or o in keyB for o in only.split(",")):
        return out
    csrc = s.read("crates/erg_common/config.rs")
    st = re.search(r"pub struct ErgConfig \{(.*?)\n\}", csrc, re.S)
    cfields = re.findall(r"^\s*(?:pub(?:\([^)]*\))?\s+)?(\w+)\s*:", st.group(1), re.M) if st else []
    psrc = s.read("crates/erg_common/python_util.rs")
    rep.add_function("CodeObj::exec", "crates/erg_compiler/ty/codeobj.rs", extract_fn(s.read("crates/erg_compiler/ty/codeobj.rs"), "exec"))
    rep.add_function("python_util::exec_pyc_code", "crates/erg_common/python_util.rs", extract_fn(psrc, "exec_pyc_code"))
    base = dict(engine="mirflow (MIR dataflow, z3 congruence)", solver="z3")
    obA = Obligation(dict(base, functions=["CodeObj::exec"]), key=keyA)
    obB = Obligation(dict(base, functions=["python_util::exec_pyc_code"]), key=keyB)
    rep.add(obA)
    rep.add(obB)
    if "py_command" not in cfields:
        obA.update(verdict=BROKEN, reason="ErgConfig.py_command not found in config.rs")
        obB.update(verdict=BROKEN, reason="ErgConfig.py_command not found in config.rs")
        return out
    K = cfields.index("py_command")
    try:
        fns = M.parse_mir(text, want=["codeobj::"])
        ex = [f for f in fns.values() if f.short == "exec" and f.params and "CodeObj" in f.params[0][1]]
        if len(ex) != 1:
            raise F.Unsupported("CodeObj::exec not found uniquely (%d)" % len(ex))
        flow = F.Flow(ex[0])
        paths = flow.run("bb0", stop_at=())
        want = F.fun("field%d" % K, 1)(F.fun("deref", 1)(F.const("init__2")))
        ok_all, seen = True, 0
        for P, end in paths:
            if end != "return":
                continue
            calls = [c for c in P.calls if "exec_pyc" in c[0]]
            if not calls:
                continue
            seen += 1
            sol = z3.Solver()
            sol.add(*P.pc)
            good = False
            for a in calls[-1][1]:
                try:
                    t = flow.term(flow.referent(P, a)) if isinstance(a, (F.Ref, tuple)) else a
                except F.Unsupported:
                    continue
                if z3.is_expr(t):
                    sol.push()
                    sol.add(t != want)
                    if sol.check() == z3.unsat:
                        good = True
                    sol.pop()
            ok_all = ok_all and good
        if seen == 0:
            obA.update(verdict=BROKEN, reason="no path of CodeObj::exec reaches exec_pyc / exec_pyc_code (vacuous)")
        elif ok_all:
            obA.update(verdict=HELD, reason="on every path CodeObj::exec hands `cfg.py_command` to the function that starts the interpreter")
        else:
            obA.update(verdict=VIOLATED, reason="CodeObj::exec starts the interpreter without handing over `cfg.py_command`: `erg --py-command P run f.er` compiles for P's version but runs another interpreter")
            out.append(obA)
    except F.Unsupported as e:
        obA.update(verdict=INCONCLUSIVE, reason="unsupported-construct: " + str(e)[:200])
    try:
        ctext, dt, err, rc = M.dump_mir(s, "erg_common", overflow_checks=True, extra_cargo=["--lib"])
        if rc != 0:
            raise F.Unsupported("MIR dump of erg_common failed")
        cf = M.parse_mir(ctext, want=["exec_pyc_code"])
        ex = [f for f in cf.values() if f.short == "exec_pyc_code"]
        if len(ex) != 1:
            raise F.Unsupported("exec_pyc_code not found uniquely (%d)" % len(ex))
        flow = F.Flow(ex[0])
        params = [F.const("init_" + pn) for pn, pt in ex[0].params]
        paths = flow.run("bb0", stop_at=())
        seen, ok_all = 0, True
        for P, end in paths:
            calls = [c for c in P.calls if re.search(r"\bexec_pyc(::<|$|_in)", c[0])]
            if not calls:
                continue
            seen += 1
            args = calls[-1][1]
            good = len(args) >= 2 and z3.is_expr(args[1]) and any(args[1].eq(p) for p in params)
            ok_all = ok_all and good
        if seen == 0:
            obB.update(verdict=BROKEN, reason="no path of exec_pyc_code calls exec_pyc (vacuous)")
        elif ok_all:
            obB.update(verdict=HELD, reason="exec_pyc_code passes one of its own parameters as exec_pyc's `py_command`")
        else:
            obB.update(verdict=VIOLATED, reason="exec_pyc_code calls exec_pyc with a constant `py_command` (None): the default interpreter is started whatever was selected")
            out.append(obB)
    except F.Unsupported as e:
        obB.update(verdict=INCONCLUSIVE, reason="unsupported-construct: " + str(e)[:200])
    return out


def e2e_interpreter(s, rep, viol, ref):
    from common import sh
    tdir = os.path.join(s.root, "native")
    rc, out, dt = sh(["cargo", "build", "--offline", "--bin", "erg"], cwd=s.src, env=s.env(CARGO_TARGET_DIR=tdir), timeout=2400)
    exe = os.path.join(tdir, "debug", "erg")
    confirmed = False
    detail = {}
    if rc == 0 and os.path.exists(exe):
        prog = os.path.join(s.root, "which.er")
        open(prog, "w").write("sys = pyimport \"sys\"\nprint! sys.version_info.minor\n")
        for v in sorted(ref):
            if v == 11:
                continue
            rc1, o1, _ = sh([exe, "--py-command", PY[v][-1], "run", prog], env=s.env(), timeout=180)
            last = [l for l in re.sub(r"\x1b\[[0-9;]*m", "", o1).strip().split("\n") if l.strip()][-1:] or [""]
            detail["--py-command python3.%d" % v] = {"exit": rc1, "last line": last[0][:120]}
            if last[0].strip() != str(v):
                confirmed = True
            break
    for ob in viol:
        ob["end_to_end"] = detail or {"note": "erg could not be built for the replay"}
        if not confirmed:
            ob["verdict"] = BROKEN if detail else INCONCLUSIVE
            ob["reason"] = ("the dataflow finding did not reproduce end to end (%s): " % detail if detail else "no end-to-end replay available: ") + ob["reason"]
    log("  e2e interpreter selection: %s" % detail)
