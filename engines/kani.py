"""E1: Kani/CBMC over the real crates through a source overlay.

A scratch copy of /repo gets `#[cfg(kani)] mod __verif { use super::*; ... }` appended to the
source file whose private items a harness needs; cargo-kani compiles the *unchanged* code plus
that module; CBMC decides every assertion for all values of the kani::any() inputs within the
unwind bound (unwinding assertions on).  Nothing in /repo is modified."""
import os
import queue
import re
import shutil
import threading
import time

from common import (BROKEN, HELD, INCONCLUSIVE, VIOLATED, NCPU, Obligation, log, sh)

NOOP_STUB = "std::rt::thread_cleanup"


class Harness:
    def __init__(self, name, body, role, unwind=None, stubs=(), asserts=None, covers=(),
                 meta=None, cap=None, fmt_stub=False, should_panic=False):
        self.name = name
        self.body = body
        self.role = role              # role key prefix, e.g. "try_add/(Int,Int)"
        self.unwind = unwind
        self.stubs = list(stubs)      # [(orig_path, replacement_fn_name)]
        self.asserts = asserts or {}  # id -> meaning
        self.covers = list(covers)    # ids of cover! witnesses that must be SATISFIED
        self.meta = meta or {}
        self.cap = cap
        self.fmt_stub = fmt_stub
        self.result = None

    def render(self):
        attrs = ["#[cfg_attr(kani, kani::proof)]"]
        if self.unwind:
            attrs.append("#[cfg_attr(kani, kani::unwind(%d))]" % self.unwind)
        attrs.append("#[cfg_attr(kani, kani::stub(%s, __vf_noop))]" % NOOP_STUB)
        if self.fmt_stub:
            attrs.append("#[cfg_attr(kani, kani::stub(std::fmt::format, __vf_format))]")
        for orig, repl in self.stubs:
            attrs.append("#[cfg_attr(kani, kani::stub(%s, %s))]" % (orig, repl))
        return "    %s\n    pub fn %s() {\n%s\n    }\n" % ("\n    ".join(attrs), self.name, self.body)


PRELUDE = """
    #![allow(unused, unused_imports, unused_variables, unused_mut, dead_code, unreachable_code,
             clippy::all, non_snake_case, unused_parens, unused_comparisons)]
    use super::*;
    pub fn __vf_noop() {}
    pub fn __vf_format(_a: std::fmt::Arguments<'_>) -> std::string::String { std::string::String::new() }
    // native replay shim: the same harness bodies run as ordinary tests, kani::any() reads the
    // bytes of Kani's concrete playback in call order
    #[cfg(not(kani))]
    pub mod kani {
        use std::cell::RefCell;
        use std::collections::VecDeque;
        thread_local! { pub static VALS: RefCell<VecDeque<Vec<u8>>> = RefCell::new(VecDeque::new()); }
        pub struct AssumeViolated;
        pub fn set(v: Vec<Vec<u8>>) { VALS.with(|q| *q.borrow_mut() = v.into_iter().collect()); }
        pub fn any<T>() -> T {
            let v = VALS.with(|q| q.borrow_mut().pop_front()).expect("__verif_shim: ran out of concrete values");
            assert!(v.len() == std::mem::size_of::<T>(), "__verif_shim: size mismatch {} vs {}", v.len(), std::mem::size_of::<T>());
            unsafe { std::ptr::read_unaligned(v.as_ptr() as *const T) }
        }
        pub fn assume(c: bool) { if !c { std::panic::panic_any(AssumeViolated); } }
        macro_rules! cover { ($($t:tt)*) => {}; }
        pub(crate) use cover;
    }
"""


def mod_path(crate_dir_rel, file_rel):
    """module path of a source file inside its crate (erg crates keep sources at crate root)."""
    rel = os.path.relpath(file_rel, crate_dir_rel)
    parts = rel[:-3].split(os.sep)
    if parts[-1] in ("lib", "main", "mod"):
        parts = parts[:-1]
    return "::".join(parts)


CHECK_RE = re.compile(
    r"Check (\d+): (\S+)\n\s*- Status: (\w+)\n\s*- Description: \"(.*)\"\n(?:\s*- Location: (.*)\n)?")


def parse_output(out):
    res = {"checks": [], "status": None}
    for m in CHECK_RE.finditer(out):
        loc = m.group(5) or ""
        fn = ""
        mm = re.search(r" in function (.*)$", loc)
        if mm:
            fn = mm.group(1).strip()
        desc = m.group(4)
        if len(desc) >= 2 and desc[0] == '"' and desc[-1] == '"':
            desc = desc[1:-1]
        res["checks"].append({"n": int(m.group(1)), "name": m.group(2), "status": m.group(3),
                              "desc": desc, "loc": loc, "fn": fn})
    m = re.search(r"VERIFICATION:- (\w+)", out)
    if m:
        res["status"] = m.group(1)
    m = re.search(r"size of program expression: (\d+) steps", out)
    res["steps"] = int(m.group(1)) if m else None
    vc = re.findall(r"(\d+) variables, (\d+) clauses", out)
    if vc:
        res["variables"] = max(int(a) for a, _ in vc)
        res["clauses"] = max(int(b) for _, b in vc)
    st = re.findall(r"Runtime Solver: ([\d.e+-]+)s", out)
    res["solver_s"] = round(sum(float(x) for x in st), 3) if st else None
    m = re.search(r"Runtime Symex: ([\d.e+-]+)s", out)
    res["symex_s"] = float(m.group(1)) if m else None
    m = re.search(r"Verification Time: ([\d.]+)s", out)
    res["verif_s"] = float(m.group(1)) if m else None
    res["stubs_applied"] = re.findall(r"- Stub: (.*)", out)
    res["playbacks"] = []
    for m in re.finditer(r"Concrete playback unit test for `[^`]*`:\s*```\s*\n(.*?)```", out, re.S):
        blk = m.group(1)
        mm = re.search(r"/// Check for `(\w+)`: \"(.*)\"", blk)
        res["playbacks"].append({"kind": mm.group(1) if mm else "", "desc": mm.group(2) if mm else "", "text": blk})
    res["playback"] = None
    return res


def norm_desc(d):
    d = re.sub(r"\s+", " ", d.strip())
    d = re.sub(r"0x[0-9a-fA-F]+", "N", d)
    return d[:100]


class KaniRun:
    def __init__(self, scratch, pkg, crate_dir, tier, workers=None, cap=None, mem_gb=20):
        self.s = scratch
        self.pkg = pkg
        self.crate_dir = crate_dir           # e.g. crates/erg_common  or "." for the root crate
        self.tier = tier
        self.cap = cap or (300 if tier == "quick" else 1800)
        self.mem_gb = mem_gb
        self.workers = workers or max(2, min(NCPU // 2, 60 // mem_gb * 1 + 2))
        self.frags = {}                      # file_rel -> {"prelude": str, "harnesses": [Harness]}
        self.build_s = None
        self.build_log = ""
        self.extra_args = []

    def add(self, file_rel, harness, prelude=""):
        f = self.frags.setdefault(file_rel, {"prelude": [], "harnesses": []})
        if prelude and prelude not in f["prelude"]:
            f["prelude"].append(prelude)
        harness.file_rel = file_rel
        mp = mod_path(self.crate_dir, file_rel)
        harness.full = (mp + "::" if mp else "") + "__verif::" + harness.name
        f["harnesses"].append(harness)

    def all_harnesses(self):
        return [h for f in self.frags.values() for h in f["harnesses"]]

    def _write_overlay(self):
        for file_rel, f in self.frags.items():
            text = "#[cfg(any(kani, verif_replay))]\nmod __verif {" + PRELUDE + "\n".join(f["prelude"]) + "\n" + \
                   "\n".join(h.render() for h in f["harnesses"]) + "}\n"
            self.s.append(file_rel, text)
            f["text"] = text

    def _cmd(self, tdir, extra):
        return ["cargo", "kani", "-p", self.pkg, "--target-dir", tdir, "-Z", "stubbing"] + self.extra_args + extra

    def build(self):
        """Warm build: dependencies and the crate itself with no harness selected.  (cargo-kani passes
        the harness filter to kani-compiler, so every distinct filter recompiles the final crate; the
        workers below each compile their own group once on a copy of this target dir.)"""
        self._write_overlay()
        self.kt0 = os.path.join(self.s.root, "kt0." + self.pkg)
        t0 = time.time()
        rc, out, _ = sh(self._cmd(self.kt0, ["--only-codegen", "--harness", "__verif_no_such_harness__"]),
                        cwd=self.s.src, env=self.s.env(), timeout=3600)
        self.build_s = round(time.time() - t0, 1)
        self.build_log = out
        log("  kani warm build %s: %.0fs" % (self.pkg, self.build_s))
        if rc != 0:
            log("kani build failed for %s (rc=%s):\n%s" % (self.pkg, rc, out[-6000:]))
            return False
        return True

    def _invoke(self, hs, tdir, playback=False):
        """One cargo-kani invocation for a group of harnesses; returns {full name: result}."""
        cap = max(h.cap or self.cap for h in hs)
        extra = []
        for h in hs:
            extra += ["--harness", h.full]
        extra += ["--exact", "--harness-timeout", "%ds" % cap, "-Z", "unstable-options"]
        if playback:
            extra += ["-Z", "concrete-playback", "--concrete-playback=print"]
        total = cap * len(hs) + 1200
        wrapped = ["bash", "-c", "ulimit -v %d; exec timeout -k 5 %d \"$@\"" % (self.mem_gb * 1024 * 1024, total),
                   "x"] + self._cmd(tdir, extra)
        rc, out, dt = sh(wrapped, cwd=self.s.src, env=self.s.env(), timeout=total + 60)
        res = {}
        parts = re.split(r"^Checking harness (\S+?)\.\.\.\s*$", out, flags=re.M)
        head = parts[0]
        for i in range(1, len(parts) - 1, 2):
            name, sec = parts[i], parts[i + 1]
            r = parse_output(sec)
            r["rc"] = rc
            r["raw_tail"] = sec[-2500:]
            if "CBMC timed out" in sec:
                r["status"] = "TIMEOUT"
            elif r["status"] is None or (r["status"] == "FAILED" and not r["checks"]):
                low = sec.lower()
                if "bad_alloc" in low or "out of memory" in low or "memory exhausted" in low:
                    r["status"] = "OOM"
                else:
                    r["status"] = "ERROR"
            r["wall_s"] = r.get("verif_s") or 0.0
            res[name] = r
        return res, rc, head + (parts[-1][-1500:] if len(parts) > 1 else ""), dt

    def run(self):
        hs = self.all_harnesses()
        if not hs:
            return
        if not self.build():
            for h in hs:
                h.result = {"status": "BUILD-FAILED", "checks": [], "raw_tail": self.build_log[-3000:]}
            return
        nw = min(self.workers, len(hs))
        order = sorted(hs, key=lambda h: -(h.meta.get("cost", 1)))
        groups = [order[i::nw] for i in range(nw)]
        dirs = [self.kt0]
        for i in range(1, nw):
            d = os.path.join(self.s.root, "kt%d.%s" % (i, self.pkg))
            shutil.copytree(self.kt0, d, symlinks=True)
            dirs.append(d)

        def worker(group, d):
            pending = list(group)
            while pending:
                res, rc, tail, dt = self._invoke(pending, d)
                progressed = False
                for h in list(pending):
                    if h.full in res:
                        h.result = res[h.full]
                        pending.remove(h)
                        progressed = True
                        log("  kani %-46s %-10s %6.1fs steps=%s vars=%s" % (
                            h.name, h.result["status"], h.result["wall_s"], h.result.get("steps"), h.result.get("variables")))
                if pending and not progressed:
                    h = pending.pop(0)
                    st = "BUILD-FAILED" if ("error[" in tail or "could not compile" in tail) else "ERROR"
                    h.result = {"status": st, "checks": [], "raw_tail": tail[-3000:], "wall_s": dt}
                    log("  kani %-46s %-10s (no result section; rc=%s)" % (h.name, st, rc))
                    if st == "BUILD-FAILED":
                        for h2 in pending:
                            h2.result = {"status": st, "checks": [], "raw_tail": tail[-3000:], "wall_s": 0}
                        log(tail[-3000:])
                        return

        ts = [threading.Thread(target=worker, args=(g, d)) for g, d in zip(groups, dirs)]
        for t in ts:
            t.start()
        for t in ts:
            t.join()
        for d in dirs[1:]:
            shutil.rmtree(d, ignore_errors=True)

    def playback_of(self, h):
        """Re-run one failing harness with concrete playback on (26 s extra per harness even when nothing
        fails, hence only on demand)."""
        res, rc, tail, dt = self._invoke([h], self.kt0, playback=True)
        r = res.get(h.full)
        return r.get("playbacks") if r else []

    # ------------------------------------------------------------------
    def obligations(self, h, functions):
        """Turn one harness result into obligations (role-keyed)."""
        r = h.result
        base = dict(engine="kani 0.68 / CBMC 6.11 (CaDiCaL)", functions=functions, shape=h.meta.get("shape"),
                    symbolic=h.meta.get("symbolic"), bounds=dict(unwind=h.unwind, **h.meta.get("bounds", {})),
                    stubs=[NOOP_STUB + " -> {}"] + (["std::fmt::format -> String::new()"] if h.fmt_stub else []) +
                          ["%s -> %s" % s for s in h.stubs],
                    solver="cadical", solver_s=r.get("solver_s"),
                    detail={k: r.get(k) for k in ("steps", "variables", "clauses", "symex_s", "wall_s", "verif_s")})
        out = []
        st = r["status"]
        if st in ("TIMEOUT", "OOM", "ERROR", "BUILD-FAILED"):
            o = Obligation(base, key=h.role + "/*", verdict=BROKEN if st == "BUILD-FAILED" else INCONCLUSIVE,
                           reason=st.lower() + (": " + r.get("raw_tail", "")[-400:] if st in ("ERROR", "BUILD-FAILED") else ""))
            return [o]
        checks = r["checks"]
        unwind_fail = [c for c in checks if c["status"] == "FAILURE" and "unwinding assertion" in c["desc"]]
        # vacuity witnesses
        cov = {c["desc"]: c["status"] for c in checks if c["name"].endswith(".cover." + c["name"].rsplit(".", 1)[-1]) or ".cover." in c["name"]}
        vac_ok = True
        for cid in h.covers:
            stc = [s for d, s in cov.items() if d == cid]
            if not stc or not all(s == "SATISFIED" for s in stc):
                vac_ok = False
        base["vacuity"] = {"witnesses": h.covers, "all_reachable": vac_ok}
        if unwind_fail:
            return [Obligation(base, key=h.role + "/*", verdict=INCONCLUSIVE,
                               reason="unwinding assertion failed (bound %s too small): %s" % (h.unwind, unwind_fail[0]["loc"]))]
        if not vac_ok:
            fl = ["%s @ %s" % (c["desc"][:80], c["loc"][-60:]) for c in checks if c["status"] == "FAILURE"][:4]
            return [Obligation(base, key=h.role + "/*", verdict=BROKEN,
                               reason="vacuity witness not reachable: %s; failing checks: %s" % (cov, fl))]
        failed = [c for c in checks if c["status"] == "FAILURE"]
        undet = [c for c in checks if c["status"] == "UNDETERMINED"]
        seen = set()
        for c in failed:
            if "__verif" in c["fn"] or "__verif" in c["name"]:
                m = re.match(r"([A-Za-z0-9_.-]+):", c["desc"])
                aid = m.group(1) if m else "assert:" + norm_desc(c["desc"])
            else:
                fn = re.sub(r"<|>|impl | as .*", "", c["fn"]).strip() or c["name"].rsplit(".", 2)[0]
                aid = "panic:" + norm_desc(c["desc"]) + "@" + fn
            key = h.role + "/" + aid
            if key in seen:
                continue
            seen.add(key)
            out.append(Obligation(base, key=key, verdict=VIOLATED,
                                  reason="%s (%s)" % (c["desc"], c["loc"]),
                                  check_desc=c["desc"], harness=h))
        # assertions of the harness that passed
        agg = []
        for aid, meaning in h.asserts.items():
            key = h.role + "/" + aid
            if key in seen:
                continue
            mine = [c for c in checks if c["desc"].startswith(aid + ":")]
            if mine and all(c["status"] == "SUCCESS" for c in mine):
                if getattr(h, "aggregate", False):
                    agg.append(aid)
                else:
                    out.append(Obligation(base, key=key, verdict=HELD, reason=meaning))
            elif not mine:
                out.append(Obligation(base, key=key, verdict=BROKEN, reason="assertion id not found in CBMC output"))
            elif failed and all(c["status"] in ("UNREACHABLE", "SUCCESS", "UNDETERMINED") for c in mine):
                base.setdefault("masked", []).append(aid)   # cut off by a failing check earlier on the path
            else:
                out.append(Obligation(base, key=key, verdict=INCONCLUSIVE,
                                      reason="status " + ",".join(sorted({c["status"] for c in mine}))))
        if agg:
            out.append(Obligation(base, key=h.role + "/all-passing(%d)" % len(agg), verdict=HELD,
                                  reason="%d assertions held: %s" % (len(agg), ",".join(agg)[:300])))
        # panic freedom of the real code on this shape
        panics = [c for c in failed if "__verif" not in c["fn"] and "__verif" not in c["name"]]
        if not panics:
            if undet and not failed:
                out.append(Obligation(base, key=h.role + "/no-panic", verdict=INCONCLUSIVE, reason="undetermined checks"))
            else:
                n = len([c for c in checks if c["status"] == "SUCCESS"])
                out.append(Obligation(base, key=h.role + "/no-panic", verdict=HELD,
                                      reason="%d CBMC checks (overflow, bounds, unwrap, unreachable, pointer) passed" % n))
        return out


def confirm_violations(rep, scratch, runs):
    """Replay every *unlisted* violated Kani obligation natively (dev and release) before it is
    reported: rerun the harness with concrete playback, feed the bytes to the native shim in the
    overlay and run the harness body as an ordinary `cargo test`.  A counterexample that does not
    reproduce in either profile turns the obligation into an ENCODING-ERROR (exit 2)."""
    import hashlib
    todo = [o for o in rep.obls if o.get("verdict") == VIOLATED and not rep.known.lookup(rep.prop, o["key"])]
    cache = {}
    for o in todo:
        h = o.get("harness")
        run = next((r for r in runs if h in r.all_harnesses()), None) if h else None
        if not run:
            continue
        if h.name not in cache:
            cache[h.name] = run.playback_of(h)
        pbs = cache[h.name]
        want = o.get("check_desc", "")
        pb = next((p for p in pbs if p["kind"] != "cover" and want and p["desc"].strip('"').startswith(want[:40])), None) or \
            next((p for p in pbs if p["kind"] != "cover"), None)
        ok, detail, vals = (None, "no concrete playback produced", None)
        if pb:
            ok, detail, vals = native_replay(scratch, run, h, pb["text"])
        d = os.path.join(os.path.dirname(os.path.dirname(os.path.abspath(__file__))), "replays", rep.prop)
        os.makedirs(d, exist_ok=True)
        path = os.path.join(d, hashlib.sha256(o["key"].encode()).hexdigest()[:10] + ".rs")
        with open(path, "w") as f:
            f.write("// property %s obligation %s\n// %s\n// harness (appended to %s inside mod __verif):\n%s\n// concrete values (kani::any() in call order): %s\n// native replay: %s\n"
                    % (rep.prop, o["key"], o.get("reason", ""), h.file_rel, h.render(), vals,
                       "\n// ".join(str(detail).splitlines()[-40:])))
        o["replay"] = path
        o["model"] = vals
        rep.replayed += 1
        if ok is False:
            o["verdict"] = BROKEN
            o["reason"] = "counterexample did not reproduce natively: " + o.get("reason", "")
        elif ok is None:
            o["replay_note"] = "native replay unavailable (%s); reported from the CBMC trace" % str(detail)[:200]
    for o in rep.obls:
        o.pop("harness", None)
        o.pop("playback", None)


def native_replay(scratch, run, h, pbtext):
    m = re.search(r"let concrete_vals: Vec<Vec<u8>> = vec!\[(.*?)\];\s*kani::concrete_playback_run", pbtext, re.S)
    if not m:
        return None, "unparsable playback", None
    body = re.sub(r"//[^\n]*", "", m.group(1))
    vals = "vec![" + " ".join(body.split()) + "]"
    tname = "vreplay_" + h.name
    test = """
    #[cfg(all(test, verif_replay))]
    #[test]
    fn %s() {
        kani::set(%s);
        let r = std::panic::catch_unwind(|| { %s(); });
        match r {
            Ok(()) => println!("VREPLAY: completed without panic"),
            Err(e) => {
                if e.downcast_ref::<kani::AssumeViolated>().is_some() { println!("VREPLAY: assumption violated"); }
                else {
                    let msg = e.downcast_ref::<String>().cloned().or_else(|| e.downcast_ref::<&str>().map(|s| s.to_string())).unwrap_or_default();
                    println!("VREPLAY: PANIC {}", msg);
                }
            }
        }
    }
""" % (tname, vals, h.name)
    path = scratch.path(h.file_rel)
    src = open(path, encoding="utf-8").read()
    if ("fn " + tname + "(") not in src:
        i = src.rstrip().rfind("}")
        src = src[:i] + test + "}\n"
        open(path, "w", encoding="utf-8").write(src)
    results = []
    rep = False
    for prof in ([], ["--release"]):
        cmd = ["cargo", "test", "--offline", "-p", run.pkg, "--lib"] + prof + ["--", tname, "--exact", "--nocapture", "--test-threads", "1"]
        cmd = ["cargo", "test", "--offline", "-p", run.pkg, "--lib"] + prof + ["--", tname, "--nocapture", "--test-threads", "1"]
        rc, out, dt = sh(cmd, cwd=scratch.src, env=scratch.env(RUSTFLAGS="--cfg verif_replay",
                                                                CARGO_TARGET_DIR=os.path.join(scratch.root, "native")), timeout=3000)
        lines = [l for l in out.splitlines() if "VREPLAY:" in l]
        results.append("%s: %s" % (" ".join(prof) or "dev", lines[0] if lines else "no result (rc=%s) %s" % (rc, out[-600:])))
        if lines and "PANIC" in lines[0] and "__verif_shim" not in lines[0]:
            rep = True
        elif rc != 0 and not lines and ("panicked at" in out or "SIGABRT" in out or "overflow" in out):
            rep = True      # aborting panic (e.g. inside a nounwind frame)
    if not any("VREPLAY:" in r for r in results) and not rep:
        return None, "\n".join(results), vals
    return rep, "\n".join(results), vals


def replay_unused(scratch, run, ob, release=True):
    """Append Kani's concrete-playback test to the overlay and run it natively.
    Returns (reproduced: bool, text)."""
    h = ob.get("harness")
    pb = ob.get("playback")
    if not h or not pb:
        return None, "no concrete playback available"
    m = re.search(r"fn (kani_concrete_playback_\w+)", pb)
    if not m:
        return None, "unparsable playback"
    tname = m.group(1)
    f = run.frags[h.file_rel]
    path = scratch.path(h.file_rel)
    src = open(path, encoding="utf-8").read()
    if tname not in src:
        i = src.rstrip().rfind("}")
        src = src[:i] + "\n" + pb + "\n}\n"
        open(path, "w", encoding="utf-8").write(src)
    results = []
    for prof in ([[]] + ([["--release"]] if release else [])):
        cmd = ["cargo", "kani", "playback", "-Z", "concrete-playback", "-p", run.pkg] + prof + ["--", tname]
        rc, out, dt = sh(cmd, cwd=scratch.src, env=scratch.env(), timeout=3000)
        failed = ("test result: FAILED" in out) or ("panicked at" in out)
        ran = "running 1 test" in out
        results.append((" ".join(prof) or "dev", ran, failed, out[-1500:]))
    rep = any(f for _, ran, f, _ in results if ran)
    return rep, results
