"""C18, stage 4 — the structural arms of the JSON generator.

`JsonGenerator::transpile_expr` (list, tuple, record and dict displays), `transpile_def` and `transpile` (the module's chunks)
are executed on their rustc MIR (engine mirsem with the String model of stage 3 and a model of `format!`: the template bytes
of `fmt::Arguments::new` — literal runs and `{}` placeholders — are read from the MIR constant) on containers of n elements
whose element expressions are opaque.  The text of a sub-expression (a recursive `transpile_expr` call) is an opaque *piece*
that is a JSON value by the induction hypothesis; a record key is an identifier piece.  Every feasible path returns a
sequence of characters and pieces; a small RFC 8259 structure parser over such sequences (arrays, objects, members, JSON
whitespace) must accept it and yield exactly the expected tree: the elements in order, each name with its own value, each
key with its own value.  The comma logic of `transpile` branches on the *length* of each chunk's text, a solver integer; the
premise of the property (every binding is public, i.e. every chunk text is non-empty) is the only assumption."""
import re
import time

import z3

import mir2smt as M
import mirsem as S
from common import (BROKEN, HELD, INCONCLUSIVE, VIOLATED, Obligation, extract_fn, log)
from mirflow import Ref, Unsupported, const
from c18_str import StrFlow, fmt_models, rust_unescape

WS = (32, 10, 13, 9)


class StructFlow(StrFlow):
    pass


def chars(s):
    return [z3.IntVal(ord(c)) for c in s]


def models(lens, helpers=(), F=None):
    def wr(flow, P, r, val):
        if not isinstance(r, Ref):
            raise Unsupported("receiver is not a local reference")
        flow.write(P, r.local, list(r.path), val)

    def as_items(flow, P, x):
        v = flow.deref_all(P, x)
        if isinstance(v, tuple) and v and v[0] == "strlit":
            return chars(v[1])
        if isinstance(v, tuple) and v and v[0] == "strbuf":
            return list(v[1])
        if isinstance(v, tuple) and v and v[0] == "nameref":
            return [("piece", "name", v[1])]
        if z3.is_expr(v):
            m = re.search(r"(?:elem|key|sig)_\d+", str(v))
            return [("piece", "display", "Display of " + (m.group(0) if m else str(v)[:40]))]
        raise Unsupported("not a string value: %r" % (v,))

    def to_string(flow, P, callee, args):
        return ("strbuf", as_items(flow, P, args[0]))

    def add_assign(flow, P, callee, args):
        buf = flow.deref_all(P, args[0])
        if not (isinstance(buf, tuple) and buf[0] == "strbuf"):
            raise Unsupported("+= on %r" % (buf,))
        wr(flow, P, args[0], ("strbuf", buf[1] + as_items(flow, P, args[1])))
        return const("unit")

    def deref(flow, P, callee, args):
        return flow.deref_all(P, args[0])

    def rec_expr(flow, P, callee, args):
        e = args[1]
        name = str(flow.term(flow.deref_all(P, e)))
        return ("strbuf", [("piece", "value", name)])

    def into_iter(flow, P, callee, args):
        v = flow.deref_all(P, args[0])
        enum = callee.endswith("::enumerate")
        if isinstance(v, tuple) and v and v[0] == "vec":
            return ("viter", list(v[1]), 0, enum)
        if isinstance(v, tuple) and v and v[0] == "viter":
            return ("viter", v[1], v[2], v[3] or enum)
        raise Unsupported("into_iter on %r" % (v,))

    def e_next(flow, P, callee, args):
        it = flow.deref_all(P, args[0])
        if not (isinstance(it, tuple) and it[0] == "viter"):
            raise Unsupported("next on %r" % (it,))
        if it[2] >= len(it[1]):
            return ("agg", "Option::None", [])
        wr(flow, P, args[0], ("viter", it[1], it[2] + 1, it[3]))
        if not it[3]:
            return ("agg", "Option::Some", [it[1][it[2]]])
        return ("agg", "Option::Some", [("agg", "tuple2", [("int", it[2]), it[1][it[2]]])])

    def remove0(flow, P, callee, args):
        v = flow.deref_all(P, args[0])
        if isinstance(v, tuple) and v and v[0] == "vec" and v[1] and flow.is_int(args[1]) and args[1][1] == 0:
            return v[1][0]
        raise Unsupported("Block::remove on %r" % (v,))

    def inspect(flow, P, callee, args):
        return flow.new_place(P, "nm", ("nameref", str(flow.term(flow.deref_all(P, args[0])))))

    def ident(flow, P, callee, args):
        return args[0]

    def s_len(flow, P, callee, args):
        v = flow.deref_all(P, args[0])
        if isinstance(v, tuple) and v[0] == "strbuf":
            if all(z3.is_expr(x) for x in v[1]):
                return ("int", len(v[1]))
            if len(v[1]) == 1:
                nm = v[1][0][2]
                if nm not in lens:
                    lens[nm] = z3.Int("len_" + nm)
                return ("sint", lens[nm])
        raise Unsupported("String::len of %r" % (v,))

    def s_pop(flow, P, callee, args):
        buf = flow.deref_all(P, args[0])
        if not (isinstance(buf, tuple) and buf[0] == "strbuf"):
            raise Unsupported("String::pop on %r" % (buf,))
        if buf[1] and not z3.is_expr(buf[1][-1]):
            raise Unsupported("String::pop would cut into the text of a sub-expression")
        wr(flow, P, args[0], ("strbuf", buf[1][:-1]))
        return const("popped_%d" % flow.ctr.next())

    def helper(flow, P, callee, args):
        """another method of JsonGenerator / function of transpile.rs (a refactoring helper): executed, not assumed"""
        short = re.sub(r"::<.*$", "", callee).rsplit("::", 1)[-1]
        c = [f for f in flow.fns.values() if f.short == short and f.name != flow.fn.name and len(f.params) == len(args)]
        if len({f.name for f in c}) != 1:
            raise Unsupported("helper %s not found uniquely in the MIR dump" % callee)
        return flow.inline(P, c[0], args)

    def norm(name):
        m = re.search(r"(?:elem|key|sig)_\d+", name)
        return m.group(0) if m else name

    def as_vec(flow, P, x):
        v = flow.deref_all(P, x)
        if isinstance(v, tuple) and v and v[0] in ("vec", "dict"):
            return v
        raise Unsupported("not a modelled container: %r" % (v,))

    def slice_iter(flow, P, callee, args):
        v = as_vec(flow, P, args[0])
        if v[0] == "vec":
            return ("viter", [flow.new_place(P, "pe", e) for e in v[1]], 0, False)
        return ("viter", [("agg", "tuple2", [flow.new_place(P, "pk", k), flow.new_place(P, "pv", e)]) for k, e in v[1]], 0, False)

    def it_map(flow, P, callee, args):
        it = flow.deref_all(P, args[0])
        if not (isinstance(it, tuple) and it[0] in ("viter", "mapped")):
            raise Unsupported("map on %r" % (it,))
        return ("mapped", it, args[1], callee)

    def elements(flow, P, it):
        if it[0] == "viter":
            return list(it[1][it[2]:])
        out = []
        for x in elements(flow, P, it[1]):
            r = apply(flow, P, it[2], it[3], x)
            if isinstance(r, tuple) and r and r[0] == "fork":
                raise Unsupported("the mapped callable returns on several paths")
            out.append(r)
        return out

    def apply(flow, P, f, callee, x):
        if isinstance(f, tuple) and f and f[0] == "fnitem":
            short = re.sub(r"::<.*$", "", f[1]).rsplit("::", 1)[-1]
            if short == F:
                return rec_value(flow, P, short, [x])
            c = [g for g in flow.fns.values() if g.short == short and len(g.params) == 1]
            if len({g.name for g in c}) != 1:
                raise Unsupported("mapped function %s not found uniquely" % f[1])
            return flow.inline(P, c[0], [x])
        mm = re.search(r"\{closure@([^}]*)\}", callee)
        if not mm:
            raise Unsupported("mapped callable in " + callee[:80])
        loc = mm.group(1).strip()
        c = [g for g in flow.fns.values() if "{closure#" in g.short and g.params and loc in g.params[0][1]]
        if len({g.name for g in c}) != 1:
            raise Unsupported("closure at %s not found uniquely" % loc)
        return flow.inline(P, c[0], [f, x])

    def collect(flow, P, callee, args):
        m = flow.deref_all(P, args[0])
        if not (isinstance(m, tuple) and m[0] == "mapped"):
            raise Unsupported("collect on %r" % (m,))
        return ("vec", elements(flow, P, m))

    def join(flow, P, callee, args):
        v = as_vec(flow, P, args[0])
        sep = as_items(flow, P, args[1])
        out = []
        for i, x in enumerate(v[1]):
            if i:
                out += sep
            out += as_items(flow, P, x)
        return ("strbuf", out)

    def rec_value(flow, P, callee, args):
        return ("strbuf", [("piece", "value", norm(str(flow.term(flow.deref_all(P, args[0])))))])

    def str_kernel(flow, P, callee, args):
        """the string kernel of stage 3: its text is a JSON string (a value; usable as a key)"""
        v = flow.deref_all(P, args[0])
        return ("strbuf", [("piece", "value", norm(str(flow.term(v)) if not isinstance(v, tuple) else repr(v)))])

    def opaque_bool(flow, P, callee, args):
        return flow.mkbool(P, z3.Bool("b_%d" % flow.ctr.next()))

    return [(r"<str as ToString>::to_string$|<String as From<&str>>::from$|str::<impl str>::to_owned$", to_string),
            (r"<String as AddAssign<&str>>::add_assign$|String::push_str$", add_assign),
            (r"<String as Deref>::deref$|String::as_str$", deref),
            (r"JsonGenerator::transpile_expr$", rec_expr),
            (r"as IntoIterator>::into_iter$|as Iterator>::enumerate$", into_iter),
            (r"<Enumerate<.*> as Iterator>::next$|<std::vec::IntoIter<.*> as Iterator>::next$", e_next),
            (r"Stream<hir::Expr>>::remove$", remove0),
            (r"hir::Signature::inspect$", inspect),
            (r"^String::pop$", s_pop),
            (r"^String::len$", s_len),
            (r"CompileErrors::is_empty$", opaque_bool),
            (r"<Arc<\[.*\]> as Deref>::deref$|<Vec<String> as Deref>::deref$", lambda flow, P, callee, args: as_vec(flow, P, args[0])),
            (r"slice::<impl \[.*\]>::iter$|dict::Dict::<.*>::iter$", slice_iter),
            (r" as Iterator>::map::<", it_map), (r" as Iterator>::collect::<Vec<String>>$", collect),
            (r"slice::<impl \[String\]>::join::<&str>$", join)] + \
        ([(r"^%s$" % re.escape(F), rec_value), (r"^json_string$|^%s$" % "|".join(sorted(h for h in helpers if "string" in h or "escape" in h) or ["json_string"]), str_kernel)] if F else []) + \
        fmt_models(as_items) + \
        ([(r"^(?:JsonGenerator::|transpile::)?(?:%s)(?:::<.*>)?$" % "|".join(sorted(helpers)), helper)] if helpers else [])


# ---- the reference: RFC 8259 structure over characters and pieces
class Bad(Exception):
    pass


def parse(items):
    n = len(items)

    def ch(i):
        x = items[i] if i < n else None
        return x.as_long() if x is not None and z3.is_expr(x) else None

    def ws(i):
        while i < n and ch(i) in WS:
            i += 1
        return i

    def piece(i, kind):
        return i < n and isinstance(items[i], tuple) and items[i][1] == kind

    def value(i):
        i = ws(i)
        if piece(i, "value"):
            return ("val", items[i][2]), i + 1
        if ch(i) == 91:
            out, i = [], ws(i + 1)
            if ch(i) == 93:
                return ("arr", out), i + 1
            while True:
                v, i = value(i)
                out.append(v)
                i = ws(i)
                if ch(i) == 44:
                    i += 1
                    continue
                if ch(i) == 93:
                    return ("arr", out), i + 1
                raise Bad("in an array: expected `,` or `]` at position %d" % i)
        if ch(i) == 123:
            out, i = [], ws(i + 1)
            if ch(i) == 125:
                return ("obj", out), i + 1
            while True:
                mbr, i = member(i)
                out.append(mbr)
                i = ws(i)
                if ch(i) == 44:
                    i += 1
                    continue
                if ch(i) == 125:
                    return ("obj", out), i + 1
                raise Bad("in an object: expected `,` or `}` at position %d" % i)
        raise Bad("expected a value at position %d" % i)

    def member(i):
        i = ws(i)
        if piece(i, "member"):
            return ("member", items[i][2]), i + 1
        if piece(i, "value"):
            key, i = ("key", items[i][2]), i + 1
        elif ch(i) == 34 and piece(i + 1, "name") and ch(i + 2) == 34:
            key, i = ("name", items[i + 1][2]), i + 3
        else:
            raise Bad("expected a member (a quoted name or a key) at position %d" % i)
        i = ws(i)
        if ch(i) != 58:
            raise Bad("expected `:` after a key at position %d" % i)
        v, i = value(i + 1)
        return (key, v), i

    return value, member, ws


def canon(t):
    """members of an object are unordered"""
    if isinstance(t, tuple) and len(t) == 2 and t[0] == "obj":
        return ("obj", sorted((canon(m) for m in t[1]), key=repr))
    if isinstance(t, tuple) and len(t) == 2 and t[0] == "arr":
        return ("arr", [canon(x) for x in t[1]])
    if isinstance(t, tuple):
        return tuple(canon(x) for x in t)
    return t


def show(items):
    return "".join(chr(x.as_long()) if z3.is_expr(x) else "<%s>" % x[2] for x in items)


def find_strbuf(v):
    if isinstance(v, tuple) and v and v[0] == "strbuf":
        return v
    if isinstance(v, tuple) and v and v[0] == "agg":
        for x in v[2]:
            r = find_strbuf(x)
            if r is not None:
                return r
    return None


def stage(rep, s, tsrc, tier, only, text, F=None):
    t0 = time.time()
    hsrc = s.read("crates/erg_compiler/hir.rs")
    structs = {}
    for mm in re.finditer(r"pub struct (\w+)\s*\{(.*?)\n\}", hsrc, re.S):
        structs[mm.group(1)] = re.findall(r"^\s*(?:pub(?:\([^)]*\))?\s+)?(\w+)\s*:", mm.group(2), re.M)
    variants = M.rust_enum_variants(hsrc, "Expr")
    vvariants = M.rust_enum_variants(s.read("crates/erg_compiler/ty/value.rs"), "ValueObj") or []
    nmax = 2 if tier == "quick" else 3
    jobs = []
    for kind in ("list", "tuple", "record", "dict"):
        for n in range(nmax + 1):
            jobs.append((kind, n))
    jobs += [("def", 1)] + [("module", n) for n in range(1, nmax + 1)]
    if F:
        jobs += [("value-" + k, n) for k in ("list", "tuple", "dict", "record") for n in range(nmax + 1)]
    keys = {j: "structure/%s/n=%d" % j for j in jobs}
    if only and not any(o in k for o in only.split(",") for k in keys.values()):
        return
    base = dict(engine="mirsem (MIR -> z3 %s)" % z3.get_version_string(), solver="z3")
    need = {"NormalList": ["elems"], "NormalTuple": ["elems"], "Args": ["pos_args"], "PosArg": ["expr"], "Record": ["attrs"], "Def": ["sig", "body"],
            "DefBody": ["block"], "NormalDict": ["kvs"], "KeyValue": ["key", "value"], "HIR": ["module"]}
    missing = [k for k, fs in need.items() if k not in structs or any(f not in structs[k] for f in fs)]
    local_fns = set(re.findall(r"^\s*(?:pub(?:\([^)]*\))?\s+)?fn (\w+)", tsrc[tsrc.index("impl JsonGenerator"):] if "impl JsonGenerator" in tsrc else "", re.M))
    free = set(re.findall(r"^fn (\w+)", tsrc, re.M))
    fns = M.parse_mir(text, want=["<impl at crates/erg_compiler/transpile.rs"] + sorted(free))
    helpers = (local_fns | free) - {"transpile_expr", "transpile_def", "transpile", "register_def", "expr_into_value", "new"}
    jg = [f for f in fns.values() if f.params and "JsonGenerator" in f.params[0][1]]
    by = {f.short: f for f in jg}
    obs = {}
    for j in jobs:
        fn = {"def": "transpile_def", "module": "transpile"}.get(j[0], "transpile_expr")
        obs[j] = Obligation(dict(base, functions=[F if j[0].startswith("value-") else "JsonGenerator::" + fn], shape="%s of %d element(s)" % j,
                                 symbolic=["element expressions (opaque; their text is a JSON value by the induction hypothesis)"] +
                                          (["the length of each chunk's text (> 0: every binding is public)"] if j[0] == "module" else []), bounds={"elements": j[1]}), key=keys[j])
        rep.add(obs[j])
    if missing or not variants or any(k not in by for k in ("transpile_expr", "transpile_def", "transpile")):
        for ob in obs.values():
            ob.update(verdict=BROKEN, reason="hir.rs structs %s / the JsonGenerator functions could not be read as expected" % missing)
        return
    for fn in ("transpile_def", "transpile"):
        m = re.search(r"impl JsonGenerator \{(.*)$", tsrc, re.S)
        rep.add_function("JsonGenerator::" + fn, "crates/erg_compiler/transpile.rs", extract_fn(m.group(1) if m else "", fn))

    def mk(name, **fields):
        return ("agg", "hir::" + name, [fields.get(f, const("%s_%s_%d" % (name, f, ctr.next()))) for f in structs[name]])

    ctr = S.Counter()
    for j in jobs:
        kind, n = j
        ob = obs[j]
        if only and not any(o in ob["key"] for o in only.split(",")):
            ob.update(verdict=INCONCLUSIVE, reason="filtered out")
            continue
        try:
            lens = {}
            el = [const("elem_%d" % i) for i in range(n)]
            if kind in ("list", "tuple"):
                args = mk("Args", pos_args=("vec", [mk("PosArg", expr=e) for e in el]))
                inner = mk("NormalList" if kind == "list" else "NormalTuple", elems=args)
                node = ("agg", "hir::Expr::" + kind.capitalize(), [("agg", "hir::%s::Normal" % kind.capitalize(), [inner])])
                want = ("arr", [("val", str(e)) for e in el])
                fn, pre = by["transpile_expr"], {"_2": node}
            elif kind == "record":
                sigs = [const("sig_%d" % i) for i in range(n)]
                defs = [mk("Def", sig=sigs[i], body=mk("DefBody", block=("vec", [el[i]]))) for i in range(n)]
                node = ("agg", "hir::Expr::Record", [mk("Record", attrs=("vec", defs))])
                want = ("obj", [(("name", str(sigs[i])), ("val", str(el[i]))) for i in range(n)])
                fn, pre = by["transpile_expr"], {"_2": node}
            elif kind == "dict":
                ks = [const("key_%d" % i) for i in range(n)]
                kvs = [mk("KeyValue", key=ks[i], value=el[i]) for i in range(n)]
                node = ("agg", "hir::Expr::Dict", [("agg", "hir::Dict::Normal", [mk("NormalDict", kvs=("vec", kvs))])])
                want = ("obj", [(("key", str(ks[i])), ("val", str(el[i]))) for i in range(n)])
                fn, pre = by["transpile_expr"], {"_2": node}
            elif kind == "def":
                sig = const("sig_0")
                node = mk("Def", sig=sig, body=mk("DefBody", block=("vec", [el[0]])))
                want = (("name", str(sig)), ("val", str(el[0])))
                fn, pre = by["transpile_def"], {"_2": node}
            elif kind == "module":
                node = mk("HIR", module=("vec", el))
                want = ("obj", [("member", str(e)) for e in el])
                fn, pre = by["transpile"], {"_2": node}
            else:
                vf = [f for f in fns.values() if f.short == F and "{closure" not in f.name]
                if len(vf) != 1:
                    raise Unsupported("%s not found uniquely in the MIR dump" % F)
                vk = kind.split("-")[1]
                if vk in ("list", "tuple"):
                    payload = ("vec", el)
                    want = ("arr", [("val", str(e)) for e in el])
                elif vk == "dict":
                    ks = [("agg", "ty::value::ValueObj::Str", [const("key_%d" % i)]) for i in range(n)]
                    payload = ("dict", [(ks[i], el[i]) for i in range(n)])
                    want = ("obj", [(("key", "key_%d" % i), ("val", str(el[i]))) for i in range(n)])
                else:
                    ks = [const("sig_%d" % i) for i in range(n)]
                    payload = ("dict", [(ks[i], el[i]) for i in range(n)])
                    want = ("obj", [(("key", "sig_%d" % i), ("val", str(el[i]))) for i in range(n)])
                fn, pre = vf[0], {"p_V": ("agg", "ty::value::ValueObj::" + vk.capitalize(), [payload]), "_1": Ref("p_V")}
            mods = models(lens, helpers - {fn.short}, F if kind.startswith("value-") else None)
            if kind == "def":
                mods = [(r"VisibilityModifier::is_public$", lambda flow, P, callee, args: S.TRUE)] + mods
            flow = StructFlow(fns, fn, mods, {"Expr": variants, "Option": ["None", "Some"], "List": ["Normal", "WithLength"], "Tuple": ["Normal"],
                                              "Dict": ["Normal", "Comprehension"], "Result": ["Ok", "Err"], "ValueObj": vvariants}, max_steps=20000)
            pre.setdefault("_1", const("generator"))
            outs = flow.run("bb0", stop_at=(), pre=pre, pc=list(S.BASE_AXIOMS))
            npaths, bad = 0, None
            for Q, end in outs:
                if end != "return":
                    continue
                pc = list(Q.pc) + [v > 0 for v in lens.values()]
                if not flow.feasible(pc):
                    continue
                r = Q.locals.get("_0")
                if isinstance(r, tuple) and r and r[0] == "agg" and r[1].endswith("Err"):
                    continue                      # errors were recorded: no file is written
                sb = find_strbuf(r)
                if sb is None:
                    raise Unsupported("the result holds no built String: %r" % (r,))
                npaths += 1
                items = sb[1]
                if kind == "module":
                    items = [("piece", "member", x[2]) if isinstance(x, tuple) else x for x in items]
                value, member, ws = parse(items)
                try:
                    tree, i = (member if kind == "def" else value)(0)
                    if ws(i) != len(items):
                        raise Bad("text after the value at position %d" % i)
                    if canon(tree) != canon(want):
                        raise Bad("the text denotes %r, expected %r" % (tree, want))
                except Bad as e:
                    bad = bad or (str(e), show(sb[1]))
            ob["queries"] = flow.queries
            ob["detail"] = {"paths": npaths, "text of one path": show(sb[1]) if npaths else ""}
            if npaths == 0:
                ob.update(verdict=BROKEN, reason="no feasible path returns text (vacuous encoding)")
            elif bad:
                ob["model"] = {"text": bad[1]}
                ob.update(verdict=VIOLATED, reason="%s: the text is `%s`" % (bad[0], bad[1].replace("\n", "\\n")))
            else:
                ob.update(verdict=HELD, reason="on all %d paths the text is the JSON %s of the %d element text(s), in order" % (
                    npaths, {"list": "array", "tuple": "array", "record": "object (name: value)", "dict": "object (key: value)", "def": "member", "module": "object"}.get(kind.split("-")[-1], "value"), n))
        except Unsupported as e:
            ob.update(verdict=INCONCLUSIVE, reason="unsupported-construct: " + str(e)[:200])
    log("  stage 4 (structure): %.0fs" % (time.time() - t0))
    return [ob for ob in obs.values() if ob.get("verdict") == VIOLATED]
